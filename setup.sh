#!/bin/sh
# Builds the overlay interpreter /verif/.venv (python 3.12 of /venv + z3-solver + cvc5 from the offline wheelhouse).
# Idempotent; offline.
set -e
cd "$(dirname "$0")"
if [ ! -x .venv/bin/python ] || ! .venv/bin/python -c "import z3, cvc5, vyper" >/dev/null 2>&1; then
  rm -rf .venv
  /venv/bin/python -m venv .venv
  PIP_NO_INDEX=1 .venv/bin/python -m pip install -q --no-index --find-links /opt/veriftools/wheels z3-solver cvc5 >/dev/null
  SP=$(.venv/bin/python -c "import sysconfig; print(sysconfig.get_paths()['purelib'])")
  echo "import site; site.addsitedir('/venv/lib/python3.12/site-packages')" > "$SP/_overlay.pth"
fi
PYTHONPATH=/repo .venv/bin/python -c "import z3, cvc5, vyper; print('overlay ok', z3.get_version_string(), vyper.__file__)"
