"""Throw-away feasibility prototype of PyVC: symbolic execution of *live* Python
function objects (source re-read via inspect on every run) into z3 Int formulas.
Covers only what vyper.venom.passes.sccp.eval / vyper.utils need."""
import ast, inspect, textwrap, operator, time, sys
import z3


class Undecided(Exception):
    pass


def is_sym(v):
    return isinstance(v, z3.ExprRef)


def as_bool(v):
    if isinstance(v, bool):
        return z3.BoolVal(v)
    if isinstance(v, int):
        return z3.BoolVal(v != 0)
    if z3.is_bool(v):
        return v
    if z3.is_int(v):
        return v != 0
    raise Undecided("bool of %r" % (v,))


def as_int(v):
    if isinstance(v, bool):
        return z3.IntVal(int(v))
    if isinstance(v, int):
        return z3.IntVal(v)
    if z3.is_bool(v):
        return z3.If(v, z3.IntVal(1), z3.IntVal(0))
    if z3.is_int(v):
        return v
    raise Undecided("int of %r" % (v,))


def py_floordiv(a, b):
    a, b = as_int(a), as_int(b)
    q = a / b  # SMT-LIB div: remainder is non-negative
    r = a - b * q
    return z3.If(z3.And(b < 0, r != 0), q - 1, q)


def py_mod(a, b):
    a, b = as_int(a), as_int(b)
    r = a % b  # SMT-LIB mod: 0 <= r < |b|
    return z3.If(b > 0, r, z3.If(r == 0, r, r + b))


def bitand_const(x, c):
    # x & (2**k - 1) == x mod 2**k (also for negative x: two's complement)
    if c < 0:
        raise Undecided("negative mask")
    k = c.bit_length()
    if c == (1 << k) - 1:
        return py_mod(x, 1 << k)
    if c & (c - 1) == 0:  # single bit 2**j:  ((x >> j) & 1) << j
        j = c.bit_length() - 1
        return py_mod(py_floordiv(x, 1 << j), 2) * (1 << j)
    raise Undecided("non-mask &")


class Path:
    """one symbolic path: condition + obligations to prove on it"""

    def __init__(self, cond):
        self.cond = cond


class Engine:
    def __init__(self, assume_asserts=False):
        self.obligations = []  # (name, formula) to be proved valid
        self.results = []  # (path_condition, return_value)
        self.solver_time = 0.0
        self.assume_asserts = assume_asserts
        self.sources = {}

    # ---------- function handling
    def fn_ast(self, fn):
        src = textwrap.dedent(inspect.getsource(fn))
        self.sources[fn.__qualname__] = src
        tree = ast.parse(src).body[0]
        if isinstance(tree, ast.Assign):  # e.g. lambda assigned
            raise Undecided("assign-def")
        return tree

    def call(self, fn, args, pc):
        """returns list of (pc, value)"""
        # builtin models
        if fn is operator.add:
            return [(pc, as_int(args[0]) + as_int(args[1]))]
        if fn is operator.sub:
            return [(pc, as_int(args[0]) - as_int(args[1]))]
        if fn is operator.mul:
            return [(pc, as_int(args[0]) * as_int(args[1]))]
        if fn is operator.eq:
            return [(pc, as_int(args[0]) == as_int(args[1]))]
        if fn is operator.lt:
            return [(pc, as_int(args[0]) < as_int(args[1]))]
        if fn is operator.gt:
            return [(pc, as_int(args[0]) > as_int(args[1]))]
        if fn is abs:
            x = as_int(args[0])
            return [(pc, z3.If(x >= 0, x, -x))]
        if fn is int:
            return [(pc, as_int(args[0]))]
        if fn is len:
            return [(pc, len(args[0]))]
        if fn is isinstance:
            v, t = args
            if is_sym(v):
                if t is int:
                    return [(pc, True)]
                raise Undecided("isinstance sym")
            return [(pc, isinstance(v, t))]
        if not inspect.isfunction(fn):
            raise Undecided(f"call to {fn!r}")
        tree = self.fn_ast(fn)
        env = {}
        params = [a.arg for a in tree.args.args]
        defaults = tree.args.defaults
        for i, p in enumerate(params):
            if i < len(args):
                env[p] = args[i]
            else:
                d = defaults[i - (len(params) - len(defaults))]
                env[p] = ast.literal_eval(d)
        # closure + globals
        glob = dict(fn.__globals__)
        if fn.__closure__:
            for name, cell in zip(fn.__code__.co_freevars, fn.__closure__):
                glob[name] = cell.cell_contents
        outs = []
        self.exec_block(tree.body, env, glob, pc, outs)
        return outs

    # ---------- statements: returns list of (pc, env) continuing; appends (pc, val) to outs on return
    def exec_block(self, stmts, env, glob, pc, outs):
        states = [(pc, env)]
        for st in stmts:
            nxt = []
            for (p, e) in states:
                nxt.extend(self.exec_stmt(st, e, glob, p, outs))
            states = nxt
            if not states:
                break
        return states

    def feasible(self, pc):
        s = z3.Solver()
        s.set("timeout", 5000)
        s.add(pc)
        t = time.time()
        r = s.check()
        self.solver_time += time.time() - t
        return r != z3.unsat

    def exec_stmt(self, st, env, glob, pc, outs):
        if isinstance(st, ast.Expr) and isinstance(st.value, ast.Constant):
            return [(pc, env)]  # docstring
        if isinstance(st, ast.Return):
            for (p, v) in self.eval(st.value, env, glob, pc):
                outs.append((p, v))
            return []
        if isinstance(st, ast.Assign):
            res = []
            for (p, v) in self.eval(st.value, env, glob, pc):
                e2 = dict(env)
                (tgt,) = st.targets
                if isinstance(tgt, ast.Name):
                    e2[tgt.id] = v
                elif isinstance(tgt, ast.Tuple):
                    for t, x in zip(tgt.elts, v):
                        e2[t.id] = x
                else:
                    raise Undecided("assign target")
                res.append((p, e2))
            return res
        if isinstance(st, ast.AugAssign):
            binop = ast.BinOp(left=ast.Name(id=st.target.id, ctx=ast.Load()), op=st.op, right=st.value)
            res = []
            for (p, v) in self.eval(binop, env, glob, pc):
                e2 = dict(env)
                e2[st.target.id] = v
                res.append((p, e2))
            return res
        if isinstance(st, ast.Assert):
            res = []
            for (p, v) in self.eval(st.test, env, glob, pc):
                c = as_bool(v)
                if self.assume_asserts:
                    res.append((z3.And(p, c), env))
                else:
                    self.obligations.append((f"assert@{st.lineno}", z3.Implies(p, c)))
                    res.append((z3.And(p, c), env))
            return res
        if isinstance(st, ast.If):
            res = []
            for (p, v) in self.eval(st.test, env, glob, pc):
                c = z3.simplify(as_bool(v))
                if z3.is_true(c):
                    res.extend(self.exec_block(st.body, env, glob, p, outs))
                elif z3.is_false(c):
                    res.extend(self.exec_block(st.orelse, env, glob, p, outs))
                else:
                    pt, pf = z3.And(p, c), z3.And(p, z3.Not(c))
                    if self.feasible(pt):
                        res.extend(self.exec_block(st.body, dict(env), glob, pt, outs))
                    if self.feasible(pf):
                        res.extend(self.exec_block(st.orelse, dict(env), glob, pf, outs))
            return res
        if isinstance(st, ast.FunctionDef):
            raise Undecided("nested def in executed body")
        raise Undecided(f"stmt {type(st).__name__}")

    # ---------- expressions: list of (pc, value)
    def eval(self, node, env, glob, pc):
        if isinstance(node, ast.Constant):
            return [(pc, node.value)]
        if isinstance(node, ast.Name):
            if node.id in env:
                return [(pc, env[node.id])]
            if node.id in glob:
                return [(pc, glob[node.id])]
            import builtins

            return [(pc, getattr(builtins, node.id))]
        if isinstance(node, ast.Attribute):
            out = []
            for (p, base) in self.eval(node.value, env, glob, pc):
                if isinstance(base, dict) and "__record__" in base:
                    out.append((p, base[node.attr]))
                else:
                    out.append((p, getattr(base, node.attr)))
            return out
        if isinstance(node, ast.Subscript):
            out = []
            for (p, base) in self.eval(node.value, env, glob, pc):
                for (p2, idx) in self.eval(node.slice, env, glob, p):
                    out.append((p2, base[idx]))
            return out
        if isinstance(node, ast.UnaryOp):
            out = []
            for (p, v) in self.eval(node.operand, env, glob, pc):
                if isinstance(node.op, ast.USub):
                    out.append((p, -v if not is_sym(v) else -as_int(v)))
                elif isinstance(node.op, ast.Not):
                    out.append((p, (not v) if not is_sym(v) else z3.Not(as_bool(v))))
                else:
                    raise Undecided("unary")
            return out
        if isinstance(node, ast.BinOp):
            out = []
            for (p, l) in self.eval(node.left, env, glob, pc):
                for (p2, r) in self.eval(node.right, env, glob, p):
                    out.append((p2, self.binop(node.op, l, r, p2)))
            return out
        if isinstance(node, ast.Compare):
            out = []
            for (p, l) in self.eval(node.left, env, glob, pc):
                cur = [(p, l, True)]
                for op, cmpnode in zip(node.ops, node.comparators):
                    nxt = []
                    for (pp, lv, acc) in cur:
                        for (p3, rv) in self.eval(cmpnode, env, glob, pp):
                            c = self.compare(op, lv, rv)
                            acc2 = c if acc is True else z3.And(as_bool(acc), as_bool(c))
                            nxt.append((p3, rv, acc2))
                    cur = nxt
                out.extend((pp, acc) for (pp, _, acc) in cur)
            return out
        if isinstance(node, ast.BoolOp):
            # no short-circuit side effects in our subset: evaluate all
            vals = [(pc, [])]
            for vnode in node.values:
                nxt = []
                for (p, acc) in vals:
                    for (p2, v) in self.eval(vnode, env, glob, p):
                        nxt.append((p2, acc + [v]))
                vals = nxt
            out = []
            for (p, vs) in vals:
                if all(not is_sym(v) for v in vs):
                    r = all(vs) if isinstance(node.op, ast.And) else any(vs)
                else:
                    bs = [as_bool(v) for v in vs]
                    r = z3.And(*bs) if isinstance(node.op, ast.And) else z3.Or(*bs)
                out.append((p, r))
            return out
        if isinstance(node, ast.IfExp):
            out = []
            for (p, c) in self.eval(node.test, env, glob, pc):
                if not is_sym(c):
                    out.extend(self.eval(node.body if c else node.orelse, env, glob, p))
                    continue
                cb = as_bool(c)
                for (p2, a) in self.eval(node.body, env, glob, p):
                    for (p3, b) in self.eval(node.orelse, env, glob, p2):
                        if z3.is_bool(a) if is_sym(a) else isinstance(a, bool):
                            out.append((p3, z3.If(cb, as_bool(a), as_bool(b))))
                        else:
                            out.append((p3, z3.If(cb, as_int(a), as_int(b))))
            return out
        if isinstance(node, ast.Call):
            out = []
            for (p, fn) in self.eval(node.func, env, glob, pc):
                argsets = [(p, [])]
                for a in node.args:
                    nxt = []
                    for (pp, acc) in argsets:
                        for (p2, v) in self.eval(a, env, glob, pp):
                            nxt.append((p2, acc + [v]))
                    argsets = nxt
                for (pp, args) in argsets:
                    if node.keywords:
                        # only strict=... keyword on utils helpers; pass positionally by name
                        kw = {k.arg: self.eval(k.value, env, glob, pp)[0][1] for k in node.keywords}
                        out.extend(self.call_kw(fn, args, kw, pp))
                    else:
                        out.extend(self.call(fn, args, pp))
            return out
        if isinstance(node, ast.Tuple):
            vals = [(pc, [])]
            for vnode in node.elts:
                nxt = []
                for (p, acc) in vals:
                    for (p2, v) in self.eval(vnode, env, glob, p):
                        nxt.append((p2, acc + [v]))
                vals = nxt
            return [(p, tuple(vs)) for (p, vs) in vals]
        raise Undecided(f"expr {type(node).__name__}")

    def call_kw(self, fn, args, kw, pc):
        tree = self.fn_ast(fn)
        params = [a.arg for a in tree.args.args]
        full = list(args)
        defaults = tree.args.defaults
        for i in range(len(args), len(params)):
            name = params[i]
            if name in kw:
                full.append(kw[name])
            else:
                d = defaults[i - (len(params) - len(defaults))]
                full.append(ast.literal_eval(d))
        return self.call(fn, full, pc)

    def binop(self, op, l, r, pc):
        if not is_sym(l) and not is_sym(r):
            import operator as o

            tbl = {ast.Add: o.add, ast.Sub: o.sub, ast.Mult: o.mul, ast.FloorDiv: o.floordiv, ast.Mod: o.mod,
                   ast.Pow: o.pow, ast.BitAnd: o.and_, ast.BitOr: o.or_, ast.BitXor: o.xor,
                   ast.LShift: o.lshift, ast.RShift: o.rshift}
            return tbl[type(op)](l, r)
        if isinstance(op, ast.Add):
            return as_int(l) + as_int(r)
        if isinstance(op, ast.Sub):
            return as_int(l) - as_int(r)
        if isinstance(op, ast.Mult):
            return as_int(l) * as_int(r)
        if isinstance(op, ast.FloorDiv):
            self.obligations.append(("div-by-zero", z3.Implies(pc, as_int(r) != 0)))
            return py_floordiv(l, r)
        if isinstance(op, ast.Mod):
            self.obligations.append(("mod-by-zero", z3.Implies(pc, as_int(r) != 0)))
            return py_mod(l, r)
        if isinstance(op, ast.BitAnd):
            if not is_sym(r):
                return bitand_const(as_int(l), r)  # holds for negative x too (two's complement)
            if not is_sym(l):
                return bitand_const(as_int(r), l)
            raise Undecided("sym & sym")
        if isinstance(op, ast.BitXor):
            # MAX ^ x  ==  MAX - x  for 0<=x<=MAX, MAX = 2^k-1
            c, x = (l, r) if not is_sym(l) else (r, l)
            if is_sym(c):
                raise Undecided("sym ^ sym")
            k = c.bit_length()
            if c != (1 << k) - 1:
                raise Undecided("xor non-mask")
            self.obligations.append(("^-range", z3.Implies(pc, z3.And(as_int(x) >= 0, as_int(x) <= c))))
            return c - as_int(x)
        raise Undecided(f"binop {type(op).__name__} on symbolic")

    def compare(self, op, l, r):
        if not is_sym(l) and not is_sym(r):
            import operator as o

            tbl = {ast.Eq: o.eq, ast.NotEq: o.ne, ast.Lt: o.lt, ast.LtE: o.le, ast.Gt: o.gt, ast.GtE: o.ge}
            return tbl[type(op)](l, r)
        l, r = as_int(l), as_int(r)
        if isinstance(op, ast.Eq):
            return l == r
        if isinstance(op, ast.NotEq):
            return l != r
        if isinstance(op, ast.Lt):
            return l < r
        if isinstance(op, ast.LtE):
            return l <= r
        if isinstance(op, ast.Gt):
            return l > r
        if isinstance(op, ast.GtE):
            return l >= r
        raise Undecided("cmp")


def prove(f, timeout=30000):
    s = z3.Solver()
    s.set("timeout", timeout)
    s.add(z3.Not(f))
    t = time.time()
    r = s.check()
    return str(r), time.time() - t, (s.model() if r == z3.sat else None)
