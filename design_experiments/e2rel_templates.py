"""Relational template sweep: legacy runtime IR vs post-pass Venom runtime, same source, ALL calldata (C02-style)."""
import sys, time, itertools
import z3
sys.path.insert(0,'/tmp/exp')
import e2template as L
import e2template_venom as V
from vyper.compiler.phases import CompilerData
from vyper.compiler.settings import Settings, OptimizationLevel, anchor_settings
M=2**256; BV=L.BV
EXP=z3.Function("EXP",z3.BitVecSort(256),z3.BitVecSort(256),z3.BitVecSort(256))
def addmod(a,b,n):
    W=257; r=z3.URem(z3.ZeroExt(1,a)+z3.ZeroExt(1,b), z3.ZeroExt(1,n)); return z3.If(n==0,BV(0),z3.Extract(255,0,r))
def mulmod(a,b,n):
    r=z3.URem(z3.ZeroExt(256,a)*z3.ZeroExt(256,b), z3.ZeroExt(256,n)); return z3.If(n==0,BV(0),z3.Extract(255,0,r))
extra={"div":lambda x,y:z3.If(y==0,BV(0),z3.UDiv(x,y)),"sdiv":lambda x,y:z3.If(y==0,BV(0),x/y),
 "mod":lambda x,y:z3.If(y==0,BV(0),z3.URem(x,y)),"smod":lambda x,y:z3.If(y==0,BV(0),z3.SRem(x,y)),
 "exp":lambda x,y:EXP(x,y),"addmod":addmod,"mulmod":mulmod,
 "le":lambda x,y:L.b2v(z3.ULE(x,y)),"ge":lambda x,y:L.b2v(z3.UGE(x,y)),"sle":lambda x,y:L.b2v(x<=y),"sge":lambda x,y:L.b2v(x>=y),"ne":lambda x,y:L.b2v(x!=y)}
V.OPS.update(extra)
# patch legacy interpreter's generic opcode table by wrapping ev
_old_ev=L.Interp.ev
def ev(self,n,pc,mem,env):
    v=n.value
    if v in extra or v=="select":
        states=[(pc,mem,env,[])]
        for x in reversed(n.args):
            nxt=[]
            for (p,m,e,acc) in states:
                for (p2,m2,e2,val) in self.ev(x,p,m,e): nxt.append((p2,m2,e2,[val]+acc))
            states=nxt
        out=[]
        for (p,m,e,vals) in states:
            if v=="select": r=z3.If(vals[0]!=0,vals[1],vals[2])
            else: r=extra[v](*vals)
            out.append((p,m,e,r))
        return out
    return _old_ev(self,n,pc,mem,env)
L.Interp.ev=ev
def outcome_formula(it):
    """returns (returns: Bool, word: BV) as functions of calldata by merging paths"""
    ret=z3.BoolVal(False); word=BV(0); cover=z3.BoolVal(False)
    for (p,status,data) in it.terms:
        cover=z3.Or(cover,p)
        if status=="return":
            ret=z3.Or(ret,p)
            if data: word=z3.If(p,data[0],word)
    return ret,word,cover
def run_pair(src, opt=OptimizationLevel.GAS):
    res=[]
    for venom in (False,True):
        st=Settings(optimize=opt, evm_version="cancun", experimental_codegen=venom, enable_decimals=True)
        cd=CompilerData(src, settings=st)
        if not venom:
            it=L.Interp(cd.ir_runtime); mem0=z3.Array("mem0", z3.BitVecSort(256), z3.BitVecSort(256))
            rest=it.ev(cd.ir_runtime, z3.BoolVal(True), mem0, {}); assert not rest
        else:
            with anchor_settings(cd.settings): ctx=cd.venom_runtime
            fns=list(ctx.get_functions()); assert len(fns)==1, "internal functions not supported"
            it=V.VInterp(fns[0]); it.run()
        res.append(it)
    return res
INTS=["uint8","uint128","uint256","int8","int128","int256"]
T=[]
for t in INTS:
    for op in ("+","-","*","//","%","&","|","^"):
        T.append((f"{t} {op}", f"@external\ndef f(x: {t}, y: {t}) -> {t}:\n    return x {op} y\n"))
    for op in ("<","<=",">",">=","==","!="):
        T.append((f"{t} {op}", f"@external\ndef f(x: {t}, y: {t}) -> bool:\n    return x {op} y\n"))
    for fn in ("min","max","unsafe_add","unsafe_sub","unsafe_mul","unsafe_div"):
        T.append((f"{t} {fn}", f"@external\ndef f(x: {t}, y: {t}) -> {t}:\n    return {fn}(x, y)\n"))
    T.append((f"{t} pow2", f"@external\ndef f(x: {t}) -> {t}:\n    return x ** 2\n"))
    T.append((f"{t} 2pow", f"@external\ndef f(x: {t}) -> {t}:\n    return 2 ** x\n"))
    T.append((f"{t} pow3", f"@external\ndef f(x: {t}) -> {t}:\n    return x ** 3\n"))
    if t.startswith("int"):
        T.append((f"{t} neg", f"@external\ndef f(x: {t}) -> {t}:\n    return -x\n"))
        T.append((f"{t} abs", f"@external\ndef f(x: {t}) -> {t}:\n    return abs(x)\n") if t=="int256" else (f"{t} negpow", f"@external\ndef f(x: {t}) -> {t}:\n    return (-2) ** x\n"))
for sh in ("<<",">>"):
    for t in ("uint256","int256"):
        T.append((f"{t} {sh}", f"@external\ndef f(x: {t}, y: uint256) -> {t}:\n    return x {sh} y\n"))
T.append(("~", "@external\ndef f(x: uint256) -> uint256:\n    return ~x\n"))
T.append(("not", "@external\ndef f(x: bool) -> bool:\n    return not x\n"))
T.append(("addmod", "@external\ndef f(x: uint256, y: uint256, z: uint256) -> uint256:\n    return uint256_addmod(x, y, z)\n"))
T.append(("mulmod", "@external\ndef f(x: uint256, y: uint256, z: uint256) -> uint256:\n    return uint256_mulmod(x, y, z)\n"))
T.append(("pow_mod256", "@external\ndef f(x: uint256, y: uint256) -> uint256:\n    return pow_mod256(x, y)\n"))
T.append(("ifexp", "@external\ndef f(c: bool, x: uint256, y: uint256) -> uint256:\n    return x if c else y\n"))
T.append(("and-or", "@external\ndef f(a: bool, b: bool, c: bool) -> bool:\n    return (a and b) or c\n"))
for op in ("+","-","*","/","%"):
    T.append((f"decimal {op}", f"@external\ndef f(x: decimal, y: decimal) -> decimal:\n    return x {op} y\n"))
for fn in ("floor","ceil"):
    T.append((f"decimal {fn}", f"@external\ndef f(x: decimal) -> int256:\n    return {fn}(x)\n"))
T.append(("flag in", "flag F:\n    A\n    B\n    C\n\n@external\ndef f(x: F, y: F) -> bool:\n    return x in y\n"))
T.append(("flag ~", "flag F:\n    A\n    B\n    C\n\n@external\ndef f(x: F) -> F:\n    return ~x\n"))
T.append(("in list", "@external\ndef f(x: uint256) -> bool:\n    return x in [1, 5, 7]\n"))
T.append(("as_wei", "@external\ndef f(x: uint256) -> uint256:\n    return as_wei_value(x, 'gwei')\n"))
T.append(("bytes4 conv", "@external\ndef f(x: bytes32) -> bytes4:\n    return convert(x, bytes4)\n"))
T.append(("addr conv", "@external\ndef f(x: uint256) -> address:\n    return convert(x, address)\n"))
only=sys.argv[1:]
tot=0; sat=0; unk=0; fail=0; t0=time.time()
for name,src in T:
    if only and not any(o in name for o in only): continue
    try:
        lit,vit=run_pair(src)
    except Exception as e:
        fail+=1; print("SKIP",name,type(e).__name__,str(e)[:100]); continue
    lr,lw,lc=outcome_formula(lit); vr,vw,vc=outcome_formula(vit)
    for oname,f_ in (("both-cover",z3.And(lc,vc)),("same-status",lr==vr),("same-word",z3.Implies(z3.And(lr,vr),lw==vw))):
        s=z3.Solver(); s.set("timeout",30000); s.add(z3.Not(f_)); r=s.check(); tot+=1
        if r==z3.sat:
            sat+=1; m=s.model()
            cd=lambda k: hex(m.eval(z3.Select(lit.cd,BV(k)),model_completion=True).as_long())
            print("DIFF",name,oname,"cds=",m.eval(lit.cds,model_completion=True),"x=",cd(4),"y=",cd(36),"z=",cd(68),"legacy_returns",m.eval(lr,model_completion=True),"venom_returns",m.eval(vr,model_completion=True),flush=True)
        elif r!=z3.unsat: unk+=1; print("UNKNOWN",name,oname,flush=True)
print("templates",len(T),"obligations",tot,"sat",sat,"unknown",unk,"skipped",fail,"wall",round(time.time()-t0,1))
