import sys, time, itertools
import z3
from vyper.codegen.ir_node import IRnode
from vyper.codegen import core
from vyper.semantics.types import IntegerT, DArrayT, SArrayT, BytesM_T, AddressT, BoolT
from vyper.semantics.types.shortcuts import UINT256_T
from vyper.semantics.data_locations import DataLocation
from vyper.evm.address_space import MEMORY, STORAGE, TRANSIENT, CALLDATA
from vyper.compiler.settings import Settings, anchor_settings, OptimizationLevel
from vyper.codegen.function_definitions.common import get_nonreentrant_lock
from vyper.semantics.types.function import StateMutability
from vyper.semantics.analysis.base import VarOffset
import types as pytypes
M = 2**256
BV = lambda v: z3.BitVecVal(v % M, 256)
b2v = lambda b: z3.If(b, BV(1), BV(0))
class St:
    def __init__(self):
        self.arr = {k: z3.Array(k, z3.BitVecSort(256), z3.BitVecSort(256)) for k in ("mload","sload","tload","calldataload")}
def denote(node, env, st):
    v = node.value; a = node.args
    T = z3.BoolVal(True)
    if isinstance(v, int): return BV(v), T
    if v in env and not a: return env[v], T
    if v == "seq":
        ok=T; val=None
        for x in a:
            val,o = denote(x, env, st); ok = z3.And(ok,o)
        return val, ok
    if v == "with":
        val,o1 = denote(a[1], env, st); e2=dict(env); e2[a[0].value]=val
        r,o2 = denote(a[2], e2, st); return r, z3.And(o1,o2)
    if v == "assert":
        c,o = denote(a[0], env, st); return None, z3.And(o, c!=0)
    if v == "pass": return None, T
    if v == "unique_symbol": return None, T
    vals=[]; ok=T
    for x in a:
        xv,o = denote(x, env, st); vals.append(xv); ok=z3.And(ok,o)
    if v in ("mload","sload","tload","calldataload"):
        return z3.Select(st.arr[v], vals[0]), ok
    if v in ("sstore","tstore","mstore"):
        k = {"sstore":"sload","tstore":"tload","mstore":"mload"}[v]
        st.arr[k] = z3.Store(st.arr[k], vals[0], vals[1]); return None, ok
    def signext(b,x):
        bb = z3.simplify(b).as_long()
        if bb>=31: return x
        k=8*(bb+1); return z3.SignExt(256-k, z3.Extract(k-1,0,x))
    ops = {"add": lambda x,y:x+y, "sub": lambda x,y:x-y, "mul": lambda x,y:x*y,
      "lt": lambda x,y:b2v(z3.ULT(x,y)), "gt": lambda x,y:b2v(z3.UGT(x,y)), "le": lambda x,y:b2v(z3.ULE(x,y)), "ge": lambda x,y:b2v(z3.UGE(x,y)),
      "slt": lambda x,y:b2v(x<y), "sgt": lambda x,y:b2v(x>y), "sle": lambda x,y:b2v(x<=y), "sge": lambda x,y:b2v(x>=y),
      "eq": lambda x,y:b2v(x==y), "ne": lambda x,y:b2v(x!=y), "iszero": lambda x:b2v(x==0),
      "shr": lambda s,x:z3.LShR(x,s), "shl": lambda s,x:x<<s, "sar": lambda s,x:x>>s,
      "and": lambda x,y:x&y, "or": lambda x,y:x|y, "xor": lambda x,y:x^y, "not": lambda x:~x, "signextend": signext}
    return ops[v](*vals), ok
def prove(f, timeout=20000):
    s=z3.Solver(); s.set("timeout",timeout); s.add(z3.Not(f)); t=time.time(); r=s.check()
    return str(r), time.time()-t, (s.model() if r==z3.sat else None)

n=0; bad=0; t0=time.time()
W=300
with anchor_settings(Settings(optimize=OptimizationLevel.GAS, evm_version="cancun")):
    # ---- C04/C10: array element pointers
    elem_types = [UINT256_T, SArrayT(UINT256_T, 2), SArrayT(UINT256_T, 7)]
    idx_types = [UINT256_T, IntegerT(True,128), IntegerT(True,256), IntegerT(False,8)]
    for loc, dloc in ((MEMORY, DataLocation.MEMORY),(STORAGE, DataLocation.STORAGE),(TRANSIENT, DataLocation.TRANSIENT),(CALLDATA, DataLocation.CALLDATA)):
        for et in elem_types:
            for count in (1, 5, 1000):
                for dyn in (False, True):
                    if dyn and loc is CALLDATA: continue
                    at = DArrayT(et, count) if dyn else SArrayT(et, count)
                    for it in idx_types:
                        arr = IRnode("arr", typ=at, location=loc); ix = IRnode("ix", typ=it)
                        ptr_ir = core.get_element_ptr(arr, ix)
                        A, I = z3.BitVecs("arr ix", 256)
                        st = St()
                        ptr, ok = denote(ptr_ir, {"arr":A, "ix":I}, st)
                        esz = et.get_size_in(dloc); tsz = at.get_size_in(dloc); ovh = loc.word_scale if dyn else 0
                        ld = {MEMORY:"mload",STORAGE:"sload",TRANSIENT:"tload"}.get(loc)
                        ln = z3.Select(St().arr[ld], A) if dyn else BV(count)
                        lo_, hi_ = it.int_bounds
                        ixi = z3.SignExt(W-256, I) if it.is_signed else z3.ZeroExt(W-256, I)
                        pre = z3.And(ixi >= lo_, ixi <= hi_, z3.ULT(A, 2**64), z3.ULE(ln, count))
                        lni = z3.ZeroExt(W-256, ln); Ai = z3.ZeroExt(W-256, A); pi = z3.ZeroExt(W-256, ptr)
                        inb = z3.And(ixi >= 0, ixi < lni)
                        post = z3.And(ok == inb, z3.Implies(ok, z3.And(pi == Ai + ovh + ixi*esz, pi + esz <= Ai + tsz)))
                        r,dt,m = prove(z3.Implies(pre, post)); n+=1
                        if r!="unsat": bad+=1; print("FAIL ptr", loc.name, at, it, r, m)
    print("ptr obligations", n, "bad", bad, round(time.time()-t0,1)); t1=time.time(); n1=n
    # ---- C09: lock generator, both storage kinds
    for evm in ("cancun","shanghai","paris"):
      with anchor_settings(Settings(optimize=OptimizationLevel.GAS, evm_version=evm)):
        for mut in (StateMutability.VIEW, StateMutability.NONPAYABLE, StateMutability.PAYABLE):
            f = pytypes.SimpleNamespace(nonreentrant=True, mutability=mut, reentrancy_key_position=VarOffset(0))
            pre_l, post_l = get_nonreentrant_lock(f)
            pre_ir = IRnode.from_list(["seq"]+pre_l); post_ir = IRnode.from_list(["seq"]+post_l)
            key = "tload" if evm=="cancun" else "sload"
            LOCKED, UNLOCKED = (1,0) if evm=="cancun" else (2,3)
            st = St(); init = dict(st.arr)
            _, ok1 = denote(pre_ir, {}, st); mid = dict(st.arr)
            s0 = z3.Select(init[key], BV(0))
            obs = [("acquire-reverts-iff-locked", ok1 == (s0 != LOCKED))]
            j = z3.BitVec("j",256)
            if mut == StateMutability.VIEW:
                obs.append(("view-no-write", z3.And(*[z3.Select(mid[k],j)==z3.Select(init[k],j) for k in init])))
            else:
                obs.append(("acquire-sets-locked", z3.Implies(ok1, z3.Select(mid[key],BV(0))==LOCKED)))
                obs.append(("acquire-frame", z3.And(*[z3.Implies(z3.Or(k!=key, j!=0), z3.Select(mid[k],j)==z3.Select(init[k],j)) for k in init])))
                _, ok2 = denote(post_ir, {}, st); fin = dict(st.arr)
                obs.append(("release-unlocks", z3.And(ok2, z3.Select(fin[key],BV(0))==UNLOCKED, UNLOCKED!=LOCKED)))
                obs.append(("release-frame", z3.And(*[z3.Implies(z3.Or(k!=key, j!=0), z3.Select(fin[k],j)==z3.Select(init[k],j)) for k in init])))
                st2 = St(); st2.arr = dict(fin); _, ok3 = denote(pre_ir, {}, st2)
                obs.append(("reacquire-after-release", z3.Implies(ok1, ok3)))
            for name,fm in obs:
                r,dt,m = prove(fm); n+=1
                if r!="unsat": bad+=1; print("FAIL lock", evm, mut, name, r, m)
    print("lock obligations", n-n1, "bad", bad, round(time.time()-t1,1))
    # ---- C05: clamp_basetype canonical-iff for all prim word types
    t2=time.time(); n2=n
    prim = [IntegerT(s,b) for s in (False,True) for b in range(8,257,8)] + [BytesM_T(m) for m in range(1,33)] + [AddressT(), BoolT()]
    for t in prim:
        x = IRnode("x", typ=t)
        ir = core.clamp_basetype(x)
        X = z3.BitVec("x",256)
        val, ok = denote(ir, {"x":X}, St())
        if isinstance(t, IntegerT):
            lo_,hi_ = t.int_bounds
            xi = z3.SignExt(W-256,X) if t.is_signed else z3.ZeroExt(W-256,X)
            canon = z3.And(xi>=lo_, xi<=hi_)
        elif isinstance(t, BytesM_T):
            canon = (z3.Extract(255-8*t.m, 0, X) == 0) if t.m<32 else z3.BoolVal(True)
        elif isinstance(t, AddressT): canon = z3.ULT(X, 2**160)
        else: canon = z3.ULE(X, 1)
        r,dt,m = prove(z3.And(ok==canon, val==X)); n+=1
        if r!="unsat": bad+=1; print("FAIL clamp", t, r, m)
    print("clamp obligations", n-n2, "bad", bad, round(time.time()-t2,1))
print("TOTAL", n, "bad", bad, "wall", round(time.time()-t0,1))
