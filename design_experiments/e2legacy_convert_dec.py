import sys, time, types as pytypes
import z3
sys.setrecursionlimit(10000)
src = open('/tmp/exp/e2mul.py').read().split("def check(")[0]
exec(src)
from vyper.builtins import _convert
from vyper.exceptions import VyperException
D=DecimalT(); DIV=D.divisor
ints=[IntegerT(s,b) for s in (False,True) for b in (8,64,128,168,176,248,256)]
cases=[("to_decimal",t,D) for t in ints]+[("to_int",D,t) for t in ints]
tot=0; bad=0; unk=0; t0=time.time()
with anchor_settings(Settings(optimize=OptimizationLevel.GAS, evm_version="cancun")):
  for kind,tin,tout in cases:
    arg=IRnode("x", typ=tin); expr=pytypes.SimpleNamespace()
    try: ir = _convert.to_decimal(expr,arg,tout) if kind=="to_decimal" else _convert.to_int(expr,arg,tout)
    except VyperException as e: print("skip",kind,tin,tout,type(e).__name__); continue
    X=z3.Int("x"); val,ok=denote(ir,{"x":X})
    lo,hi=tin.int_bounds; lo2,hi2=tout.int_bounds
    ti=tos if tin.is_signed else (lambda v:v); to=tos if tout.is_signed else (lambda v:v)
    xi=ti(X); pre=z3.And(X>=0,X<M,xi>=lo,xi<=hi)
    if kind=="to_decimal": exact=xi*DIV; fits=z3.And(exact>=lo2,exact<=hi2)
    else: exact=tdiv(xi,I(DIV)); fits=z3.And(xi>=lo2*DIV, xi<=hi2*DIV)
    for name,f_ in (("ok<=>fits", ok==fits), ("value", z3.Implies(ok, to(val)==exact))):
        s=z3.Solver(); s.set("timeout",20000); s.add(pre, z3.Not(f_)); r=s.check(); tot+=1
        if r==z3.sat: bad+=1; print("SAT",kind,tin,"->",tout,name,s.model().eval(xi))
        elif r!=z3.unsat: unk+=1; print("UNKNOWN",kind,tin,tout,name)
print("obligations",tot,"sat",bad,"unknown",unk,"wall",round(time.time()-t0,1))
