"""Throw-away PyVC prototype, step 3: closures defined inside the function under contract,
list literals / subscripts / starred, generator expressions over concrete iterables, native calls on
all-concrete arguments, uninterpreted bit operations, special contracts for is_power_of_two/int_log2.
Target: vyper.ir.optimizer._optimize_binop / _comparison_helper."""
import ast, inspect, operator, sys
import z3
from mini import Undecided, is_sym, as_bool, as_int, py_floordiv, py_mod, prove
from mini2 import Engine2, SymObj, BoundMethod

M = 2**256
BITAND = z3.Function("BITAND", z3.IntSort(), z3.IntSort(), z3.IntSort())
BITOR = z3.Function("BITOR", z3.IntSort(), z3.IntSort(), z3.IntSort())
BITXOR = z3.Function("BITXOR", z3.IntSort(), z3.IntSort(), z3.IntSort())
POWMOD = z3.Function("POWMOD", z3.IntSort(), z3.IntSort(), z3.IntSort())


class Closure:
    def __init__(self, tree, glob):
        self.tree = tree
        self.glob = glob


def has_sym(v):
    if is_sym(v) or isinstance(v, (SymObj, Closure, BoundMethod)):
        return True
    if isinstance(v, (list, tuple)):
        return any(has_sym(x) for x in v)
    if isinstance(v, dict):
        return any(has_sym(x) for x in v.values())
    return False


class Engine3(Engine2):
    def __init__(self):
        super().__init__()
        self.pow2 = []  # (z3 int expr, k) facts on current path are carried in pc; here: helper list

    # --- calls
    def call(self, fn, args, kw, pc, caller_env=None):
        import vyper.utils as vu

        if isinstance(fn, Closure):
            tree = fn.tree
            params = [a.arg for a in tree.args.args]
            defaults = tree.args.defaults
            env = dict(caller_env or {})  # enclosing scope = defining frame at call time
            for i, p in enumerate(params):
                if i < len(args):
                    env[p] = args[i]
                elif p in kw:
                    env[p] = kw[p]
                else:
                    dnode = defaults[i - (len(params) - len(defaults))]
                    env[p] = self.eval(dnode, caller_env or {}, fn.glob, pc)[0][1]
            outs = []
            rest = self.exec_block(tree.body, env, fn.glob, pc, outs)
            for (p, _e) in rest:
                outs.append((p, None))
            return outs
        if fn is vu.is_power_of_two:
            (n,) = args
            if not is_sym(n):
                return [(pc, vu.is_power_of_two(n))]
            outs = []
            n = as_int(n)
            for k in range(256):
                p = z3.And(pc, n == 2**k)
                if self.feasible(p):
                    outs.append((p, True))
            pn = z3.And(pc, *[n != 2**k for k in range(256)])
            if self.feasible(pn):
                outs.append((pn, False))
            return outs
        if fn is vu.int_log2:
            (n,) = args
            if not is_sym(n):
                return [(pc, vu.int_log2(n))]
            outs = []
            for k in range(256):
                p = z3.And(pc, as_int(n) == 2**k)
                if self.feasible(p):
                    outs.append((p, k))
            if not outs:
                raise Undecided("int_log2 of non power of two")
            return outs
        if fn is operator.ne:
            return [(pc, as_int(args[0]) != as_int(args[1]))]
        if fn is operator.le:
            return [(pc, as_int(args[0]) <= as_int(args[1]))]
        if fn is operator.ge:
            return [(pc, as_int(args[0]) >= as_int(args[1]))]
        if fn is operator.lt:
            return [(pc, as_int(args[0]) < as_int(args[1]))]
        if fn is operator.gt:
            return [(pc, as_int(args[0]) > as_int(args[1]))]
        if fn is operator.eq:
            return [(pc, as_int(args[0]) == as_int(args[1]))]
        if fn is operator.add:
            return [(pc, as_int(args[0]) + as_int(args[1]))]
        if fn is operator.sub:
            return [(pc, as_int(args[0]) - as_int(args[1]))]
        if fn is operator.mul:
            return [(pc, as_int(args[0]) * as_int(args[1]))]
        if fn is operator.and_:
            return [(pc, BITAND(as_int(args[0]), as_int(args[1])))]
        if fn is operator.or_:
            return [(pc, BITOR(as_int(args[0]), as_int(args[1])))]
        if fn is operator.xor:
            return [(pc, BITXOR(as_int(args[0]), as_int(args[1])))]
        if fn is pow and len(args) == 3 and args[2] == 2**256:
            return [(pc, POWMOD(as_int(args[0]), as_int(args[1])))]
        if fn is any or fn is all:
            (xs,) = args
            if all(not is_sym(x) for x in xs):
                return [(pc, fn(xs))]
            bs = [as_bool(x) for x in xs]
            return [(pc, z3.Or(*bs) if fn is any else z3.And(*bs))]
        if fn is str:
            return [(pc, "<str>")]
        # native call when nothing symbolic is involved
        if not has_sym(args) and not has_sym(kw) and not isinstance(fn, (Closure, BoundMethod)):
            if callable(fn) and not inspect.isclass(fn):
                return [(pc, fn(*args, **kw))]
        return super().call(fn, args, kw, pc)

    # --- statements
    def exec_stmt(self, st, env, glob, pc, outs):
        if isinstance(st, ast.FunctionDef):
            e2 = dict(env)
            e2[st.name] = Closure(st, glob)
            return [(pc, e2)]
        if isinstance(st, ast.AugAssign):
            binop = ast.BinOp(left=ast.Name(id=st.target.id, ctx=ast.Load()), op=st.op, right=st.value)
            res = []
            for (p, v) in self.eval(binop, env, glob, pc):
                e2 = dict(env)
                e2[st.target.id] = v
                res.append((p, e2))
            return res
        return super().exec_stmt(st, env, glob, pc, outs)

    # --- expressions
    def eval(self, node, env, glob, pc):
        if isinstance(node, ast.List):
            vals = [(pc, [])]
            for el in node.elts:
                nxt = []
                for (p, acc) in vals:
                    if isinstance(el, ast.Starred):
                        for (p2, v) in self.eval(el.value, env, glob, p):
                            nxt.append((p2, acc + list(v)))
                    else:
                        for (p2, v) in self.eval(el, env, glob, p):
                            nxt.append((p2, acc + [v]))
                vals = nxt
            return vals
        if isinstance(node, ast.Subscript):
            out = []
            for (p, base) in self.eval(node.value, env, glob, pc):
                for (p2, idx) in self.eval(node.slice, env, glob, p):
                    out.append((p2, base[idx]))
            return out
        if isinstance(node, ast.GeneratorExp) or isinstance(node, ast.ListComp):
            (gen,) = node.generators
            assert not gen.ifs
            out = []
            for (p, it) in self.eval(gen.iter, env, glob, pc):
                vals = [(p, [])]
                for item in list(it):
                    nxt = []
                    for (pp, acc) in vals:
                        e2 = dict(env)
                        e2[gen.target.id] = item
                        for (p3, v) in self.eval(node.elt, e2, glob, pp):
                            nxt.append((p3, acc + [v]))
                    vals = nxt
                out.extend(vals)
            return out
        if isinstance(node, ast.Call):
            # need caller env for closures
            out = []
            for (p, fn) in self.eval(node.func, env, glob, pc):
                argsets = [(p, [])]
                for a in node.args:
                    nxt = []
                    for (pp, acc) in argsets:
                        for (p2, v) in self.eval(a, env, glob, pp):
                            nxt.append((p2, acc + [v]))
                    argsets = nxt
                for (pp, args) in argsets:
                    kwsets = [(pp, {})]
                    for k in node.keywords:
                        nxt = []
                        for (p3, acc) in kwsets:
                            for (p4, v) in self.eval(k.value, env, glob, p3):
                                d = dict(acc)
                                d[k.arg] = v
                                nxt.append((p4, d))
                        kwsets = nxt
                    for (p5, kw) in kwsets:
                        if isinstance(fn, Closure):
                            out.extend(self.call(fn, args, kw, p5, caller_env=env))
                        else:
                            out.extend(self.call(fn, args, kw, p5))
            return out
        if isinstance(node, ast.JoinedStr):
            return [(pc, "<fstring>")]
        return super().eval(node, env, glob, pc)

    def getattr(self, base, name, pc):
        if isinstance(base, str) or isinstance(base, (list, tuple, set, dict, int)):
            return [(pc, getattr(base, name))]
        return super().getattr(base, name, pc)

    def compare(self, op, l, r):
        # str vs symbolic int never equal
        if isinstance(op, (ast.Eq, ast.NotEq)):
            if (isinstance(l, str) and is_sym(r)) or (isinstance(r, str) and is_sym(l)):
                return isinstance(op, ast.NotEq)
            if (isinstance(l, (list, tuple, str)) or isinstance(r, (list, tuple, str))) and not is_sym(l) and not is_sym(r):
                return (l == r) if isinstance(op, ast.Eq) else (l != r)
        if isinstance(op, (ast.In, ast.NotIn)) and is_sym(l):
            # symbolic int in a concrete collection of ints
            if all(isinstance(x, int) for x in r):
                c = z3.Or(*[as_int(l) == x for x in r]) if len(r) else z3.BoolVal(False)
                return c if isinstance(op, ast.In) else z3.Not(c)
        return super().compare(op, l, r)
