"""Prototype: template-driven GenVC on the post-pass Venom runtime function (acyclic CFG), all calldata."""
import sys, time
import z3
from vyper.compiler.phases import CompilerData
from vyper.compiler.settings import Settings, OptimizationLevel, anchor_settings
from vyper.venom.basicblock import IRLiteral, IRVariable, IRLabel
from vyper.utils import method_id_int
from vyper.semantics.types import IntegerT
M=2**256
BV=lambda v: z3.BitVecVal(v % M, 256)
b2v=lambda b: z3.If(b, BV(1), BV(0))
def signext(b,x):
    bb=z3.simplify(b).as_long()
    if bb>=31: return x
    k=8*(bb+1); return z3.SignExt(256-k,z3.Extract(k-1,0,x))
OPS={"add":lambda x,y:x+y,"sub":lambda x,y:x-y,"mul":lambda x,y:x*y,
  "lt":lambda x,y:b2v(z3.ULT(x,y)),"gt":lambda x,y:b2v(z3.UGT(x,y)),
  "slt":lambda x,y:b2v(x<y),"sgt":lambda x,y:b2v(x>y),
  "eq":lambda x,y:b2v(x==y),"iszero":lambda x:b2v(x==0),
  "shr":lambda s,x:z3.LShR(x,s),"shl":lambda s,x:x<<s,"sar":lambda s,x:x>>s,
  "and":lambda x,y:x&y,"or":lambda x,y:x|y,"xor":lambda x,y:x^y,"not":lambda x:~x,"signextend":signext}
class VInterp:
    def __init__(self, fn):
        self.fn=fn; self.terms=[]
        self.cd=z3.Array("calldata", z3.BitVecSort(256), z3.BitVecSort(256))
        self.cds=z3.BitVec("calldatasize",256); self.cv=z3.BitVec("callvalue",256)
    def feasible(self,pc):
        s=z3.Solver(); s.set("timeout",5000); s.add(pc); return s.check()!=z3.unsat
    def run(self):
        mem=z3.Array("mem0", z3.BitVecSort(256), z3.BitVecSort(256))
        self.block(self.fn.entry, None, z3.BoolVal(True), mem, {}, 0)
    def val(self,o,env):
        if isinstance(o,IRLiteral): return BV(o.value)
        return env[o.name]
    def block(self, bb, pred, pc, mem, env, depth):
        assert depth<64, "loop?"
        env=dict(env)
        for inst in bb.instructions:
            opc=inst.opcode
            if opc=="phi":
                for lab,var in inst.phi_operands:
                    if lab.value==pred.label.value: env[inst.output.name]=env[var.name]
                continue
            a=[self.val(o,env) if not isinstance(o,IRLabel) else o for o in reversed(inst.operands)]
            if opc=="assign": env[inst.output.name]=a[0]
            elif opc=="calldatasize": env[inst.output.name]=self.cds
            elif opc=="callvalue": env[inst.output.name]=self.cv
            elif opc=="calldataload": env[inst.output.name]=z3.Select(self.cd,a[0])
            elif opc=="mload": env[inst.output.name]=z3.Select(mem,a[0])
            elif opc=="mstore": mem=z3.Store(mem,a[0],a[1])
            elif opc=="assert":
                pf=z3.And(pc,a[0]==0)
                if self.feasible(pf): self.terms.append((pf,"revert",[]))
                pc=z3.And(pc,a[0]!=0)
                if not self.feasible(pc): return
            elif opc=="jnz":
                c,t,f=inst.operands  # stored as [cond, true_label, false_label]
                c=self.val(c,env)
                pt=z3.And(pc,c!=0); pf=z3.And(pc,c==0)
                if self.feasible(pt): self.block(self.fn.get_basic_block(t.value),bb,pt,mem,env,depth+1)
                if self.feasible(pf): self.block(self.fn.get_basic_block(f.value),bb,pf,mem,env,depth+1)
                return
            elif opc=="jmp":
                self.block(self.fn.get_basic_block(a[0].value),bb,pc,mem,env,depth+1); return
            elif opc=="return":
                ofs,ln=a; ln=z3.simplify(ln).as_long(); ofs=z3.simplify(ofs)
                self.terms.append((pc,"return",[z3.Select(mem,ofs+32*i) for i in range(ln//32)])); return
            elif opc=="revert": self.terms.append((pc,"revert",[])); return
            elif opc=="stop": self.terms.append((pc,"stop",[])); return
            elif opc in OPS: env[inst.output.name]=OPS[opc](*a)
            else: raise Exception("unsupported venom op "+opc)
        raise Exception("fell off block")

if __name__=="__main__":
    t0=time.time(); nob=0; bad=0; W=300
    levels=[OptimizationLevel.NONE, OptimizationLevel.GAS, OptimizationLevel.CODESIZE, OptimizationLevel.O3]
    for signed,bits in ((True,128),(False,8),(True,8),(False,256),(True,256),(False,136),(True,248)):
        T=("int" if signed else "uint")+str(bits)
        for opname,sym,pyop in (("add","+",lambda a,b:a+b),("sub","-",lambda a,b:a-b)):
            src=f"@external\ndef f(x: {T}, y: {T}) -> {T}:\n    return x {sym} y\n"
            for opt in levels:
                st=Settings(experimental_codegen=True, optimize=opt, evm_version="cancun")
                cd=CompilerData(src, settings=st)
                with anchor_settings(cd.settings):
                    ctx=cd.venom_runtime
                fns=list(ctx.get_functions()); assert len(fns)==1
                it=VInterp(fns[0]); it.run()
                mid=method_id_int(f"f({T},{T})")
                sel=z3.LShR(z3.Select(it.cd,BV(0)),224)
                X=z3.Select(it.cd,BV(4)); Y=z3.Select(it.cd,BV(36))
                lo,hi=IntegerT(signed,bits).int_bounds
                ext=(lambda v:z3.SignExt(W-256,v)) if signed else (lambda v:z3.ZeroExt(W-256,v))
                inr=lambda v:z3.And(v>=lo,v<=hi)
                canon=lambda w: inr(ext(w))
                exact=pyop(ext(X),ext(Y))
                should_return=z3.And(z3.UGE(it.cds,68), sel==mid, it.cv==0, canon(X), canon(Y), inr(exact))
                obs=[("exhaustive", z3.Or(*[p for p,_,_ in it.terms]))]
                for (p,status,data) in it.terms:
                    if status=="return": obs.append(("return-path", z3.Implies(p, z3.And(should_return, ext(data[0])==exact, len(data)==1))))
                    else: obs.append((status+"-path", z3.Implies(p, z3.Not(should_return))))
                for name,f_ in obs:
                    s=z3.Solver(); s.set("timeout",20000); s.add(z3.Not(f_)); r=s.check(); nob+=1
                    if r!=z3.unsat: bad+=1; print("FAIL",T,opname,opt,name,r, s.model() if r==z3.sat else "")
        print(T,"done", len(it.terms),"paths", round(time.time()-t0,1), flush=True)
    print("obligations",nob,"bad",bad,"wall",round(time.time()-t0,1))
