import z3, time, sys
def run(name, f, timeout=120000, tactic=None):
    s = z3.Solver() if tactic is None else z3.Then(*tactic).solver()
    s.set("timeout", timeout)
    s.add(z3.Not(f))
    t=time.time(); r=s.check(); print(name, r, round(time.time()-t,2)); sys.stdout.flush()
    if r==z3.sat: print(s.model())
M=2**256
x,y = z3.Ints('x y')
pre = z3.And(0<=x, x<M, 0<y, y<M)
p = (x*y) % M
run("umul_int", z3.Implies(pre, ((p / y) == x) == (x*y < M)))
# BV version
a,b = z3.BitVecs('a b',256)
full = z3.ZeroExt(256,a)*z3.ZeroExt(256,b)
ovf = z3.Extract(511,256,full)!=0
ok = z3.Or(z3.UDiv(a*b,b)==a, b==0)
run("umul_bv", ok == z3.Not(ovf))
