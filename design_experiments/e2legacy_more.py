import sys, time, types as pytypes
import z3
from concurrent.futures import ProcessPoolExecutor
sys.setrecursionlimit(10000)
src = open('/tmp/exp/e2mul.py').read().split("def check(")[0]
exec(src)
from vyper.builtins import _convert
from vyper.semantics.types import BytesM_T, AddressT, BoolT
from vyper.exceptions import VyperException

def job(args):
    kind = args[0]
    with anchor_settings(Settings(optimize=OptimizationLevel.GAS, evm_version="cancun")):
        if kind == "arith":
            _, which, signed, bits, isdec, timeout = args
            typ = DecimalT() if isdec else IntegerT(signed, bits)
            x = IRnode("x", typ=typ); y = IRnode("y", typ=typ)
            try: ir = getattr(arithmetic, which)(x, y)
            except Exception as e: return (which, str(typ), "SKIP "+type(e).__name__)
            X, Y = z3.Ints("x y")
            val, ok = denote(ir, {"x": X, "y": Y})
            lo, hi = typ.int_bounds
            toint = tos if typ.is_signed else (lambda v: v)
            xi, yi = toint(X), toint(Y)
            inr = lambda v: z3.And(v >= lo, v <= hi)
            pre = z3.And(X>=0, X<M, Y>=0, Y<M, inr(xi), inr(yi))
            if which == "safe_div":
                exact = tdiv(xi*typ.divisor, yi) if isdec else tdiv(xi, yi); defined = yi != 0
            else:
                exact = tmod(xi, yi); defined = yi != 0
            obs = [("ok<=>inrange", ok == z3.And(defined, inr(exact))), ("value", z3.Implies(ok, toint(val) == exact))]
            tag = (which, str(typ))
        else:
            _, (s1,b1), (s2,b2), timeout = args
            tin, tout = IntegerT(s1,b1), IntegerT(s2,b2)
            if tin == tout: return ("conv", f"{tin}->{tout}", "SKIP same")
            arg = IRnode("x", typ=tin)
            expr = pytypes.SimpleNamespace()
            try: ir = _convert.to_int(expr, arg, tout)
            except VyperException as e: return ("conv", f"{tin}->{tout}", "SKIP "+type(e).__name__)
            X = z3.Int("x")
            val, ok = denote(ir, {"x": X})
            lo, hi = tin.int_bounds; lo2, hi2 = tout.int_bounds
            ti = tos if tin.is_signed else (lambda v: v)
            to = tos if tout.is_signed else (lambda v: v)
            xi = ti(X)
            pre = z3.And(X>=0, X<M, xi>=lo, xi<=hi)
            obs = [("ok<=>fits", ok == z3.And(xi>=lo2, xi<=hi2)), ("value", z3.Implies(ok, to(val) == xi))]
            tag = ("conv", f"{tin}->{tout}")
        out = []
        for name, f_ in obs:
            s = z3.Solver(); s.set("timeout", timeout); s.add(pre, z3.Not(f_))
            t=time.time(); r = s.check()
            out.append((name, str(r), round(time.time()-t,2), str(s.model()) if r==z3.sat else ""))
    return tag + (out,)

if __name__ == "__main__":
    jobs = []
    widths = (8, 64, 128, 136, 248, 256)
    for which in ("safe_div", "safe_mod"):
        for s in (False, True):
            for b in widths: jobs.append(("arith", which, s, b, False, 20000))
        jobs.append(("arith", which, True, 168, True, 20000))
    ts = [(s,b) for s in (False,True) for b in (8, 16, 128, 136, 248, 256)]
    for a in ts:
        for b in ts: jobs.append(("conv", a, b, 20000))
    cnt = {"unsat":0,"sat":0,"unknown":0,"skip":0}
    t0=time.time()
    with ProcessPoolExecutor(14) as ex:
        for r in ex.map(job, jobs):
            if isinstance(r[2], str): cnt["skip"]+=1; 
            else:
                for (n,res,dt,m) in r[2]:
                    cnt[res]+=1
                    if res != "unsat": print(r[0], r[1], n, res, dt, m[:300])
    print(cnt, "wall", round(time.time()-t0,1))
