"""Prototype: template-driven GenVC on the *whole* legacy runtime IR of a one-function contract.
Path-enumerating symbolic interpreter over IRnode; BV words; word memory; symbolic calldata."""
import sys, time
import z3
from vyper.compiler.phases import CompilerData
from vyper.compiler.settings import Settings, OptimizationLevel
from vyper.utils import method_id_int
M=2**256
BV=lambda v: z3.BitVecVal(v % M, 256)
b2v=lambda b: z3.If(b, BV(1), BV(0))

class Term(Exception): pass

class Interp:
    def __init__(self, root):
        self.labels = {}
        self.collect(root)
        self.terms = []   # (pc, status, data)
        self.cd = z3.Array("calldata", z3.BitVecSort(256), z3.BitVecSort(256))  # word at byte offset
        self.cds = z3.BitVec("calldatasize", 256)
        self.cv = z3.BitVec("callvalue", 256)
    def collect(self, n):
        if n.value == "label":
            self.labels[n.args[0].value] = n
        for a in n.args: self.collect(a)
    def feasible(self, pc):
        s=z3.Solver(); s.set("timeout",5000); s.add(pc); return s.check()!=z3.unsat
    # returns list of (pc, mem, env, value)
    def ev(self, n, pc, mem, env):
        v=n.value; a=n.args
        if isinstance(v,int): return [(pc,mem,env,BV(v))]
        if isinstance(v,str) and not a and v in env: return [(pc,mem,env,env[v])]
        if v=="calldatasize": return [(pc,mem,env,self.cds)]
        if v=="callvalue": return [(pc,mem,env,self.cv)]
        if v in ("pass","var_list","unique_symbol"): return [(pc,mem,env,None)]
        if v=="seq":
            states=[(pc,mem,env,None)]
            for x in a:
                nxt=[]
                for (p,m,e,_) in states: nxt.extend(self.ev(x,p,m,e))
                states=nxt
            return states
        if v=="with":
            out=[]
            for (p,m,e,val) in self.ev(a[1],pc,mem,env):
                e2=dict(e); e2[a[0].value]=val
                for (p2,m2,e3,r) in self.ev(a[2],p,m,e2):
                    e4=dict(e3); 
                    if a[0].value in e: e4[a[0].value]=e[a[0].value]
                    else: e4.pop(a[0].value,None)
                    out.append((p2,m2,e4,r))
            return out
        if v=="if":
            out=[]
            for (p,m,e,c) in self.ev(a[0],pc,mem,env):
                pt=z3.And(p,c!=0); pf=z3.And(p,c==0)
                if self.feasible(pt): out.extend(self.ev(a[1],pt,m,e))
                if self.feasible(pf):
                    if len(a)>2: out.extend(self.ev(a[2],pf,m,e))
                    else: out.append((pf,m,e,None))
            return out
        if v=="assert":
            out=[]
            for (p,m,e,c) in self.ev(a[0],pc,mem,env):
                pf=z3.And(p,c==0)
                if self.feasible(pf): self.terms.append((pf,"revert",[]))
                pt=z3.And(p,c!=0)
                if self.feasible(pt): out.append((pt,m,e,None))
            return out
        if v=="label":
            # falling into a label: execute body with no args bound
            return self.ev(a[2],pc,mem,env)
        if v in ("goto","exit_to"):
            tgt=self.labels[a[0].value]
            params=[x.value for x in tgt.args[1].args]
            states=[(pc,mem,env,[])]
            # args evaluated right-to-left like opcodes
            for x in reversed(a[1:]):
                nxt=[]
                for (p,m,e,acc) in states:
                    for (p2,m2,e2,val) in self.ev(x,p,m,e): nxt.append((p2,m2,e2,[val]+acc))
                states=nxt
            for (p,m,e,vals) in states:
                vals=[x for x in vals if x is not None]
                e2=dict(e)
                for k,val in zip(params,vals): e2[k]=val
                self.ev(tgt.args[2],p,m,e2)   # never returns normally (terminal inside)
            return []
        # generic opcode: args right-to-left
        states=[(pc,mem,env,[])]
        for x in reversed(a):
            nxt=[]
            for (p,m,e,acc) in states:
                for (p2,m2,e2,val) in self.ev(x,p,m,e): nxt.append((p2,m2,e2,[val]+acc))
            states=nxt
        out=[]
        for (p,m,e,vals) in states:
            r=None
            if v=="mstore": m=z3.Store(m,vals[0],vals[1])
            elif v=="mload": r=z3.Select(m,vals[0])
            elif v=="calldataload": r=z3.Select(self.cd,vals[0])
            elif v=="return":
                ofs=z3.simplify(vals[0]); ln=z3.simplify(vals[1]).as_long()
                self.terms.append((p,"return",[z3.Select(m,ofs+32*i) for i in range(ln//32)])); continue
            elif v=="revert": self.terms.append((p,"revert",[])); continue
            elif v=="stop": self.terms.append((p,"stop",[])); continue
            else:
                def signext(b,x):
                    bb=z3.simplify(b).as_long()
                    if bb>=31: return x
                    k=8*(bb+1); return z3.SignExt(256-k,z3.Extract(k-1,0,x))
                ops={"add":lambda x,y:x+y,"sub":lambda x,y:x-y,"mul":lambda x,y:x*y,
                  "lt":lambda x,y:b2v(z3.ULT(x,y)),"gt":lambda x,y:b2v(z3.UGT(x,y)),"le":lambda x,y:b2v(z3.ULE(x,y)),"ge":lambda x,y:b2v(z3.UGE(x,y)),
                  "slt":lambda x,y:b2v(x<y),"sgt":lambda x,y:b2v(x>y),"sle":lambda x,y:b2v(x<=y),"sge":lambda x,y:b2v(x>=y),
                  "eq":lambda x,y:b2v(x==y),"ne":lambda x,y:b2v(x!=y),"iszero":lambda x:b2v(x==0),
                  "shr":lambda s,x:z3.LShR(x,s),"shl":lambda s,x:x<<s,"sar":lambda s,x:x>>s,
                  "and":lambda x,y:x&y,"or":lambda x,y:x|y,"xor":lambda x,y:x^y,"not":lambda x:~x,"signextend":signext}
                r=ops[v](*vals)
            out.append((p,m,e,r))
        return out

def run(src, sig, types_, op, settings):
    cd=CompilerData(src, settings=settings)
    ir=cd.ir_runtime
    it=Interp(ir)
    mem0=z3.Array("mem0", z3.BitVecSort(256), z3.BitVecSort(256))
    rest=it.ev(ir, z3.BoolVal(True), mem0, {})
    assert not rest, "fell off the end"
    return it

if __name__=="__main__":
    from vyper.semantics.types import IntegerT
    t0=time.time(); nob=0; bad=0
    W=300
    for signed,bits in ((True,128),(False,8),(True,8),(False,256),(True,256),(False,136)):
        T=("int" if signed else "uint")+str(bits)
        for opname,sym,pyop in (("add","+",lambda a,b:a+b),("sub","-",lambda a,b:a-b)):
            src=f"@external\ndef f(x: {T}, y: {T}) -> {T}:\n    return x {sym} y\n"
            for opt in (OptimizationLevel.GAS, OptimizationLevel.NONE, OptimizationLevel.CODESIZE):
                it=run(src, f"f({T},{T})", None, None, Settings(optimize=opt, evm_version="cancun"))
                mid=method_id_int(f"f({T},{T})")
                sel=z3.LShR(z3.Select(it.cd,BV(0)),224)
                X=z3.Select(it.cd,BV(4)); Y=z3.Select(it.cd,BV(36))
                lo,hi=IntegerT(signed,bits).int_bounds
                ext=(lambda v:z3.SignExt(W-256,v)) if signed else (lambda v:z3.ZeroExt(W-256,v))
                inr=lambda v:z3.And(v>=lo,v<=hi)
                # canonical: as 256-bit word interpreted (signed types: sign-extended two's complement)
                canon=lambda w: inr(z3.SignExt(W-256,w)) if signed else inr(z3.ZeroExt(W-256,w))
                exact=pyop(ext(X),ext(Y))
                should_return=z3.And(z3.UGE(it.cds,68), sel==mid, it.cv==0, canon(X), canon(Y), inr(exact))
                should_fallback=z3.Or(z3.ULT(it.cds,4), sel!=mid)
                # obligations: paths exhaustive; each path's status matches spec
                obs=[("exhaustive", z3.Or(*[p for p,_,_ in it.terms]))]
                for (p,status,data) in it.terms:
                    if status=="return":
                        obs.append(("return-path", z3.Implies(p, z3.And(should_return, ext(data[0])==exact, len(data)==1))))
                    else:
                        obs.append((status+"-path", z3.Implies(p, z3.Not(should_return))))
                for name,f_ in obs:
                    s=z3.Solver(); s.set("timeout",20000); s.add(z3.Not(f_)); r=s.check(); nob+=1
                    if r!=z3.unsat: bad+=1; print("FAIL",T,opname,opt,name,r, s.model() if r==z3.sat else "")
        print(T,"done", len(it.terms),"paths", round(time.time()-t0,1), flush=True)
    print("obligations",nob,"bad",bad,"wall",round(time.time()-t0,1))
