import z3, time, sys
from concurrent.futures import ProcessPoolExecutor
M=2**256; H=2**255
def tos(u): return z3.If(u>=H, u-M, u)
def tdiv(p,q):
    qq = z3.If(p>=0, p, -p) / z3.If(q>=0, q, -q)
    return z3.If((p<0)!=(q<0), -qq, qq)
def sdiv(u,v): return z3.If(v==0, 0, (tdiv(tos(u),tos(v)))%M)
def run(args):
    name, case, part = args
    a,b,p = z3.Ints('a b p')
    hy=[p == a*b]
    if case[0]=='p': x=a; sx=a; hy+=[0<=a,a<H]
    else: x=M-a; sx=-a; hy+=[1<=a,a<=H]
    if case[1]=='p': y=b; sy=b; hy+=[0<=b,b<H]
    else: y=M-b; sy=-b; hy+=[1<=b,b<=H]
    neg = (case[0]!=case[1])
    # lemma: res expressed via p
    res_raw = (x*y)%M
    res = ((-p)%M) if neg else (p%M)
    ok = z3.And(z3.Or(sdiv(res,y)==x, y==0), z3.Or(x!=H, (M-1-y)!=0))
    exact = -p if neg else p
    inr = z3.And(-H<=exact, exact<H)
    s=z3.Solver(); s.set("timeout",30000); s.add(*hy)
    if part=="lemma": s.add(res_raw!=res)
    elif part=="ok=>inr": s.add(ok, z3.Not(inr))
    elif part=="inr=>ok": s.add(inr, z3.Not(ok))
    elif part=="val": s.add(ok, tos(res)!=exact)
    t=time.time(); r=s.check()
    return (case, part, str(r), round(time.time()-t,2))
if __name__=="__main__":
    jobs=[("x",c,p) for c in ("pp","pn","np","nn") for p in ("lemma","ok=>inr","inr=>ok","val")]
    with ProcessPoolExecutor(16) as ex:
        for r in ex.map(run, jobs): print(r, flush=True)
