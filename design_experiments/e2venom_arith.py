import sys, time
import z3
from concurrent.futures import ProcessPoolExecutor
from vyper.venom.context import IRContext
from vyper.venom.basicblock import IRLabel, IRVariable, IRLiteral
from vyper.venom.builder import VenomBuilder
from vyper.codegen_venom import arithmetic as va
from vyper.semantics.types import IntegerT, DecimalT
from vyper.compiler.settings import Settings, anchor_settings, OptimizationLevel
M=2**256; H=2**255
I=z3.IntVal
def tos(u): return z3.If(u>=H, u-M, u)
def tdiv(a,b):
    q = z3.If(a>=0,a,-a) / z3.If(b>=0,b,-b)
    return z3.If((a<0)!=(b<0), -q, q)
def tmod(a,b):
    r = z3.If(a>=0,a,-a) % z3.If(b>=0,b,-b)
    return z3.If(a<0, -r, r)
b2i=lambda b: z3.If(b,I(1),I(0))
def pw(k): return 2**k
def venom_denote(insts, env):
    """straight-line venom; returns ok(Bool); env var->Int word"""
    ok = z3.BoolVal(True)
    def val(op):
        if isinstance(op, IRLiteral): return I(op.value % M)
        return env[op.name]
    def const(x):
        x=z3.simplify(x); assert z3.is_int_value(x), x; return x.as_long()
    for inst in insts:
        opc = inst.opcode
        # venom operand order is reversed w.r.t. EVM: operands[-1] is first EVM arg
        a = [val(o) for o in reversed(inst.operands)]
        if opc == "assert":
            ok = z3.And(ok, a[0] != 0); continue
        if opc == "add": r=(a[0]+a[1])%M
        elif opc == "sub": r=(a[0]-a[1])%M
        elif opc == "mul": r=(a[0]*a[1])%M
        elif opc == "div": r=z3.If(a[1]==0,I(0),a[0]/a[1])
        elif opc == "sdiv": r=z3.If(a[1]==0,I(0),tdiv(tos(a[0]),tos(a[1]))%M)
        elif opc == "mod": r=z3.If(a[1]==0,I(0),a[0]%a[1])
        elif opc == "smod": r=z3.If(a[1]==0,I(0),tmod(tos(a[0]),tos(a[1]))%M)
        elif opc == "lt": r=b2i(a[0]<a[1])
        elif opc == "gt": r=b2i(a[0]>a[1])
        elif opc == "slt": r=b2i(tos(a[0])<tos(a[1]))
        elif opc == "sgt": r=b2i(tos(a[0])>tos(a[1]))
        elif opc == "eq": r=b2i(a[0]==a[1])
        elif opc == "iszero": r=b2i(a[0]==0)
        elif opc == "not": r=M-1-a[0]
        elif opc in ("and","or"):
            x,y=a
            bx=z3.Or(x==0,x==1); by=z3.Or(y==0,y==1)
            r = z3.If(z3.And(bx,by), (x*y if opc=="and" else z3.If(z3.Or(x==1,y==1),I(1),I(0))), I(-7))
        elif opc == "shl": r=(a[1]*pw(const(a[0])))%M
        else: raise Exception("unsupported "+opc)
        env[inst.output.name]=r
    return ok

def job(args):
    which, signed, bits, isdec, timeout = args
    typ = DecimalT() if isdec else IntegerT(signed,bits)
    with anchor_settings(Settings(optimize=OptimizationLevel.GAS, evm_version="cancun", experimental_codegen=True)):
        ctx=IRContext(); fn=ctx.create_function("p"); b=VenomBuilder(ctx,fn)
        x=fn.get_next_variable(); y=fn.get_next_variable()
        f=getattr(va, which)
        try:
            res=f(b,x,y,typ)
        except Exception as e:
            return (which,str(typ),"SKIP "+type(e).__name__,0)
        X,Y=z3.Ints("x y"); env={x.name:X,y.name:Y}
        ok=venom_denote(fn.entry.instructions, env)
        val=env[res.name] if isinstance(res,IRVariable) else I(res.value%M)
    lo,hi=typ.int_bounds
    toint = tos if typ.is_signed else (lambda v:v)
    xi,yi=toint(X),toint(Y)
    inr=lambda v: z3.And(v>=lo,v<=hi)
    pre=z3.And(X>=0,X<M,Y>=0,Y<M,inr(xi),inr(yi))
    D = typ.divisor if isdec else None
    if which=="safe_add": exact=xi+yi; defined=True
    elif which=="safe_sub": exact=xi-yi; defined=True
    elif which=="safe_mul":
        exact=xi*yi
        if isdec: exact=tdiv(exact,I(D))
        defined=True
    elif which=="safe_div": exact=tdiv(xi*D,yi); defined=(yi!=0)
    elif which=="safe_floordiv": exact=tdiv(xi,yi); defined=(yi!=0)
    elif which=="safe_mod": exact=tmod(xi,yi); defined=(yi!=0)
    out=[]
    for name,f_ in (("ok<=>inrange", ok==z3.And(defined,inr(exact))), ("value", z3.Implies(ok, toint(val)==exact))):
        s=z3.Solver(); s.set("timeout",timeout); s.add(pre, z3.Not(f_))
        t=time.time(); r=s.check()
        out.append((name,str(r),round(time.time()-t,2), str(s.model()) if r==z3.sat else ""))
    return (which,str(typ),out)

if __name__=="__main__":
    jobs=[]
    for which in ("safe_add","safe_sub","safe_mul","safe_floordiv","safe_mod","safe_div"):
        for s in (False,True):
            for bits in (8,64,128,136,248,256):
                jobs.append((which,s,bits,False,20000))
        jobs.append((which,True,168,True,20000))
    t0=time.time()
    cnt={"unsat":0,"sat":0,"unknown":0}
    with ProcessPoolExecutor(14) as ex:
        for r in ex.map(job,jobs):
            if isinstance(r[2],str): print(r); continue
            for (n,res,dt,m) in r[2]:
                cnt[res]+=1
                if res!="unsat": print(r[0],r[1],n,res,dt,m[:200])
    print(cnt,"wall",round(time.time()-t0,1))
