import sys
sys.path.insert(0,'/repo')
from tests.evm_backends.revm_env import RevmEnv
from vyper.compiler.settings import Settings, OptimizationLevel
from eth_keys import keys
src = '''
@external
def h(z: uint256) -> uint256:
    return 20 - z

@external
def g(x: uint256, y: uint256) -> uint256:
    a: uint256 = x & (2**128 - 1)
    b: uint256 = y & (2**128 - 1)
    z: uint256 = unsafe_mul(a, b)
    s: int256 = convert(convert(z, bytes32), int256)
    if s < 10:
        return 20 - z
    return 0

@external
def k(x: uint256, y: uint256) -> uint256:
    a: uint256 = x & (2**128 - 1)
    b: uint256 = y & (2**128 - 1)
    z: uint256 = unsafe_mul(a, b)
    return 20 - z
'''
for exp, opt in ((False, OptimizationLevel.GAS), (True, OptimizationLevel.NONE), (True, OptimizationLevel.GAS), (True, OptimizationLevel.O3)):
    env = RevmEnv(gas_limit=10**9, account_keys=[keys.PrivateKey(b'\x01'*32)], tracing=False, block_number=1, evm_version='cancun', exporter=None)
    c = env.deploy_source(src, output_formats=['abi','bytecode','metadata'], input_bundle=None, compiler_settings=Settings(experimental_codegen=exp, optimize=opt))
    for fn,args in (("h",(21,)),("h",(2**256-2**129+1,)),("g",(2**128-1,2**128-1)),("k",(2**128-1,2**128-1))):
        try:
            r = getattr(c, fn)(*args); print("venom" if exp else "legacy", opt, fn, "RETURNED", r)
        except Exception as e:
            print("venom" if exp else "legacy", opt, fn, "reverted", type(e).__name__)
