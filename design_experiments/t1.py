import z3, time
def run(name, f, timeout=60000):
    s = z3.Solver(); s.set("timeout", timeout)
    s.add(z3.Not(f))
    t=time.time(); r=s.check(); print(name, r, round(time.time()-t,2))
    if r==z3.sat: print(s.model())

W=520
a,b = z3.BitVecs('a b',256)
za, zb = z3.ZeroExt(W-256,a), z3.ZeroExt(W-256,b)
run("mulwrap", z3.Extract(255,0,za*zb)==a*b)
# evm_div signed: sign*(abs(x)//abs(y))
sa, sb = z3.SignExt(W-256,a), z3.SignExt(W-256,b)
def Abs(x): return z3.If(x<0,-x,x)
prod = sa*sb
sign = z3.If(prod<0, z3.BitVecVal(-1,W), z3.BitVecVal(1,W))
q = sign*z3.UDiv(Abs(sa),Abs(sb))
impl = z3.If(sb==0, z3.BitVecVal(0,W), q)
spec = z3.If(b==0, z3.BitVecVal(0,256), (a/b))  # smtlib bvsdiv by zero differs
run("sdiv", z3.Extract(255,0,impl)==spec, 120000)
