import sys, time
import z3
from vyper.codegen.ir_node import IRnode
from vyper.codegen import arithmetic, core
from vyper.semantics.types import IntegerT, DecimalT
from vyper.compiler.settings import Settings, anchor_settings, OptimizationLevel
M = 2**256; H = 2**255
I = z3.IntVal
def tos(u): return z3.If(u>=H, u-M, u)
def tdiv(a,b):
    q = z3.If(a>=0,a,-a) / z3.If(b>=0,b,-b)
    return z3.If((a<0)!=(b<0), -q, q)
def tmod(a,b):
    r = z3.If(a>=0,a,-a) % z3.If(b>=0,b,-b)
    return z3.If(a<0, -r, r)
b2i = lambda b: z3.If(b, I(1), I(0))
def pow2(k): return 2**k
def denote(node, env):
    v = node.value; a = node.args
    if isinstance(v, int): return I(v % M), z3.BoolVal(True)
    if v in env and not a: return env[v], z3.BoolVal(True)
    if v == "seq":
        ok = z3.BoolVal(True); val=None
        for x in a:
            val, o = denote(x, env); ok = z3.And(ok, o)
        return val, ok
    if v == "with":
        val, o1 = denote(a[1], env)
        env2 = dict(env); env2[a[0].value] = val
        r, o2 = denote(a[2], env2)
        return r, z3.And(o1, o2)
    if v == "assert":
        c, o = denote(a[0], env)
        return None, z3.And(o, c != 0)
    vals=[]; ok = z3.BoolVal(True)
    for x in a:
        xv, o = denote(x, env); vals.append(xv); ok = z3.And(ok,o)
    def const(x):
        x = z3.simplify(x); assert z3.is_int_value(x), x; return x.as_long()
    def signext(b,x):
        k = 8*(const(b)+1)
        if k>=256: return x
        lo = x % pow2(k)
        return z3.If(lo >= pow2(k-1), lo + (M - pow2(k)), lo)
    def bor(x,y):
        # only boolean-valued operands supported here
        return z3.If(z3.Or(x!=0, y!=0), z3.If(z3.And(z3.Or(x==0,x==1), z3.Or(y==0,y==1)), I(1), I(-1)), I(0))
    def band(x,y):
        return z3.If(z3.And(z3.Or(x==0,x==1), z3.Or(y==0,y==1)), x*y, I(-1))
    ops = {
      "add": lambda x,y: (x+y)%M, "sub": lambda x,y: (x-y)%M, "mul": lambda x,y: (x*y)%M,
      "div": lambda x,y: z3.If(y==0, I(0), x/y),
      "sdiv": lambda x,y: z3.If(y==0, I(0), tdiv(tos(x),tos(y))%M),
      "mod": lambda x,y: z3.If(y==0, I(0), x%y),
      "smod": lambda x,y: z3.If(y==0, I(0), tmod(tos(x),tos(y))%M),
      "lt": lambda x,y: b2i(x<y), "gt": lambda x,y: b2i(x>y), "le": lambda x,y: b2i(x<=y), "ge": lambda x,y: b2i(x>=y),
      "slt": lambda x,y: b2i(tos(x)<tos(y)), "sgt": lambda x,y: b2i(tos(x)>tos(y)),
      "sle": lambda x,y: b2i(tos(x)<=tos(y)), "sge": lambda x,y: b2i(tos(x)>=tos(y)),
      "eq": lambda x,y: b2i(x==y), "ne": lambda x,y: b2i(x!=y), "iszero": lambda x: b2i(x==0),
      "shr": lambda s,x: x / pow2(const(s)), "shl": lambda s,x: (x*pow2(const(s)))%M,
      "not": lambda x: M-1-x, "or": bor, "and": band,
      "signextend": signext,
    }
    return ops[v](*vals), ok

def check(f, timeout=60000):
    s = z3.Solver(); s.set("timeout", timeout); s.add(z3.Not(f))
    t=time.time(); r = s.check()
    return r, time.time()-t, (s.model() if r==z3.sat else None)

which = sys.argv[1]
with anchor_settings(Settings(optimize=OptimizationLevel.GAS, evm_version="cancun")):
    t0=time.time()
    types = [IntegerT(s,b) for s in (False,True) for b in range(8,257,8)] + [DecimalT()]
    for typ in types:
        signed = typ.is_signed
        lo, hi = typ.int_bounds
        x = IRnode("x", typ=typ); y = IRnode("y", typ=typ)
        fn = getattr(arithmetic, which)
        ir = fn(x, y)
        X, Y = z3.Ints("x y")
        val, ok = denote(ir, {"x": X, "y": Y})
        toint = tos if signed else (lambda v: v)
        xi, yi = toint(X), toint(Y)
        inr = lambda v: z3.And(v >= lo, v <= hi)
        pre = z3.And(X>=0, X<M, Y>=0, Y<M, inr(xi), inr(yi))
        if which == "safe_mul":
            exact = xi*yi
            if isinstance(typ, DecimalT): exact = tdiv(exact, I(typ.divisor))
            defined = z3.BoolVal(True)
        elif which == "safe_div":
            if isinstance(typ, DecimalT): exact = tdiv(xi*typ.divisor, yi)
            else: exact = tdiv(xi, yi)
            defined = yi != 0
        elif which == "safe_mod":
            exact = tmod(xi, yi); defined = yi != 0
        post1 = (ok == z3.And(defined, inr(exact)))
        post2 = z3.Implies(ok, toint(val) == exact)
        r1, dt1, m1 = check(z3.Implies(pre, post1))
        r2, dt2, m2 = check(z3.Implies(pre, post2))
        print(which, typ, r1, round(dt1,2), r2, round(dt2,2), flush=True)
        if m1 is not None: print("  cex1", m1)
        if m2 is not None: print("  cex2", m2)
    print("time", round(time.time()-t0,2))
