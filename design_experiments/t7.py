import z3, time
def run(name, hyps, concl, timeout=30000):
    s=z3.Solver(); s.set("timeout",timeout); s.add(*hyps); s.add(z3.Not(concl))
    t=time.time(); r=s.check(); print(name, r, round(time.time()-t,2))
    if r==z3.sat: print(s.model())
M=2**256; UMAX=M-1; LIM=2**128
# eval_mul nonconstant branch soundness (Int)
a,b,l1,h1,l2,h2 = z3.Ints('a b l1 h1 l2 h2')
hy=[0<=l1,l1<=h1,h1<=UMAX,0<=l2,l2<=h2,h2<=UMAX, h1-l1<=LIM, h2-l2<=LIM,
    z3.Not(z3.And(h1>0, h2 > UMAX/h1)), h1*h2<=UMAX, l1<=a,a<=h1,l2<=b,b<=h2]
res=(a*b)%M
run("eval_mul", hy, z3.And(l1*l2<=res, res<=h1*h2))
# zero_pad frame (BV, byte memory)
mem = z3.Array('mem', z3.BitVecSort(256), z3.BitVecSort(8))
buf, ln, i, cds = z3.BitVecs('buf len i cds', 256)
def mload(m,p):
    return z3.Concat(*[z3.Select(m, p+k) for k in range(32)])
L = mload(mem, buf)
dst = buf + 32 + L
n = z3.URem(0 - L, 32)
new = z3.Lambda([i], z3.If(z3.And(z3.UGE(i,dst), z3.ULT(i, dst+n)), z3.BitVecVal(0,8), z3.Select(mem,i)))
# precondition: no wrap, sizes < 2^64
pre=[z3.ULT(buf, 2**64), z3.ULT(L, 2**64)]
ceil32 = (L + 31) & ~z3.BitVecVal(31,256)
j = z3.BitVec('j',256)
inpad = z3.And(z3.UGE(j, buf+32+L), z3.ULT(j, buf+32+ceil32))
run("zero_pad", pre, z3.If(inpad, z3.Select(new,j)==0, z3.Select(new,j)==z3.Select(mem,j)))
