import sys, time
import z3
from vyper.codegen.ir_node import IRnode, Encoding
from vyper.codegen import core
from vyper.codegen.abi_encoder import abi_encode
from vyper.semantics.types import BytesT, StringT
from vyper.evm.address_space import MEMORY
from vyper.compiler.settings import Settings, anchor_settings, OptimizationLevel
M=2**256
BV=lambda v: z3.BitVecVal(v % M, 256)
b2v=lambda b: z3.If(b, BV(1), BV(0))
ADDR=z3.BitVecSort(256); BYTE=z3.BitVecSort(8)
def mload(m,p): return z3.Concat(*[z3.Select(m,p+k) for k in range(32)])
def mstore(m,p,v):
    for k in range(32): m=z3.Store(m,p+k,z3.Extract(255-8*k,248-8*k,v))
    return m
class S: pass
def ev(n, env, st):
    """st.mem byte array; returns value; accumulates st.ok"""
    v=n.value; a=n.args
    if isinstance(v,int): return BV(v)
    if isinstance(v,str) and not a and v in env: return env[v]
    if v=="calldatasize": return st.cds
    if v=="seq":
        r=None
        for x in a: r=ev(x,env,st)
        return r
    if v=="with":
        val=ev(a[1],env,st); e2=dict(env); e2[a[0].value]=val; return ev(a[2],e2,st)
    if v=="assert":
        c=ev(a[0],env,st); st.ok=z3.And(st.ok,c!=0); return None
    if v in ("pass","unique_symbol"): return None
    vals=[ev(x,env,st) for x in reversed(a)][::-1]
    if v=="mload": return mload(st.mem,vals[0])
    if v=="mstore": st.mem=mstore(st.mem,vals[0],vals[1]); return None
    if v=="mcopy":
        dst,src,ln=vals; old=st.mem; i=z3.BitVec("i!%d"%id(n),256)
        st.mem=z3.Lambda([i], z3.If(z3.And(z3.UGE(i,dst), z3.ULT(i-dst,ln)), z3.Select(old, src+(i-dst)), z3.Select(old,i))); return None
    if v=="calldatacopy":
        dst,src,ln=vals; old=st.mem; i=z3.BitVec("j!%d"%id(n),256)
        # only the past-the-end (zeroing) use is modelled
        st.ok_side=z3.And(st.ok_side, z3.UGE(src, st.cds))
        st.mem=z3.Lambda([i], z3.If(z3.And(z3.UGE(i,dst), z3.ULT(i-dst,ln)), z3.BitVecVal(0,8), z3.Select(old,i))); return None
    if v=="ceil32": return (vals[0]+31) & ~BV(31)
    ops={"add":lambda x,y:x+y,"sub":lambda x,y:x-y,"mul":lambda x,y:x*y,"mod":lambda x,y:z3.If(y==0,BV(0),z3.URem(x,y)),
      "div":lambda x,y:z3.If(y==0,BV(0),z3.UDiv(x,y)),
      "lt":lambda x,y:b2v(z3.ULT(x,y)),"gt":lambda x,y:b2v(z3.UGT(x,y)),"le":lambda x,y:b2v(z3.ULE(x,y)),"ge":lambda x,y:b2v(z3.UGE(x,y)),
      "eq":lambda x,y:b2v(x==y),"iszero":lambda x:b2v(x==0),"and":lambda x,y:x&y,"or":lambda x,y:x|y}
    return ops[v](*vals)

t0=time.time(); res=[]
for evm in ("cancun",):
  with anchor_settings(Settings(optimize=OptimizationLevel.GAS, evm_version=evm)):
    for n in (1,31,32,33,64):
        typ=BytesT(n)
        src=IRnode("src", typ=typ, location=MEMORY); dst=IRnode("dst", typ=typ, location=MEMORY)
        ir=abi_encode(dst, src, None, bufsz=typ.abi_type.size_bound(), returns_len=True)
        st=S(); st.mem=z3.Array("mem0",ADDR,BYTE); st.ok=z3.BoolVal(True); st.ok_side=z3.BoolVal(True); st.cds=z3.BitVec("cds",256)
        mem0=st.mem
        SRC,DST=z3.BitVecs("src dst",256)
        rlen=ev(ir,{"src":SRC,"dst":DST},st)
        L=mload(mem0,SRC)
        size=32+((n+31)//32)*32
        # preconditions: small addresses, length within bound, buffers disjoint
        pre=z3.And(z3.ULT(SRC,2**32), z3.ULT(DST,2**32), z3.ULE(L,n), z3.Or(z3.UGE(DST,SRC+size), z3.UGE(SRC,DST+size)))
        ceilL=(L+31)&~BV(31)
        j=z3.BitVec("j",256)
        off=j-DST
        inside=z3.And(z3.UGE(j,DST), z3.ULT(off,32+ceilL))
        want=z3.If(z3.ULT(off,32), z3.Select(mem0,SRC+off),                      # length word copied
              z3.If(z3.ULT(off-32,L), z3.Select(mem0,SRC+off), z3.BitVecVal(0,8)))  # data then zero padding
        obs=[("len", rlen==32+ceilL), ("no-revert", st.ok), ("side", st.ok_side),
             ("encoding-bytes", z3.Implies(inside, z3.Select(st.mem,j)==want)),
             ("frame-outside-buffer", z3.Implies(z3.Not(z3.And(z3.UGE(j,DST), z3.ULT(off,size))), z3.Select(st.mem,j)==z3.Select(mem0,j)))]
        for name,f_ in obs:
            s=z3.Solver(); s.set("timeout",60000); s.add(pre, z3.Not(f_)); t=time.time(); r=s.check()
            res.append((evm,n,name,str(r),round(time.time()-t,2)))
            print(evm,n,name,r,round(time.time()-t,2), (s.model() if r==z3.sat else ""), flush=True)
print("wall",round(time.time()-t0,1))
print(ir)
