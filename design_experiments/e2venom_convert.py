"""GenVC prototype on Venom convert generators: int<->decimal and int->int, all runtime values."""
import sys, time, types as pytypes
import z3
sys.path.insert(0,'/tmp/exp')
from e2venom_arith import venom_denote, tos, tdiv, I, M, H
from vyper.venom.context import IRContext
from vyper.venom.basicblock import IRVariable, IRLiteral
from vyper.venom.builder import VenomBuilder
from vyper.codegen_venom.builtins import convert as vc
from vyper.semantics.types import IntegerT, DecimalT
from vyper.compiler.settings import Settings, anchor_settings, OptimizationLevel
from vyper.exceptions import VyperException
node=pytypes.SimpleNamespace(has_folded_value=False)
tot=0; bad=0; unk=0; t0=time.time()
D=DecimalT(); DIV=D.divisor
ints=[IntegerT(s,b) for s in (False,True) for b in (8,64,128,168,176,248,256)]
cases=[("to_decimal",t,D) for t in ints]+[("to_int",D,t) for t in ints]+[("to_int",a,b) for a in ints for b in ints if a!=b]
with anchor_settings(Settings(optimize=OptimizationLevel.GAS, evm_version="cancun", experimental_codegen=True)):
  for kind,tin,tout in cases:
    ctx=IRContext(); fn=ctx.create_function("p"); b=VenomBuilder(ctx,fn)
    x=fn.get_next_variable()
    cx=pytypes.SimpleNamespace(builder=b)
    try:
        res = vc._to_decimal(x,tin,tout,node,cx) if kind=="to_decimal" else vc._to_int(x,tin,tout,node,cx)
    except VyperException as e:
        continue
    X=z3.Int("x"); env={x.name:X}
    try: ok=venom_denote(fn.entry.instructions, env)
    except Exception as e:
        print("DENOTE-FAIL",kind,tin,tout,e); continue
    val=env[res.name] if isinstance(res,IRVariable) else I(res.value%M)
    lo,hi=tin.int_bounds; lo2,hi2=tout.int_bounds
    ti=tos if tin.is_signed else (lambda v:v); to=tos if tout.is_signed else (lambda v:v)
    xi=ti(X)
    pre=z3.And(X>=0,X<M,xi>=lo,xi<=hi)
    if kind=="to_decimal": exact=xi*DIV
    elif isinstance(tin,DecimalT): exact=tdiv(xi,I(DIV))
    else: exact=xi
    # for decimal->int the docs: out of range check is on the truncated value? legacy blocks inputs out of bounds BEFORE truncation
    fits = z3.And(exact>=lo2, exact<=hi2) if not isinstance(tin,DecimalT) else z3.And(xi>=lo2*DIV, xi<=hi2*DIV)
    for name,f_ in (("ok<=>fits", ok==fits), ("value", z3.Implies(ok, to(val)==exact))):
        s=z3.Solver(); s.set("timeout",20000); s.add(pre, z3.Not(f_)); r=s.check(); tot+=1
        if r==z3.sat:
            bad+=1; m=s.model(); print("SAT",kind,tin,"->",tout,name,"x =",ti(X).__class__ and m.eval(xi))
        elif r!=z3.unsat: unk+=1; print("UNKNOWN",kind,tin,tout,name)
print("obligations",tot,"sat",bad,"unknown",unk,"wall",round(time.time()-t0,1))
