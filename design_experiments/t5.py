import z3, time, sys
def run(name, hyps, concl, timeout=60000):
    s = z3.Solver(); s.set("timeout", timeout)
    s.add(*hyps); s.add(z3.Not(concl))
    t=time.time(); r=s.check(); print(name, r, round(time.time()-t,2)); sys.stdout.flush()
    if r==z3.sat: print(s.model())
    return r
M=2**256; H=2**255
# case pn: x = a (0<=a<H), y = M - b (1<=b<=H). sx=a, sy=-b. product = -a*b.
a,b = z3.Ints('a b')
x = a; y = M-b
res = (x*y)%M
def tos(u): return z3.If(u>=H, u-M, u)
def tdiv(p,q):
    qq = z3.If(p>=0, p, -p) / z3.If(q>=0, q, -q)
    return z3.If((p<0)!=(q<0), -qq, qq)
def sdiv(u,v): return z3.If(v==0, 0, (tdiv(tos(u),tos(v)))%M)
hy=[0<=a,a<H,1<=b,b<=H]
ok = z3.And(z3.Or(sdiv(res,y)==x, y==0), z3.Or(x!=H, (M-1-y)!=0))
inrange = a*b <= H
run("pn ok=>inr", hy+[ok], inrange)
run("pn inr=>ok", hy+[inrange], ok)
# help: res == (M - a*b) % M
run("pn res", hy, res == (M*a - a*b)%M)
run("pn inr=>res", hy+[inrange, a*b>0], res == M - a*b)
