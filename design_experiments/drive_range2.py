import sys, time, z3, itertools
sys.path.insert(0,'/tmp/exp/pyvc')
from mini2 import *
from vyper.venom.analysis.variable_range import value_range as vr
from vyper.venom.analysis.variable_range import evaluators as ev
ValueRange, K = vr.ValueRange, vr.VRangeKind
M=2**256; H=2**255
def tos(w): return z3.If(w>=H, w-M, w)
I=z3.IntVal
def mkiv(tag):
    lo,hi=z3.Int(tag+"_lo"),z3.Int(tag+"_hi")
    return SymObj(ValueRange,{"_kind":K.IV,"_lo":lo,"_hi":hi}), z3.And(lo>=-H, lo<=hi, hi<=M-1)
def mkconst(c): return SymObj(ValueRange,{"_kind":K.IV,"_lo":c,"_hi":c})
def gamma(r, w):
    k=r.fields["_kind"]
    if k==K.TOP: return z3.BoolVal(True)
    if k==K.BOT: return z3.BoolVal(False)
    lo,hi=as_int(r.fields["_lo"]),as_int(r.fields["_hi"])
    return z3.Or(z3.And(lo<=w,w<=hi), z3.And(lo<=tos(w),tos(w)<=hi))
def spec(op,k,b):
    # first EVM operand k is a concrete int (shift amount / byte index), b word (Int)
    if op=="shr": return I(0) if k>=256 else b/(2**k)
    if op=="shl": return I(0) if k>=256 else (b*(2**k))%M
    if op=="sar":
        sb=tos(b)
        if k>=256: return z3.If(sb<0, I(M-1), I(0))
        q = z3.If(sb>=0, sb/(2**k), -(((-sb)+(2**k)-1)/(2**k)))   # floor division for negatives
        return q % M
    if op=="signextend":
        if k>=31: return b
        bits=8*(k+1); lo=b%(2**bits)
        return z3.If(lo>=2**(bits-1), lo+(M-2**bits), lo)
    if op=="byte":
        if k>=32: return I(0)
        return (b/(2**((31-k)*8)))%256
tot=0; ok=0; t0=time.time()
for op in (sys.argv[1:] or ["shr","shl","sar","signextend","byte"]):
    ks = [0,1,7,8,15,30,31,32,255,256,257] if op in ("shr","shl","sar") else [0,1,15,30,31,32,33]
    for k in ks:
      for kform in ([k, k-M] if k>0 else [k]):     # constant held in signed-negative form is impossible for small k; also try unsigned form only
        if kform<0: continue
        for vkind in ("IV","TOP","CONST"):
            if vkind=="IV": V,inv=mkiv("v")
            elif vkind=="TOP": V,inv=SymObj(ValueRange,{"_kind":K.TOP,"_lo":None,"_hi":None}), z3.BoolVal(True)
            else:
                c=z3.Int("c"); V,inv=mkconst(c), z3.And(c>=-H,c<=M-1)
            eng=Engine2()
            try: outs=eng.call(ev.eval_op,[op,mkconst(kform),V],{},inv)
            except Undecided as e: print(" UNDECIDED",op,k,vkind,e); continue
            b=z3.Int("b")
            res_word=spec(op,k,b)
            obs=list(eng.obligations)
            for (pc,name) in eng.raised: obs.append((f"no-raise[{name}]", z3.Not(pc)))
            obs.append(("paths-exhaustive", z3.Implies(inv, z3.Or(*([pc for pc,_ in outs]+[pc for pc,_ in eng.raised]+[z3.BoolVal(False)])))))
            for (pc,res) in outs:
                obs.append(("sound", z3.Implies(z3.And(pc,b>=0,b<M,gamma(V,b)), gamma(res,res_word))))
            for name,f in obs:
                r,dt,m=prove(f,20000); tot+=1; ok+=(r=="unsat")
                if r!="unsat": print(" ",op,"k=",k,vkind,name,r,round(dt,1),(str(m)[:260].replace("\n"," ") if m is not None else ""),flush=True)
    print(op,"done",round(time.time()-t0,1),flush=True)
print("obligations",tot,"discharged",ok,"wall",round(time.time()-t0,1))
