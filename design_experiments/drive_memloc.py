import sys, time, z3, itertools
sys.path.insert(0,'/tmp/exp/pyvc')
from mini2 import *
from vyper.venom.memory_location import MemoryLocation
class Tok:
    def __init__(s,n): s.n=n
    def __repr__(s): return s.n
A1,A2=Tok("A1"),Tok("A2")
tot=0; ok=0; t0=time.time()
def mk(tag, off_known, size_known, alloca):
    o=z3.Int(tag+"_o") if off_known else None
    sz=z3.Int(tag+"_s") if size_known else None
    inv=[]
    if off_known: inv.append(o>=0)
    if size_known: inv.append(sz>=0)
    return SymObj(MemoryLocation,{"offset":o,"size":sz,"alloca":alloca,"_is_volatile":False}), inv
for (ok1,sk1,al1,ok2,sk2,al2) in itertools.product((True,False),(True,False),(None,A1),(True,False),(True,False),(None,A1,A2)):
    L1,i1=mk("l1",ok1,sk1,al1); L2,i2=mk("l2",ok2,sk2,al2)
    pre=z3.And(*(i1+i2+[z3.BoolVal(True)]))
    for which in ("may_overlap","completely_contains"):
        eng=Engine2()
        try:
            if which=="may_overlap": outs=eng.call(MemoryLocation.may_overlap,[L1,L2],{},pre)
            else: outs=eng.call(MemoryLocation.completely_contains,[L1,L2],{},pre)
        except Undecided as e:
            print("UNDECIDED",which,e); continue
        # actual footprints
        o1=L1.fields["offset"] if ok1 else z3.Int("o1f"); s1=L1.fields["size"] if sk1 else z3.Int("s1f")
        o2=L2.fields["offset"] if ok2 else z3.Int("o2f"); s2=L2.fields["size"] if sk2 else z3.Int("s2f")
        adm=z3.And(o1>=0,s1>=0,o2>=0,s2>=0)
        same_space = (al1 is al2)   # same alloca or both global
        diff_allocas = (al1 is not None and al2 is not None and al1 is not al2)
        overlap=z3.And(s1>0,s2>0,o1<o2+s2,o2<o1+s1)
        contains=z3.Or(s2==0, z3.And(o1<=o2, o2+s2<=o1+s1))
        for (pc,res) in outs:
            resb = as_bool(res) if is_sym(res) else z3.BoolVal(bool(res))
            if which=="may_overlap":
                if diff_allocas: continue       # allocator guarantee (assumption): never overlap
                if not same_space: 
                    # concrete vs abstract: may alias -> must answer True
                    f=z3.Implies(z3.And(pc,adm,s1>0,s2>0), resb)
                else:
                    f=z3.Implies(z3.And(pc,adm,overlap), resb)
            else:
                if not same_space:
                    f=z3.Implies(z3.And(pc,adm,s2>0), z3.Not(resb))
                else:
                    f=z3.Implies(z3.And(pc,adm,resb), contains)
            r,dt,m=prove(f,10000); tot+=1; ok+=(r=="unsat")
            if r!="unsat": print(which,(ok1,sk1,al1,ok2,sk2,al2),r,str(m)[:200].replace("\n"," "))
        for name,f in eng.obligations:
            r,dt,m=prove(f,10000); tot+=1; ok+=(r=="unsat")
            if r!="unsat": print(which,"assert",name,r)
print("obligations",tot,"discharged",ok,"wall",round(time.time()-t0,1))
