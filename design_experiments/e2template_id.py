"""Template: identity echo for static ABI types, both pipelines: returns <=> canonical (C05 strictness + C06 static return)."""
import sys, time, importlib.util
import z3
sys.path.insert(0,'/tmp/exp')
import e2template as L
import e2template_venom as V
from vyper.compiler.phases import CompilerData
from vyper.compiler.settings import Settings, OptimizationLevel, anchor_settings
from vyper.utils import method_id_int
M=2**256; BV=L.BV
def canon_pred(T, w):
    if T=="bool": return z3.ULE(w,1)
    if T=="address": return z3.ULT(w,2**160)
    if T.startswith("bytes"):
        m=int(T[5:]); return z3.BoolVal(True) if m==32 else z3.Extract(255-8*m,0,w)==0
    if T.startswith("uint"):
        b=int(T[4:]); return z3.BoolVal(True) if b==256 else z3.ULT(w,2**b)
    if T.startswith("int"):
        b=int(T[3:]); return z3.BoolVal(True) if b==256 else z3.SignExt(256-b, z3.Extract(b-1,0,w))==w
    if T=="F": return z3.ULT(w, 2**3)
    if T=="decimal": return z3.And(w >= BV(-(2**167)), w <= BV(2**167-1))  # signed compare
    raise Exception(T)
types_=["bool","address","bytes1","bytes4","bytes31","bytes32","uint8","uint160","uint248","uint256","int8","int128","int248","int256","F"]
t0=time.time(); nob=0; bad=0
for T in types_:
    pre = "flag F:\n    A\n    B\n    C\n\n" if T=="F" else ""
    src=pre+f"@external\ndef f(x: {T}) -> {T}:\n    return x\n"
    abiT = "uint256" if T=="F" else T
    mid=method_id_int(f"f({abiT})")
    for pipeline in ("legacy","venom"):
        for opt in (OptimizationLevel.GAS, OptimizationLevel.NONE, OptimizationLevel.CODESIZE):
            st=Settings(optimize=opt, evm_version="cancun", experimental_codegen=(pipeline=="venom"))
            cd=CompilerData(src, settings=st)
            if pipeline=="legacy":
                it=L.Interp(cd.ir_runtime); mem0=z3.Array("mem0", z3.BitVecSort(256), z3.BitVecSort(256))
                rest=it.ev(cd.ir_runtime, z3.BoolVal(True), mem0, {}); assert not rest
            else:
                with anchor_settings(cd.settings): ctx=cd.venom_runtime
                it=V.VInterp(list(ctx.get_functions())[0]); it.run()
            sel=z3.LShR(z3.Select(it.cd,BV(0)),224); X=z3.Select(it.cd,BV(4))
            should=z3.And(z3.UGE(it.cds,36), sel==mid, it.cv==0, canon_pred(T,X))
            obs=[("exhaustive", z3.Or(*[p for p,_,_ in it.terms]))]
            for (p,status,data) in it.terms:
                if status=="return": obs.append(("return", z3.Implies(p, z3.And(should, data[0]==X, len(data)==1))))
                else: obs.append((status, z3.Implies(p, z3.Not(should))))
            for name,f_ in obs:
                s=z3.Solver(); s.set("timeout",20000); s.add(z3.Not(f_)); r=s.check(); nob+=1
                if r!=z3.unsat: bad+=1; print("FAIL",T,pipeline,opt,name,r,(s.model() if r==z3.sat else ""))
print("obligations",nob,"bad",bad,"wall",round(time.time()-t0,1))
