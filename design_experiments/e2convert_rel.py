"""Relational GenVC prototype: legacy vs Venom convert() generators on word types, BV, all run-time values."""
import sys, time, types as pytypes, itertools
import z3
sys.path.insert(0,'/tmp/exp')
import e2ptr as LP           # legacy BV denote(node, env, st)
import e2template_venom as VT  # OPS table for venom BV
from vyper.codegen.ir_node import IRnode
from vyper.builtins import _convert as LC
from vyper.codegen_venom.builtins import convert as VC
from vyper.venom.context import IRContext
from vyper.venom.basicblock import IRVariable, IRLiteral
from vyper.venom.builder import VenomBuilder
from vyper.semantics.types import IntegerT, DecimalT, BytesM_T, AddressT, BoolT
from vyper.compiler.settings import Settings, anchor_settings, OptimizationLevel
from vyper.exceptions import VyperException
M=2**256; BV=LP.BV
def venom_bv(insts, env):
    ok=z3.BoolVal(True)
    for inst in insts:
        a=[(BV(o.value) if isinstance(o,IRLiteral) else env[o.name]) for o in reversed(inst.operands)]
        if inst.opcode=="assert": ok=z3.And(ok,a[0]!=0); continue
        if inst.opcode=="assign": env[inst.output.name]=a[0]; continue
        if inst.opcode in ("div","sdiv","mod","smod"):
            f={"div":lambda x,y:z3.If(y==0,BV(0),z3.UDiv(x,y)),"sdiv":lambda x,y:z3.If(y==0,BV(0),x/y),
               "mod":lambda x,y:z3.If(y==0,BV(0),z3.URem(x,y)),"smod":lambda x,y:z3.If(y==0,BV(0),z3.SRem(x,y))}[inst.opcode]
            env[inst.output.name]=f(*a); continue
        env[inst.output.name]=VT.OPS[inst.opcode](*a)
    return ok
# extend legacy denote with div family
_old=LP.denote
def ldenote(node, env, st):
    v=node.value
    if v in ("div","sdiv","mod","smod","mul"):
        vals=[]; ok=z3.BoolVal(True)
        for x in node.args:
            xv,o=ldenote(x,env,st); vals.append(xv); ok=z3.And(ok,o)
        x,y=vals
        r={"div":z3.If(y==0,BV(0),z3.UDiv(x,y)),"sdiv":z3.If(y==0,BV(0),x/y),"mod":z3.If(y==0,BV(0),z3.URem(x,y)),"smod":z3.If(y==0,BV(0),z3.SRem(x,y)),"mul":x*y}[v]
        return r, ok
    return _old(node, env, st)
LP.denote=ldenote
def canon(t,w):
    W=300
    if isinstance(t,(IntegerT,DecimalT)):
        lo,hi=t.int_bounds
        e=z3.SignExt(W-256,w) if t.is_signed else z3.ZeroExt(W-256,w)
        return z3.And(e>=lo,e<=hi)
    if isinstance(t,BytesM_T): return z3.BoolVal(True) if t.m==32 else z3.Extract(255-8*t.m,0,w)==0
    if isinstance(t,AddressT): return z3.ULT(w,2**160)
    if isinstance(t,BoolT): return z3.ULE(w,1)
types_=[IntegerT(s,b) for s in (False,True) for b in (8,16,128,160,168,248,256)]+[DecimalT(),AddressT(),BoolT()]+[BytesM_T(m) for m in (1,2,16,20,21,31,32)]
node=pytypes.SimpleNamespace(has_folded_value=False)
tot=0; sat=0; unk=0; skipped=0; onlyone=[]; t0=time.time()
with anchor_settings(Settings(optimize=OptimizationLevel.GAS, evm_version="cancun")):
  for tin,tout in itertools.product(types_,types_):
    if tin==tout: continue
    # legacy
    lfun={IntegerT:LC.to_int,DecimalT:LC.to_decimal,BytesM_T:LC.to_bytes_m,AddressT:LC.to_address,BoolT:LC.to_bool}[type(tout)]
    try: lir=lfun(pytypes.SimpleNamespace(),IRnode("x",typ=tin),tout); lerr=None
    except VyperException as e: lerr=type(e).__name__
    except Exception as e: lerr="CRASH "+type(e).__name__
    ctx=IRContext(); fn=ctx.create_function("p"); b=VenomBuilder(ctx,fn); x=fn.get_next_variable(); cx=pytypes.SimpleNamespace(builder=b)
    try:
        if isinstance(tout,IntegerT): res=VC._to_int(x,tin,tout,node,cx)
        elif isinstance(tout,DecimalT): res=VC._to_decimal(x,tin,tout,node,cx)
        elif isinstance(tout,BytesM_T): res=VC._to_bytes_m(x,tin,tout,node,cx)
        elif isinstance(tout,AddressT): res=VC._to_address(x,tin,node,cx)
        else: res=VC._to_bool(x,tin,tout,node,cx)
        verr=None
    except VyperException as e: verr=type(e).__name__
    except Exception as e: verr="CRASH "+type(e).__name__
    if lerr or verr:
        skipped+=1
        if bool(lerr)!=bool(verr): onlyone.append((str(tin),str(tout),lerr,verr))
        continue
    X=z3.BitVec("x",256)
    lval,lok=LP.denote(lir,{"x":X},LP.St())
    env={x.name:X}; vok=venom_bv(fn.entry.instructions,env)
    vval=env[res.name] if isinstance(res,IRVariable) else BV(res.value)
    pre=canon(tin,X)
    for name,f_ in (("same-revert",lok==vok),("same-value",z3.Implies(z3.And(lok,vok),lval==vval))):
        s=z3.Solver(); s.set("timeout",20000); s.add(pre,z3.Not(f_)); r=s.check(); tot+=1
        if r==z3.sat:
            sat+=1; m=s.model(); print("DIFF",tin,"->",tout,name,"x =",hex(m.eval(X,model_completion=True).as_long()), "legacy_ok",m.eval(lok),"venom_ok",m.eval(vok))
        elif r!=z3.unsat: unk+=1; print("UNKNOWN",tin,tout,name)
print("pairs compared obligations",tot,"sat",sat,"unknown",unk,"skipped(rejected by both or one)",skipped,"wall",round(time.time()-t0,1))
print("accepted by only one generator:",onlyone[:20], len(onlyone))
