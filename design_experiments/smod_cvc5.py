import sys, time, z3, subprocess, os
sys.path.insert(0, '/tmp/exp/pyvc')
from mini import *
from vyper.venom.passes.sccp import eval as sccp_eval
M = 2**256; H = 2**255
def u(v): return py_mod(v, M)
def tos(w): return z3.If(w >= H, w - M, w)
def tmod(a,b):
    r = z3.If(a>=0,a,-a) % z3.If(b>=0,b,-b)
    return z3.If(a<0, -r, r)
fn = sccp_eval.ARITHMETIC_OPS["smod"]
vs = [z3.Int("v0"), z3.Int("v1")]
pre = z3.And(*[z3.And(v >= -H, v < M) for v in vs])
ops = [{"__record__": True, "value": v} for v in vs]
eng = Engine(); outs = eng.call(fn, [ops], pre)
a, b = u(vs[1]), u(vs[0])
expect = z3.If(b==0, 0, tmod(tos(a),tos(b))%M)
for i,(pc,val) in enumerate(outs):
    s = z3.Solver(); s.add(pc, as_int(val) != expect)
    open(f"smod_{i}.smt2","w").write("(set-logic QF_NIA)\n"+s.to_smt2())
    t=time.time()
    r = subprocess.run(["/usr/bin/cvc5","--tlimit=60000",f"smod_{i}.smt2"],capture_output=True,text=True)
    print(i, r.stdout.strip()[:40], r.stderr.strip()[:80], round(time.time()-t,1), flush=True)
