"""Relational template sweep: legacy runtime IR vs post-pass Venom runtime, same source, ALL calldata (C02-style)."""
import sys, time, itertools
import z3
sys.path.insert(0,'/tmp/exp')
import e2template as L
import e2template_venom as V
from vyper.compiler.phases import CompilerData
from vyper.compiler.settings import Settings, OptimizationLevel, anchor_settings
M=2**256; BV=L.BV
EXP=z3.Function("EXP",z3.BitVecSort(256),z3.BitVecSort(256),z3.BitVecSort(256))
def addmod(a,b,n):
    W=257; r=z3.URem(z3.ZeroExt(1,a)+z3.ZeroExt(1,b), z3.ZeroExt(1,n)); return z3.If(n==0,BV(0),z3.Extract(255,0,r))
def mulmod(a,b,n):
    r=z3.URem(z3.ZeroExt(256,a)*z3.ZeroExt(256,b), z3.ZeroExt(256,n)); return z3.If(n==0,BV(0),z3.Extract(255,0,r))
extra={"div":lambda x,y:z3.If(y==0,BV(0),z3.UDiv(x,y)),"sdiv":lambda x,y:z3.If(y==0,BV(0),x/y),
 "mod":lambda x,y:z3.If(y==0,BV(0),z3.URem(x,y)),"smod":lambda x,y:z3.If(y==0,BV(0),z3.SRem(x,y)),
 "exp":lambda x,y:EXP(x,y),"addmod":addmod,"mulmod":mulmod,
 "le":lambda x,y:L.b2v(z3.ULE(x,y)),"ge":lambda x,y:L.b2v(z3.UGE(x,y)),"sle":lambda x,y:L.b2v(x<=y),"sge":lambda x,y:L.b2v(x>=y),"ne":lambda x,y:L.b2v(x!=y)}
V.OPS.update(extra)
# patch legacy interpreter's generic opcode table by wrapping ev
_old_ev=L.Interp.ev
def ev(self,n,pc,mem,env):
    v=n.value
    if v in extra or v=="select":
        states=[(pc,mem,env,[])]
        for x in reversed(n.args):
            nxt=[]
            for (p,m,e,acc) in states:
                for (p2,m2,e2,val) in self.ev(x,p,m,e): nxt.append((p2,m2,e2,[val]+acc))
            states=nxt
        out=[]
        for (p,m,e,vals) in states:
            if v=="select": r=z3.If(vals[0]!=0,vals[1],vals[2])
            else: r=extra[v](*vals)
            out.append((p,m,e,r))
        return out
    return _old_ev(self,n,pc,mem,env)
L.Interp.ev=ev
def outcome_formula(it):
    """returns (returns: Bool, word: BV) as functions of calldata by merging paths"""
    ret=z3.BoolVal(False); word=BV(0); cover=z3.BoolVal(False)
    for (p,status,data) in it.terms:
        cover=z3.Or(cover,p)
        if status=="return":
            ret=z3.Or(ret,p)
            if data: word=z3.If(p,data[0],word)
    return ret,word,cover
def run_one(src, venom, opt):
    if True:
        st=Settings(optimize=opt, evm_version="cancun", experimental_codegen=venom, enable_decimals=True)
        cd=CompilerData(src, settings=st)
        if not venom:
            it=L.Interp(cd.ir_runtime); mem0=z3.Array("mem0", z3.BitVecSort(256), z3.BitVecSort(256))
            rest=it.ev(cd.ir_runtime, z3.BoolVal(True), mem0, {}); assert not rest
        else:
            with anchor_settings(cd.settings): ctx=cd.venom_runtime
            fns=list(ctx.get_functions()); assert len(fns)==1, "internal functions not supported"
            it=V.VInterp(fns[0]); it.run()
        return it
