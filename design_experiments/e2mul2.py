import sys, time, itertools
import z3
from concurrent.futures import ProcessPoolExecutor
sys.setrecursionlimit(10000)
exec(open('/tmp/exp/e2mul.py').read().split("def check(")[0])  # reuse denote etc.

def solve(smt, timeout):
    s = z3.Solver(); s.set("timeout", timeout); s.from_string(smt)
    t=time.time(); r = s.check()
    return str(r), time.time()-t

def job(args):
    which, signed, bits, isdec, case, part, timeout = args
    typ = DecimalT() if isdec else IntegerT(signed, bits)
    with anchor_settings(Settings(optimize=OptimizationLevel.GAS, evm_version="cancun")):
        lo, hi = typ.int_bounds
        x = IRnode("x", typ=typ); y = IRnode("y", typ=typ)
        ir = getattr(arithmetic, which)(x, y)
        X, Y = z3.Ints("x y")
        a, b = z3.Ints("a b")
        hyps = []
        # magnitude substitution
        if case[0] == 'p': hyps += [X == a, a >= 0, a <= hi]; xi = a
        else: hyps += [X == M - a, a >= 1, a <= -lo]; xi = -a
        if case[1] == 'p': hyps += [Y == b, b >= 0, b <= hi]; yi = b
        else: hyps += [Y == M - b, b >= 1, b <= -lo]; yi = -b
        Xe = a if case[0]=='p' else M - a
        Ye = b if case[1]=='p' else M - b
        val, ok = denote(ir, {"x": Xe, "y": Ye})
        inr = lambda v: z3.And(v >= lo, v <= hi)
        exact = xi*yi
        if isdec: exact = tdiv(exact, I(typ.divisor))
        s = z3.Solver()
        s.add(*[h for h in hyps if not z3.eq(h.arg(0), X) and not z3.eq(h.arg(0), Y)])
        if part == "ok=>inr": s.add(ok, z3.Not(inr(exact)))
        elif part == "inr=>ok": s.add(inr(exact), z3.Not(ok))
        elif part == "val": s.add(ok, tos(val) != exact)
        smt = s.to_smt2()
    r, dt = solve(smt, timeout)
    return (str(typ), case, part, r, round(dt,2))

if __name__ == "__main__":
    which = "safe_mul"
    jobs = []
    tl = [(True,b,False) for b in (8,16,64,128,136,168,248,256)] + [(True,168,True)]
    for (s,b,d) in tl:
        for case in ("pp","pn","np","nn"):
            for part in ("ok=>inr","inr=>ok","val"):
                jobs.append((which,s,b,d,case,part,40000))
    t0=time.time()
    with ProcessPoolExecutor(14) as ex:
        for res in ex.map(job, jobs):
            print(res, flush=True)
    print("total", round(time.time()-t0,1))
