import sys, time, z3, itertools
sys.path.insert(0,'/tmp/exp/pyvc')
from mini3 import *
from vyper.compiler.settings import Settings, OptimizationLevel, set_global_settings
set_global_settings(Settings(optimize=OptimizationLevel.GAS, evm_version="cancun"))
from vyper.codegen.ir_node import IRnode
from vyper.ir import optimizer as opt
H=2**255
I=z3.IntVal
def tos(w): return z3.If(w>=H, w-M, w)
def tdiv(a,b):
    q=z3.If(a>=0,a,-a)/z3.If(b>=0,b,-b); return z3.If((a<0)!=(b<0),-q,q)
def tmod(a,b):
    r=z3.If(a>=0,a,-a)%z3.If(b>=0,b,-b); return z3.If(a<0,-r,r)
b2i=lambda b: z3.If(b,I(1),I(0))
EXTRA=[]
def is_mask(c): return isinstance(c,int) and c>=0 and c==(1<<c.bit_length())-1
def spec(op, a, raw=None):
    if op=="add": return (a[0]+a[1])%M
    if op=="sub": return (a[0]-a[1])%M
    if op=="mul": return (a[0]*a[1])%M
    if op=="div": return z3.If(a[1]==0,I(0),a[0]/a[1])
    if op=="mod": return z3.If(a[1]==0,I(0),a[0]%a[1])
    if op=="sdiv": return z3.If(a[1]==0,I(0),tdiv(tos(a[0]),tos(a[1]))%M)
    if op=="smod": return z3.If(a[1]==0,I(0),tmod(tos(a[0]),tos(a[1]))%M)
    if op=="exp": return POWMOD(a[0],a[1])
    if op=="eq": return b2i(a[0]==a[1])
    if op=="ne": return b2i(a[0]!=a[1])
    if op=="lt": return b2i(a[0]<a[1])
    if op=="le": return b2i(a[0]<=a[1])
    if op=="gt": return b2i(a[0]>a[1])
    if op=="ge": return b2i(a[0]>=a[1])
    if op=="slt": return b2i(tos(a[0])<tos(a[1]))
    if op=="sle": return b2i(tos(a[0])<=tos(a[1]))
    if op=="sgt": return b2i(tos(a[0])>tos(a[1]))
    if op=="sge": return b2i(tos(a[0])>=tos(a[1]))
    if op=="iszero": return b2i(a[0]==0)
    if op=="not": return M-1-a[0]
    if op=="and":
        if raw is not None and is_mask(raw[1]): return a[0]%(raw[1]+1)
        if raw is not None and is_mask(raw[0]): return a[1]%(raw[0]+1)
        EXTRA.append(z3.And(*[z3.Implies(a[1]==2**k-1, BITAND(a[0],a[1])==a[0]%(2**k)) for k in range(257)]))
        return BITAND(a[0],a[1])
    if op=="or": return BITOR(a[0],a[1])
    if op=="xor": return BITXOR(a[0],a[1])
    if op=="shl": return (a[1]*(2**raw[0]))%M
    if op=="shr": return a[1]/(2**raw[0])
    raise Exception("spec "+op)
def den(t):
    if isinstance(t, SymObj): return t.rt
    if isinstance(t, bool): return I(int(t))
    if isinstance(t, int): return I(t % M)
    if is_sym(t): return py_mod(as_int(t), M)
    if isinstance(t, list):
        op=t[0]; raw=t[1:]
        if op=="seq": return den(raw[0])
        return spec(op,[den(x) for x in raw],raw)
    raise Exception("den %r"%(t,))
def contains(t, node):
    if isinstance(t, list): return sum(contains(x,node) for x in t)
    return 1 if t is node else 0
def mkarg(shape, tag):
    if shape=="lit":
        v=z3.Int(tag+"_v"); o=SymObj(IRnode,{"value":v,"args":[],"annotation":None}); o.rt=py_mod(v,M); o.inv=z3.And(v>=-H,v<M); o.complex=False
    elif shape=="leaf":
        o=SymObj(IRnode,{"value":"var_"+tag,"args":[],"annotation":None}); o.rt=z3.Int(tag+"_rt"); o.inv=z3.And(o.rt>=0,o.rt<M); o.complex=False
    elif shape=="sameleaf":
        o=SymObj(IRnode,{"value":"var_same","args":[],"annotation":None}); o.rt=z3.Int("same_rt"); o.inv=z3.And(o.rt>=0,o.rt<M); o.complex=False
    else:
        inner=SymObj(IRnode,{"value":"p_"+tag,"args":[],"annotation":None})
        o=SymObj(IRnode,{"value":"mload","args":[inner],"annotation":None}); o.rt=z3.Int(tag+"_rt"); o.inv=z3.And(o.rt>=0,o.rt<M); o.complex=True
    return o
def lemmas(x,y):
    L=[]
    for (p,q) in ((x,y),(y,x)):
        L+= [BITXOR(p,q)==BITXOR(q,p), BITOR(p,q)==BITOR(q,p), BITAND(p,q)==BITAND(q,p),
             z3.Implies(q==M-1, z3.And(BITXOR(p,q)==M-1-p, BITOR(p,q)==M-1, BITAND(p,q)==p)),
             z3.Implies(q==0, z3.And(BITXOR(p,q)==p, BITOR(p,q)==p, BITAND(p,q)==0)),
             (BITXOR(p,q)==0)==(p==q), BITOR(p,q)>=p, BITOR(p,q)>=q, BITOR(p,q)<M, BITAND(p,q)>=0, BITAND(p,q)<=p, BITXOR(p,q)>=0, BITXOR(p,q)<M,
             POWMOD(p,0)==1, z3.Implies(p==1,POWMOD(p,q)==1), z3.Implies(p==0,POWMOD(p,q)==b2i(q==0)), z3.Implies(q==1,POWMOD(p,q)==p),
             POWMOD(p,q)>=0, POWMOD(p,q)<M]
    return z3.And(*L)
binops=sys.argv[1].split(",") if len(sys.argv)>1 else list(opt.arith)
shapes=[("lit","lit"),("lit","leaf"),("leaf","lit"),("leaf","leaf"),("sameleaf","sameleaf"),("cx","lit"),("lit","cx"),("cx","leaf"),("leaf","cx"),("cx","cx")]
tot=0; okc=0; t0=time.time(); npaths=0
for binop in binops:
    tb=time.time()
    for parent in (None,"if","assert","iszero","seq"):
        truthy = parent in ("if","assert","iszero")
        for (s0,s1) in shapes:
            a0,a1=mkarg(s0,"a0"),mkarg(s1,"a1")
            pre=z3.And(a0.inv,a1.inv)
            eng=Engine3()
            try:
                outs=eng.call(opt._optimize_binop,[binop,[a0,a1],None,parent],{},pre)
            except Undecided as e:
                print("UNDECIDED",binop,parent,s0,s1,e); continue
            orig=spec(binop,[a0.rt,a1.rt],None)
            lem=lemmas(a0.rt,a1.rt)
            obs=list(eng.obligations)
            for (pc,name) in eng.raised: obs.append((f"no-raise[{name}]", z3.Not(pc)))
            for (pc,ret) in outs:
                npaths+=1
                if ret is None: continue
                new_val,new_args,_ann=ret
                term = new_val if not isinstance(new_val,str) else [new_val]+list(new_args)
                if not isinstance(new_val,str): assert list(new_args)==[]
                del EXTRA[:]
                d=den(term)
                lem2=z3.And(lem,*EXTRA)
                if truthy: goal=(d!=0)==(orig!=0)
                else: goal=(d==orig)
                obs.append((f"equiv[{new_val if isinstance(new_val,str) else 'lit'}]", z3.Implies(z3.And(pc,lem2),goal)))
                for a in (a0,a1):
                    if a.complex:
                        c=contains(list(new_args),a)
                        obs.append(("complex-arg-once", z3.BoolVal(c==1) if True else None))
            for name,f in obs:
                r,dt,m=prove(f,10000); tot+=1; okc+=(r=="unsat")
                if r!="unsat": print("  ",binop,"parent=",parent,s0,s1,name,r,round(dt,1),(str(m)[:240].replace("\n"," ") if m is not None else ""),flush=True)
    print(binop,"done",round(time.time()-tb,1),"s",flush=True)
print("paths",npaths,"obligations",tot,"discharged",okc,"wall",round(time.time()-t0,1))
