import sys, time
import z3
from vyper.codegen.ir_node import IRnode
from vyper.codegen import arithmetic, core
from vyper.semantics.types import IntegerT, DecimalT
from vyper.compiler.settings import Settings, anchor_settings, OptimizationLevel


M = 2**256
def denote(node, env):
    """returns (value BV256 or None, ok Bool) ; env: name->BV"""
    v = node.value
    a = node.args
    if isinstance(v, int):
        return z3.BitVecVal(v % M, 256), z3.BoolVal(True)
    if v in env and not a:
        return env[v], z3.BoolVal(True)
    if v == "seq":
        ok = z3.BoolVal(True); val=None
        for x in a:
            val, o = denote(x, env); ok = z3.And(ok, o)
        return val, ok
    if v == "with":
        val, o1 = denote(a[1], env)
        env2 = dict(env); env2[a[0].value] = val
        r, o2 = denote(a[2], env2)
        return r, z3.And(o1, o2)
    if v == "assert":
        c, o = denote(a[0], env)
        return None, z3.And(o, c != 0)
    vals=[]; ok = z3.BoolVal(True)
    for x in a:
        xv, o = denote(x, env); vals.append(xv); ok = z3.And(ok,o)
    b2v = lambda b: z3.If(b, z3.BitVecVal(1,256), z3.BitVecVal(0,256))
    ops = {
      "add": lambda x,y: x+y, "sub": lambda x,y: x-y, "mul": lambda x,y: x*y,
      "lt": lambda x,y: b2v(z3.ULT(x,y)), "gt": lambda x,y: b2v(z3.UGT(x,y)),
      "le": lambda x,y: b2v(z3.ULE(x,y)), "ge": lambda x,y: b2v(z3.UGE(x,y)),
      "slt": lambda x,y: b2v(x<y), "sgt": lambda x,y: b2v(x>y), "sle": lambda x,y: b2v(x<=y), "sge": lambda x,y: b2v(x>=y),
      "eq": lambda x,y: b2v(x==y), "ne": lambda x,y: b2v(x!=y), "iszero": lambda x: b2v(x==0),
      "shr": lambda s,x: z3.LShR(x,s), "shl": lambda s,x: x<<s, "sar": lambda s,x: x>>s,
      "and": lambda x,y: x&y, "or": lambda x,y: x|y, "xor": lambda x,y: x^y, "not": lambda x: ~x,
      "signextend": lambda b,x: signext(b,x),
    }
    return ops[v](*vals), ok
def signext(b, x):
    # b concrete expected
    bb = z3.simplify(b).as_long()
    if bb >= 31: return x
    k = 8*(bb+1)
    return z3.SignExt(256-k, z3.Extract(k-1,0,x))

def check(name, f):
    s = z3.Solver(); s.set("timeout", 20000); s.add(z3.Not(f))
    t=time.time(); r = s.check(); 
    return r, time.time()-t, (s.model() if r==z3.sat else None)

with anchor_settings(Settings(optimize=OptimizationLevel.GAS, evm_version="cancun")):
    n=0; t0=time.time()
    for signed in (False, True):
        for bits in range(8, 257, 8):
            typ = IntegerT(signed, bits)
            lo, hi = typ.int_bounds
            x = IRnode("x", typ=typ); y = IRnode("y", typ=typ)
            for fn, pyop in ((arithmetic.safe_add, lambda a,b:a+b), (arithmetic.safe_sub, lambda a,b:a-b)):
                ir = fn(x, y)
                X, Y = z3.BitVecs("x y", 256)
                val, ok = denote(ir, {"x": X, "y": Y})
                # precondition: operands in range of typ
                W = 300
                def toint(v): return z3.SignExt(W-256, v) if signed else z3.ZeroExt(W-256, v)
                xi, yi = toint(X), toint(Y)
                inr = lambda v: z3.And(v >= lo, v <= hi)
                pre = z3.And(inr(xi), inr(yi))
                exact = pyop(xi, yi)
                post = z3.And(ok == inr(exact), z3.Implies(ok, toint(val) == exact))
                r, dt, m = check(f"{fn.__name__} {typ}", z3.Implies(pre, post))
                n+=1
                if r != z3.unsat: print("FAIL", fn.__name__, typ, r, m)
    print("obligations", n, "time", round(time.time()-t0,2))
    print(arithmetic.safe_add(IRnode("x", typ=IntegerT(True,128)), IRnode("y", typ=IntegerT(True,128))))
