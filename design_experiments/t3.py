import z3, time, sys
def run(name, f, timeout=120000):
    s = z3.Solver(); s.set("timeout", timeout)
    s.add(z3.Not(f))
    t=time.time(); r=s.check(); print(name, r, round(time.time()-t,2)); sys.stdout.flush()
    if r==z3.sat: print(s.model())
M=2**256; H=2**255
def tos(u): return z3.If(u>=H, u-M, u)
def tou(s): return s % M
def tdiv(a,b):  # truncated division on math ints, b != 0
    q = z3.If(a>=0, a, -a) / z3.If(b>=0, b, -b)
    return z3.If((a<0)!=(b<0), -q, q)
def sdiv(u,v): return z3.If(v==0, 0, tou(tdiv(tos(u),tos(v))))
x,y = z3.Ints('x y')   # evm words representing int256
pre = z3.And(0<=x, x<M, 0<=y, y<M)
res = (x*y)%M
ok = z3.And(z3.Or(sdiv(res,y)==x, y==0), z3.Or(x!=H, (M-1-y)!=0))
sx, sy = tos(x), tos(y)
inrange = z3.And(-H <= sx*sy, sx*sy < H)
run("smul256", z3.Implies(pre, ok==inrange), 300000)
# and result correct when ok
run("smul256_val", z3.Implies(z3.And(pre, ok), tos(res)==sx*sy), 300000)
