import sys, time, z3, itertools
sys.path.insert(0,'/tmp/exp/pyvc')
from mini2 import *
from vyper.venom.analysis.variable_range import value_range as vr
from vyper.venom.analysis.variable_range import evaluators as ev
ValueRange, K = vr.ValueRange, vr.VRangeKind
M=2**256; H=2**255
def tos(w): return z3.If(w>=H, w-M, w)
def mkiv(tag):
    lo,hi=z3.Int(tag+"_lo"),z3.Int(tag+"_hi")
    return SymObj(ValueRange,{"_kind":K.IV,"_lo":lo,"_hi":hi}), z3.And(lo>=-H, lo<=hi, hi<=M-1)
def mkconst(c): return SymObj(ValueRange,{"_kind":K.IV,"_lo":c,"_hi":c})
def gamma(r, w):
    k=r.fields["_kind"]
    if k==K.TOP: return z3.BoolVal(True)
    if k==K.BOT: return z3.BoolVal(False)
    lo,hi=as_int(r.fields["_lo"]),as_int(r.fields["_hi"])
    return z3.Or(z3.And(lo<=w,w<=hi), z3.And(lo<=tos(w),tos(w)<=hi))
tot=0; ok=0; t0=time.time()
for side in ("mask-left","mask-right"):
    for vkind in ("IV","TOP"):
        c=z3.Int("c"); Cst,invc=mkconst(c), z3.And(c>=-H,c<=M-1)
        if vkind=="IV": V,inv=mkiv("v")
        else: V,inv=SymObj(ValueRange,{"_kind":K.TOP,"_lo":None,"_hi":None}), z3.BoolVal(True)
        pre=z3.And(inv,invc)
        eng=Engine2()
        args=["and",Cst,V] if side=="mask-left" else ["and",V,Cst]
        outs=eng.call(ev.eval_op,args,{},pre)
        a,b=z3.Ints("a b")
        AND=z3.Function("AND",z3.IntSort(),z3.IntSort(),z3.IntSort())
        res_word=AND(a,b)
        # lemmas about bitwise and on words, each provable in pure BV logic
        ax=z3.And(a>=0,a<M,b>=0,b<M, res_word>=0, res_word<=a, res_word<=b,
                  z3.Implies(a==M-1,res_word==b), z3.Implies(b==M-1,res_word==a))
        first,second=(Cst,V) if side=="mask-left" else (V,Cst)
        for (pc,res) in outs:
            f=z3.Implies(z3.And(pc,ax,gamma(first,a),gamma(second,b)), gamma(res,res_word))
            r,dt,m=prove(f,20000); tot+=1; ok+=(r=="unsat")
            print(side,vkind,"sound",r,round(dt,1),(str(m)[:300].replace("\n"," ") if m is not None else ""),flush=True)
print("obligations",tot,"discharged",ok,"wall",round(time.time()-t0,1))
