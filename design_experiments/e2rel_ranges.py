"""Relational sweep aimed at range-driven optimisations: legacy vs Venom {none,O2,O3}, all calldata, in parallel."""
import sys, time, itertools
from concurrent.futures import ProcessPoolExecutor
sys.path.insert(0,'/tmp/exp')
PROD = {
 "and255": "v: uint256 = x & 255",
 "andM128": "v: uint256 = x & (2**128 - 1)",
 "mod1000": "v: uint256 = x % 1000",
 "shr200": "v: uint256 = x >> 200",
 "shr1": "v: uint256 = x >> 1",
 "mulM128": "v: uint256 = unsafe_mul(x & (2**128 - 1), y & (2**128 - 1))",
 "hi255": "t: uint256 = (x & 255) + 2**254\n    v: uint256 = unsafe_add(t, t)",
 "wrapneg": "v: uint256 = unsafe_sub(x & 255, 256)",
 "div3": "v: uint256 = x // 3",
}
CONS_S = {   # consumers of s: int256 (bit cast of v)
 "to_uint256": ("uint256", "convert(s, uint256)"),
 "lt0": ("bool", "s < 0"),
 "neg": ("int256", "-s"),
 "abs": ("int256", "abs(s)"),
 "div2": ("int256", "s // 2"),
 "mod7": ("int256", "s % 7"),
 "sar1": ("int256", "s >> 1"),
 "to_int128": ("int128", "convert(s, int128)"),
 "to_int8": ("int8", "convert(s, int8)"),
 "min5": ("int256", "min(s, 5)"),
 "mul2": ("int256", "s * 2"),
 "add1": ("int256", "s + 1"),
 "sub1": ("int256", "s - 1"),
}
CONS_V = {   # consumers of v: uint256
 "vaddK": ("uint256", "v + (max_value(uint256) - 9)"),
 "Ksubv": ("uint256", "20 - v"),
 "vmul": ("uint256", "v * 3"),
 "to_uint8": ("uint8", "convert(v, uint8)"),
 "to_int256": ("int256", "convert(v, int256)"),
 "vdiv3": ("uint256", "v // 3"),
}
GUARDS = {"none": None, "s<10": "s < 10", "s>-5": "s > -5", "v<10": "v < 10", "v>300": "v > 300"}
def make(prod, cons, guard):
    kind = "s" if cons in CONS_S else "v"
    rt, expr = (CONS_S if kind=="s" else CONS_V)[cons]
    zero = {"bool":"False"}.get(rt,"0")
    body = f"    {PROD[prod]}\n    s: int256 = convert(convert(v, bytes32), int256)\n"
    g = GUARDS[guard]
    if g is None: body += f"    return {expr}\n"
    else: body += f"    if {g}:\n        return {expr}\n    return {zero}\n"
    return f"@external\ndef f(x: uint256, y: uint256) -> {rt}:\n{body}"
def job(args):
    prod, cons, guard, lvl = args
    import z3
    import e2rel_templates_lib as R
    from vyper.compiler.settings import OptimizationLevel
    src = make(prod, cons, guard)
    opt = {"none":OptimizationLevel.NONE,"O2":OptimizationLevel.GAS,"O3":OptimizationLevel.O3}[lvl]
    try:
        lit = R.run_one(src, False, OptimizationLevel.GAS); vit = R.run_one(src, True, opt)
    except Exception as e:
        return (args, "SKIP", type(e).__name__+": "+str(e)[:80])
    lr,lw,lc = R.outcome_formula(lit); vr,vw,vc = R.outcome_formula(vit)
    out=[]
    for oname,f_ in (("same-status",lr==vr),("same-word",z3.Implies(z3.And(lr,vr),lw==vw))):
        s=z3.Solver(); s.set("timeout",30000); s.add(z3.Not(f_)); r=s.check()
        if r==z3.sat:
            m=s.model(); cd=lambda k: hex(m.eval(z3.Select(lit.cd,R.BV(k)),model_completion=True).as_long())
            out.append((oname,"sat","x="+cd(4)+" y="+cd(36)+" legacy_returns=%s venom_returns=%s"%(m.eval(lr,model_completion=True),m.eval(vr,model_completion=True))))
        else: out.append((oname,str(r),""))
    return (args,"OK",out)
if __name__=="__main__":
    jobs=[(p,c,g,l) for p in PROD for c in list(CONS_S)+list(CONS_V) for g in GUARDS for l in ("none","O2","O3")]
    t0=time.time(); cnt={"unsat":0,"sat":0,"unknown":0,"skip":0}
    with ProcessPoolExecutor(14) as ex:
        for (args,st,out) in ex.map(job,jobs,chunksize=4):
            if st=="SKIP": cnt["skip"]+=1; print("SKIP",args,out,flush=True); continue
            for (oname,r,info) in out:
                cnt[r]=cnt.get(r,0)+1
                if r!="unsat": print("DIFF" if r=="sat" else "UNKNOWN",args,oname,info,flush=True)
    print(cnt,"jobs",len(jobs),"wall",round(time.time()-t0,1))
