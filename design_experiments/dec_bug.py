import sys
sys.path.insert(0,'/repo')
from tests.evm_backends.revm_env import RevmEnv
from vyper.compiler.settings import Settings, OptimizationLevel
from eth_keys import keys
lo=-2**167; d=10**10
pre_floor=lo//d; pre_trunc=-((-lo)//d)
print("floor", pre_floor, "trunc", pre_trunc, "differ", pre_floor!=pre_trunc, " floor*d < lo ?", pre_floor*d < lo)
src = '''
@external
def f(x: int256) -> decimal:
    return convert(x, decimal)

@external
def g(x: int256) -> int256:
    d: decimal = convert(x, decimal)
    return convert(d, int256)
'''
for exp, opt in ((False, OptimizationLevel.GAS), (True, OptimizationLevel.NONE), (True, OptimizationLevel.GAS), (True, OptimizationLevel.O3)):
    env = RevmEnv(gas_limit=10**9, account_keys=[keys.PrivateKey(b'\x01'*32)], tracing=False, block_number=1, evm_version='cancun', exporter=None)
    c = env.deploy_source(src, output_formats=['abi','bytecode','metadata'], input_bundle=None, compiler_settings=Settings(experimental_codegen=exp, optimize=opt, enable_decimals=True))
    for fn in ("f","g"):
        for x in (pre_trunc, pre_floor):
            try:
                r = getattr(c, fn)(x)
                print("venom" if exp else "legacy", opt, fn, "x=trunc" if x==pre_trunc else "x=floor", "RETURNED", r)
            except Exception as e:
                print("venom" if exp else "legacy", opt, fn, "x=trunc" if x==pre_trunc else "x=floor", "reverted", type(e).__name__)
