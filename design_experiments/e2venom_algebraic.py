"""Per-rule instance proofs for Venom AlgebraicOptimizationPass / SCCP: snippet before vs after, all run-time values."""
import sys, time, itertools
import z3
sys.path.insert(0,'/tmp/exp')
import e2template_venom as V
from vyper.venom.parser import parse_venom
from vyper.venom.analysis import IRAnalysesCache
from vyper.venom.passes import AlgebraicOptimizationPass, SCCP, RemoveUnusedVariablesPass
from vyper.compiler.settings import Settings, OptimizationLevel, set_global_settings
set_global_settings(Settings(optimize=OptimizationLevel.GAS, evm_version="cancun", experimental_codegen=True))
M=2**256; BV=lambda v: z3.BitVecVal(v%M,256)
b2v=V.b2v
EXP=z3.Function("EXP",z3.BitVecSort(256),z3.BitVecSort(256),z3.BitVecSort(256))
def byte_op(i,x): return z3.If(z3.UGE(i,32),BV(0), z3.LShR(x,(BV(31)-i)*8)&BV(255))
def sext(b,x):
    # symbolic b supported: build ite chain
    r=x
    for k in range(31):
        bits=8*(k+1); r=z3.If(b==k, z3.SignExt(256-bits,z3.Extract(bits-1,0,x)), r)
    return r
V.OPS.update({"div":lambda x,y:z3.If(y==0,BV(0),z3.UDiv(x,y)),"sdiv":lambda x,y:z3.If(y==0,BV(0),x/y),
 "mod":lambda x,y:z3.If(y==0,BV(0),z3.URem(x,y)),"smod":lambda x,y:z3.If(y==0,BV(0),z3.SRem(x,y)),
 "exp":lambda x,y:EXP(x,y),"byte":byte_op,"signextend":sext,
 "shl":lambda s,x:z3.If(z3.UGE(s,256),BV(0),x<<s),"shr":lambda s,x:z3.If(z3.UGE(s,256),BV(0),z3.LShR(x,s)),
 "sar":lambda s,x:z3.If(z3.UGE(s,256),z3.If(x<0,BV(M-1),BV(0)),x>>s)})
# exp lemmas needed by rules (x**0, 1**x, 0**x, x**1)
xx,yy=z3.BitVecs("xx yy",256)
EXP_AX=[z3.ForAll([xx],EXP(xx,BV(0))==BV(1)), z3.ForAll([yy],EXP(BV(1),yy)==BV(1)), z3.ForAll([yy],EXP(BV(0),yy)==b2v(yy==0)), z3.ForAll([xx],EXP(xx,BV(1))==xx)]
BIN=["add","sub","mul","div","sdiv","mod","smod","exp","and","or","xor","eq","lt","gt","slt","sgt","shl","shr","sar","signextend","byte"]
LITS=[0,1,2,3,8,31,32,255,256,2**128,2**255-1,2**255,2**256-2,2**256-1]
def lit(v): return hex(v)
def snippets():
    for op in BIN:
        forms=[("%x","%y")]+[("%x",lit(k)) for k in LITS]+[(lit(k),"%x") for k in LITS]+[("%x","%x")]
        for (a,b) in forms:
            for sink in ("value","assert","iszero","jnz"):
                body=f"  %x = calldataload 0\n  %y = calldataload 32\n  %r = {op} {a}, {b}\n"
                if sink=="value": body+="  mstore 0, %r\n  return 0, 32\n"
                elif sink=="assert": body+="  assert %r\n  mstore 0, %x\n  return 0, 32\n"
                elif sink=="iszero": body+="  %s = iszero %r\n  mstore 0, %s\n  return 0, 32\n"
                else: body+="  jnz %r, @t, @f\nt:\n  mstore 0, 1\n  return 0, 32\nf:\n  revert 0, 0\n"
                yield (op,a,b,sink), "function main {\nmain:\n"+body+"}\n"
def outcome(fn):
    it=V.VInterp(fn); it.run()
    ret=z3.BoolVal(False); word=BV(0); cover=z3.BoolVal(False)
    for (p,status,data) in it.terms:
        cover=z3.Or(cover,p)
        if status=="return":
            ret=z3.Or(ret,p)
            if data: word=z3.If(p,data[0],word)
    return ret,word,cover
tot=0; sat=0; unk=0; skip=0; changed=0; t0=time.time()
only=sys.argv[1:]
for key,src in snippets():
    if only and key[0] not in only: continue
    try:
        ctx0=parse_venom(src); fn0=list(ctx0.get_functions())[0]
        ctx1=parse_venom(src); fn1=list(ctx1.get_functions())[0]
        ac=IRAnalysesCache(fn1)
        AlgebraicOptimizationPass(ac,fn1).run_pass()
        SCCP(ac,fn1).run_pass()
        AlgebraicOptimizationPass(ac,fn1).run_pass()
        if str(fn0)!=str(fn1): changed+=1
        r0,w0,c0=outcome(fn0); r1,w1,c1=outcome(fn1)
    except Exception as e:
        skip+=1; print("SKIP",key,type(e).__name__,str(e)[:80]); continue
    for oname,f_ in (("cover",z3.And(c0,c1)),("same-status",r0==r1),("same-word",z3.Implies(z3.And(r0,r1),w0==w1))):
        s=z3.Solver(); s.set("timeout",15000); s.add(*EXP_AX); s.add(z3.Not(f_)); r=s.check(); tot+=1
        if r==z3.sat:
            sat+=1; m=s.model(); print("DIFF",key,oname,flush=True); print(fn1)
        elif r!=z3.unsat: unk+=1; print("UNKNOWN",key,oname,flush=True)
print("snippets changed by passes",changed,"obligations",tot,"sat",sat,"unknown",unk,"skipped",skip,"wall",round(time.time()-t0,1))
