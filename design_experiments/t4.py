import z3, time, sys
def run(name, f, timeout=60000):
    s = z3.Solver(); s.set("timeout", timeout)
    s.add(z3.Not(f))
    t=time.time(); r=s.check(); print(name, r, round(time.time()-t,2)); sys.stdout.flush()
    if r==z3.sat: print(s.model())
    return s
M=2**256; H=2**255
def tos(u): return z3.If(u>=H, u-M, u)
def tou(s): return s % M
def tdiv(a,b):
    q = z3.If(a>=0, a, -a) / z3.If(b>=0, b, -b)
    return z3.If((a<0)!=(b<0), -q, q)
def sdiv(u,v): return z3.If(v==0, 0, tou(tdiv(tos(u),tos(v))))
x,y = z3.Ints('x y')
pre = z3.And(0<=x, x<M, 0<=y, y<M)
res = (x*y)%M
ok = z3.And(z3.Or(sdiv(res,y)==x, y==0), z3.Or(x!=H, (M-1-y)!=0))
sx, sy = tos(x), tos(y)
inrange = z3.And(-H <= sx*sy, sx*sy < H)
goal = ok==inrange
cases = {
 "pp": z3.And(x<H, y<H), "pn": z3.And(x<H, y>=H), "np": z3.And(x>=H,y<H), "nn": z3.And(x>=H,y>=H)}
for k,c in cases.items():
    run("smul256_"+k, z3.Implies(z3.And(pre,c), goal))
    s=run("smul256_val_"+k, z3.Implies(z3.And(pre,c, ok), tos(res)==sx*sy))
    if k=="pp":
        open("smul_pp.smt2","w").write(s.to_smt2())
