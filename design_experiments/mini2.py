"""Throw-away PyVC prototype, step 2: symbolic *instances of real classes* (dataclass records),
properties / methods / classmethods executed from their own source, raise-paths, None.
Target: vyper.venom.analysis.variable_range (ValueRange + evaluators)."""
import ast, inspect, textwrap, operator, time, sys, dataclasses, enum
import z3
from mini import Undecided, is_sym, as_bool, as_int, py_floordiv, py_mod, bitand_const, prove


class SymObj:
    """symbolic instance of a real class: concrete class, field map (values concrete or z3)"""

    def __init__(self, cls, fields):
        self.cls = cls
        self.fields = fields

    def __repr__(self):
        return f"<Sym {self.cls.__name__} {self.fields}>"


class Raised(Exception):
    pass


class Engine2:
    def __init__(self):
        self.obligations = []
        self.raised = []  # (pc, exception class name)
        self.sources = {}
        self.solver_time = 0

    def feasible(self, pc):
        s = z3.Solver()
        s.set("timeout", 5000)
        s.add(pc)
        return s.check() != z3.unsat

    def fn_ast(self, fn):
        src = textwrap.dedent(inspect.getsource(fn))
        self.sources[getattr(fn, "__qualname__", str(fn))] = src
        tree = ast.parse(src).body[0]
        return tree

    # ---- calls
    def call(self, fn, args, kw, pc):
        if isinstance(fn, BoundMethod):
            return self.call(fn.fn, [fn.self] + list(args), kw, pc)
        if fn is min or fn is max:
            vals = args[0] if len(args) == 1 and isinstance(args[0], (list, tuple)) else args
            if all(not is_sym(v) for v in vals):
                return [(pc, fn(*vals))]
            acc = as_int(vals[0])
            for v in vals[1:]:
                v = as_int(v)
                acc = z3.If(v < acc, v, acc) if fn is min else z3.If(v > acc, v, acc)
            return [(pc, acc)]
        if fn is abs:
            x = args[0]
            if not is_sym(x):
                return [(pc, abs(x))]
            x = as_int(x)
            return [(pc, z3.If(x >= 0, x, -x))]
        if fn is int:
            return [(pc, args[0] if not is_sym(args[0]) else as_int(args[0]))]
        if fn is isinstance:
            v, t = args
            if is_sym(v):
                return [(pc, t is int or (isinstance(t, tuple) and int in t))]
            if isinstance(v, SymObj):
                return [(pc, issubclass(v.cls, t))]
            return [(pc, isinstance(v, t))]
        if inspect.isclass(fn):
            return self.construct(fn, args, kw, pc)
        if isinstance(fn, (classmethod,)):
            raise Undecided("raw classmethod")
        if inspect.ismethod(fn):  # bound classmethod: fn.__self__ is the class
            return self.call(fn.__func__, [fn.__self__] + list(args), kw, pc)
        if not inspect.isfunction(fn):
            raise Undecided(f"call to {fn!r}")
        tree = self.fn_ast(fn)
        params = [a.arg for a in tree.args.args] + [a.arg for a in tree.args.kwonlyargs]
        defaults = tree.args.defaults
        env = {}
        npos = len(tree.args.args)
        for i, p in enumerate(params):
            if i < len(args):
                env[p] = args[i]
            elif p in kw:
                env[p] = kw[p]
            elif i < npos and i - (npos - len(defaults)) >= 0:
                env[p] = ast.literal_eval(defaults[i - (npos - len(defaults))])
            else:
                kd = tree.args.kw_defaults[i - npos]
                env[p] = ast.literal_eval(kd)
        glob = dict(fn.__globals__)
        if fn.__closure__:
            for name, cell in zip(fn.__code__.co_freevars, fn.__closure__):
                glob[name] = cell.cell_contents
        outs = []
        rest = self.exec_block(tree.body, env, glob, pc, outs)
        for (p, _e) in rest:  # fell off the end: implicit `return None`
            outs.append((p, None))
        return outs

    def construct(self, cls, args, kw, pc):
        if dataclasses.is_dataclass(cls):
            flds = dataclasses.fields(cls)
            fields = {}
            for i, f in enumerate(flds):
                if i < len(args):
                    fields[f.name] = args[i]
                elif f.name in kw:
                    fields[f.name] = kw[f.name]
                else:
                    fields[f.name] = f.default
            obj = SymObj(cls, fields)
            post = getattr(cls, "__post_init__", None)
            if post is None:
                return [(pc, obj)]
            outs = self.call(post, [obj], {}, pc)
            # __post_init__ returns None on each surviving path
            res = [(p, obj) for (p, _) in outs]
            # paths that fell off the end (implicit return None)
            return res
        raise Undecided(f"construct {cls}")

    # ---- statements
    def exec_block(self, stmts, env, glob, pc, outs):
        states = [(pc, env)]
        for st in stmts:
            nxt = []
            for (p, e) in states:
                nxt.extend(self.exec_stmt(st, e, glob, p, outs))
            states = nxt
            if not states:
                break
        return states

    def exec_fn_body_implicit_return(self, states, outs):
        for (p, e) in states:
            outs.append((p, None))

    def exec_stmt(self, st, env, glob, pc, outs):
        if isinstance(st, ast.Expr):
            if isinstance(st.value, ast.Constant):
                return [(pc, env)]
            return [(p, env) for (p, _) in self.eval(st.value, env, glob, pc)]
        if isinstance(st, ast.Return):
            if st.value is None:
                outs.append((pc, None))
                return []
            for (p, v) in self.eval(st.value, env, glob, pc):
                outs.append((p, v))
            return []
        if isinstance(st, ast.Assign):
            res = []
            for (p, v) in self.eval(st.value, env, glob, pc):
                e2 = dict(env)
                (tgt,) = st.targets
                if isinstance(tgt, ast.Name):
                    e2[tgt.id] = v
                elif isinstance(tgt, ast.Tuple):
                    for t, x in zip(tgt.elts, v):
                        e2[t.id] = x
                else:
                    raise Undecided("assign target")
                res.append((p, e2))
            return res
        if isinstance(st, ast.Assert):
            res = []
            for (p, v) in self.eval(st.test, env, glob, pc):
                if not is_sym(v):
                    if v:
                        res.append((p, env))
                    else:
                        self.obligations.append((f"assert@{st.lineno}", z3.Not(p)))
                    continue
                c = as_bool(v)
                self.obligations.append((f"assert@{st.lineno}", z3.Implies(p, c)))
                res.append((z3.And(p, c), env))
            return res
        if isinstance(st, ast.Raise):
            name = st.exc.func.id if isinstance(st.exc, ast.Call) else getattr(st.exc, "id", "?")
            self.raised.append((pc, name))
            return []
        if isinstance(st, ast.If):
            res = []
            for (p, v) in self.eval(st.test, env, glob, pc):
                if not is_sym(v):
                    res.extend(self.exec_block(st.body if v else st.orelse, dict(env), glob, p, outs))
                    continue
                c = z3.simplify(as_bool(v))
                pt, pf = z3.And(p, c), z3.And(p, z3.Not(c))
                if self.feasible(pt):
                    res.extend(self.exec_block(st.body, dict(env), glob, pt, outs))
                if self.feasible(pf):
                    res.extend(self.exec_block(st.orelse, dict(env), glob, pf, outs))
            return res
        if isinstance(st, ast.Pass):
            return [(pc, env)]
        raise Undecided(f"stmt {type(st).__name__}")

    # ---- expressions
    def eval(self, node, env, glob, pc):
        if isinstance(node, ast.Constant):
            return [(pc, node.value)]
        if isinstance(node, ast.Name):
            if node.id in env:
                return [(pc, env[node.id])]
            if node.id in glob:
                return [(pc, glob[node.id])]
            import builtins

            return [(pc, getattr(builtins, node.id))]
        if isinstance(node, ast.Attribute):
            out = []
            for (p, base) in self.eval(node.value, env, glob, pc):
                out.extend(self.getattr(base, node.attr, p))
            return out
        if isinstance(node, ast.UnaryOp):
            out = []
            for (p, v) in self.eval(node.operand, env, glob, pc):
                if isinstance(node.op, ast.USub):
                    out.append((p, -v if not is_sym(v) else -as_int(v)))
                elif isinstance(node.op, ast.Not):
                    out.append((p, (not v) if not is_sym(v) else z3.Not(as_bool(v))))
                else:
                    raise Undecided("unary")
            return out
        if isinstance(node, ast.BinOp):
            out = []
            for (p, l) in self.eval(node.left, env, glob, pc):
                for (p2, r) in self.eval(node.right, env, glob, p):
                    out.append((p2, self.binop(node.op, l, r, p2)))
            return out
        if isinstance(node, ast.Compare):
            out = []
            for (p, l) in self.eval(node.left, env, glob, pc):
                cur = [(p, l, True)]
                for op, cmpnode in zip(node.ops, node.comparators):
                    nxt = []
                    for (pp, lv, acc) in cur:
                        for (p3, rv) in self.eval(cmpnode, env, glob, pp):
                            c = self.compare(op, lv, rv)
                            if acc is True:
                                acc2 = c
                            elif acc is False or c is False:
                                acc2 = False
                            elif c is True:
                                acc2 = acc
                            else:
                                acc2 = z3.And(as_bool(acc), as_bool(c))
                            nxt.append((p3, rv, acc2))
                    cur = nxt
                out.extend((pp, acc) for (pp, _, acc) in cur)
            return out
        if isinstance(node, ast.BoolOp):
            # python short-circuit semantics, path-splitting on symbolic operands
            is_and = isinstance(node.op, ast.And)
            states = [(pc, None, False)]  # (pc, value, decided)
            for vnode in node.values:
                nxt = []
                for (p, val, done) in states:
                    if done:
                        nxt.append((p, val, True))
                        continue
                    for (p2, v) in self.eval(vnode, env, glob, p):
                        if not is_sym(v):
                            stop = (not v) if is_and else bool(v)
                            nxt.append((p2, v, stop))
                        else:
                            c = as_bool(v)
                            pstop = z3.And(p2, z3.Not(c)) if is_and else z3.And(p2, c)
                            pgo = z3.And(p2, c) if is_and else z3.And(p2, z3.Not(c))
                            if self.feasible(pstop):
                                nxt.append((pstop, (not is_and), True))
                            if self.feasible(pgo):
                                nxt.append((pgo, is_and, False))
                states = nxt
            return [(p, v) for (p, v, _) in states]
        if isinstance(node, ast.IfExp):
            out = []
            for (p, c) in self.eval(node.test, env, glob, pc):
                if not is_sym(c):
                    out.extend(self.eval(node.body if c else node.orelse, env, glob, p))
                    continue
                cb = as_bool(c)
                pt, pf = z3.And(p, cb), z3.And(p, z3.Not(cb))
                if self.feasible(pt):
                    out.extend(self.eval(node.body, env, glob, pt))
                if self.feasible(pf):
                    out.extend(self.eval(node.orelse, env, glob, pf))
            return out
        if isinstance(node, ast.Call):
            out = []
            for (p, fn) in self.eval(node.func, env, glob, pc):
                argsets = [(p, [])]
                for a in node.args:
                    nxt = []
                    for (pp, acc) in argsets:
                        for (p2, v) in self.eval(a, env, glob, pp):
                            nxt.append((p2, acc + [v]))
                    argsets = nxt
                for (pp, args) in argsets:
                    kwsets = [(pp, {})]
                    for k in node.keywords:
                        nxt = []
                        for (p3, acc) in kwsets:
                            for (p4, v) in self.eval(k.value, env, glob, p3):
                                d = dict(acc)
                                d[k.arg] = v
                                nxt.append((p4, d))
                        kwsets = nxt
                    for (p5, kw) in kwsets:
                        out.extend(self.call(fn, args, kw, p5))
            return out
        if isinstance(node, ast.Tuple):
            vals = [(pc, [])]
            for vnode in node.elts:
                nxt = []
                for (p, acc) in vals:
                    for (p2, v) in self.eval(vnode, env, glob, p):
                        nxt.append((p2, acc + [v]))
                vals = nxt
            return [(p, tuple(vs)) for (p, vs) in vals]
        if isinstance(node, ast.Set):
            vals = [self.eval(e, env, glob, pc)[0][1] for e in node.elts]
            return [(pc, set(vals))]
        raise Undecided(f"expr {type(node).__name__}")

    def getattr(self, base, name, pc):
        if isinstance(base, SymObj):
            if name in base.fields:
                return [(pc, base.fields[name])]
            attr = inspect.getattr_static(base.cls, name)
            if isinstance(attr, property):
                return self.call(attr.fget, [base], {}, pc)
            if inspect.isfunction(attr):
                return [(pc, BoundMethod(attr, base))]
            if isinstance(attr, classmethod):
                return [(pc, BoundMethod(attr.__func__, base.cls))]
            return [(pc, attr)]
        if inspect.isclass(base):
            attr = inspect.getattr_static(base, name)
            if isinstance(attr, classmethod):
                return [(pc, BoundMethod(attr.__func__, base))]
            if isinstance(attr, staticmethod):
                return [(pc, attr.__func__)]
            return [(pc, getattr(base, name))]
        return [(pc, getattr(base, name))]

    def binop(self, op, l, r, pc):
        if not is_sym(l) and not is_sym(r):
            tbl = {ast.Add: operator.add, ast.Sub: operator.sub, ast.Mult: operator.mul,
                   ast.FloorDiv: operator.floordiv, ast.Mod: operator.mod, ast.Pow: operator.pow,
                   ast.BitAnd: operator.and_, ast.BitOr: operator.or_, ast.BitXor: operator.xor,
                   ast.LShift: operator.lshift, ast.RShift: operator.rshift}
            return tbl[type(op)](l, r)
        if isinstance(op, ast.Add):
            return as_int(l) + as_int(r)
        if isinstance(op, ast.Sub):
            return as_int(l) - as_int(r)
        if isinstance(op, ast.Mult):
            return as_int(l) * as_int(r)
        if isinstance(op, ast.FloorDiv):
            self.obligations.append(("div-by-zero", z3.Implies(pc, as_int(r) != 0)))
            return py_floordiv(l, r)
        if isinstance(op, ast.Mod):
            self.obligations.append(("mod-by-zero", z3.Implies(pc, as_int(r) != 0)))
            return py_mod(l, r)
        if isinstance(op, ast.BitAnd) and not is_sym(r):
            return bitand_const(as_int(l), r)
        if isinstance(op, ast.BitAnd) and not is_sym(l):
            return bitand_const(as_int(r), l)
        if isinstance(op, ast.BitOr) and not is_sym(r) and r >= 0 and r == (1 << r.bit_length()) - 1:
            # x | (2**k-1)  ==  x - (x mod 2**k) + (2**k-1)
            return as_int(l) - py_mod(as_int(l), r + 1) + r
        if isinstance(op, ast.BitOr) and not is_sym(r) and r > 0 and (r + (r & -r)) & r == 0 and False:
            pass
        if isinstance(op, (ast.RShift,)) and not is_sym(r):
            return py_floordiv(as_int(l), 1 << r)
        if isinstance(op, (ast.LShift,)) and not is_sym(r):
            return as_int(l) * (1 << r)
        raise Undecided(f"binop {type(op).__name__} on symbolic")

    def compare(self, op, l, r):
        if isinstance(op, (ast.Is, ast.IsNot)):
            if is_sym(l) or is_sym(r):
                res = False  # a symbolic int is never None / an enum member
            else:
                res = l is r
            return res if isinstance(op, ast.Is) else (not res)
        if isinstance(op, (ast.In, ast.NotIn)):
            if is_sym(l):
                raise Undecided("sym in")
            res = l in r
            return res if isinstance(op, ast.In) else not res
        if not is_sym(l) and not is_sym(r):
            tbl = {ast.Eq: operator.eq, ast.NotEq: operator.ne, ast.Lt: operator.lt, ast.LtE: operator.le,
                   ast.Gt: operator.gt, ast.GtE: operator.ge}
            return tbl[type(op)](l, r)
        if l is None or r is None:
            if isinstance(op, ast.Eq):
                return False
            if isinstance(op, ast.NotEq):
                return True
            raise Undecided("order None")
        l, r = as_int(l), as_int(r)
        if isinstance(op, ast.Eq):
            return l == r
        if isinstance(op, ast.NotEq):
            return l != r
        if isinstance(op, ast.Lt):
            return l < r
        if isinstance(op, ast.LtE):
            return l <= r
        if isinstance(op, ast.Gt):
            return l > r
        if isinstance(op, ast.GtE):
            return l >= r
        raise Undecided("cmp")


class BoundMethod:
    def __init__(self, fn, self_):
        self.fn = fn
        self.self = self_
