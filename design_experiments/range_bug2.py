import sys
sys.path.insert(0,'/repo')
from tests.evm_backends.revm_env import RevmEnv
from vyper.compiler.settings import Settings, OptimizationLevel
from eth_keys import keys
src = '''
@external
def f(x: uint256, y: uint256) -> uint256:
    a: uint256 = x & (2**128 - 1)
    b: uint256 = y & (2**128 - 1)
    z: uint256 = unsafe_mul(a, b)
    s: int256 = convert(convert(z, bytes32), int256)
    if s < 10:
        return z + max_value(uint256) - 9
    return 0

@external
def g(x: uint256, y: uint256) -> uint256:
    a: uint256 = x & (2**128 - 1)
    b: uint256 = y & (2**128 - 1)
    z: uint256 = unsafe_mul(a, b)
    s: int256 = convert(convert(z, bytes32), int256)
    if s < 10:
        return 20 - z
    return 0
'''
for exp, opt in ((False, OptimizationLevel.GAS), (True, OptimizationLevel.NONE), (True, OptimizationLevel.GAS), (True, OptimizationLevel.CODESIZE), (True, OptimizationLevel.O3)):
    env = RevmEnv(gas_limit=10**9, account_keys=[keys.PrivateKey(b'\x01'*32)], tracing=False, block_number=1, evm_version='cancun', exporter=None)
    c = env.deploy_source(src, output_formats=['abi','bytecode','metadata'], input_bundle=None, compiler_settings=Settings(experimental_codegen=exp, optimize=opt))
    for fn in ("f","g"):
        try:
            r = getattr(c, fn)(2**128-1, 2**128-1)
            print("venom" if exp else "legacy", opt, fn, "RETURNED", r)
        except Exception as e:
            print("venom" if exp else "legacy", opt, fn, "reverted", type(e).__name__)
