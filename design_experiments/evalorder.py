import sys
sys.path.insert(0,'/repo')
from tests.evm_backends.revm_env import RevmEnv
from vyper.compiler import compile_code
from vyper.compiler.settings import Settings, OptimizationLevel
from eth_keys import keys
src = '''
log_: public(DynArray[uint256, 10])

@internal
def a() -> uint256:
    self.log_.append(1)
    return 12

@internal
def b() -> uint256:
    self.log_.append(2)
    return 10

@external
def t_and() -> uint256:
    return self.a() & self.b()

@external
def t_add() -> uint256:
    return self.a() + self.b()

@external
def t_lt() -> bool:
    return self.a() < self.b()

@external
def t_shift() -> uint256:
    return self.a() << self.b()

@external
def get() -> DynArray[uint256, 10]:
    return self.log_
'''
import inspect
for exp in (False, True):
    env = RevmEnv(gas_limit=10**9, account_keys=[keys.PrivateKey(b'\x01'*32)], tracing=False, block_number=1, evm_version='cancun', exporter=None)
    from tests.evm_backends.base_env import BaseEnv
    c = env.deploy_source(src, output_formats=['abi','bytecode','metadata'], input_bundle=None, compiler_settings=Settings(experimental_codegen=exp))
    for fn in ['t_and','t_add','t_lt','t_shift']:
        c2 = env.deploy_source(src, output_formats=['abi','bytecode','metadata'], input_bundle=None, compiler_settings=Settings(experimental_codegen=exp))
        getattr(c2, fn)()
        print('venom' if exp else 'legacy', fn, c2.get())
