import time
from vyper.codegen.arithmetic import calculate_largest_base, calculate_largest_power
from vyper.exceptions import VyperException
t0=time.time(); n=0; bad=[]
for signed in (False, True):
    for bits in range(8, 257, 8):
        vb = bits - (1 if signed else 0)
        lo_t, hi_t = (-(2**(bits-1)), 2**(bits-1)-1) if signed else (0, 2**bits-1)
        for b in range(2, vb+1):
            lo, hi = calculate_largest_base(b, bits, signed); n+=1
            ok = (hi**b <= hi_t) and ((hi+1)**b > hi_t)
            if signed:
                ok = ok and (lo**b >= lo_t if True else True) and (lo**b <= hi_t) and not (lo_t <= (lo-1)**b <= hi_t)
            else:
                ok = ok and lo == 0
            if not ok: bad.append((b,bits,signed,lo,hi))
print("largest_base calls", n, "bad", len(bad), bad[:5], round(time.time()-t0,1))
# largest_power on bases near thresholds
t0=time.time(); n=0; bad=[]
import itertools
for signed in (False, True):
    for bits in range(8, 257, 8):
        vb = bits - (1 if signed else 0)
        lo_t, hi_t = (-(2**(bits-1)), 2**(bits-1)-1) if signed else (0, 2**bits-1)
        cands=set()
        for b in range(1, vb+1):
            r = round(2**(vb/b)) if vb/b < 900 else None
            # exact integer root neighbourhood
            a = int(2**(vb/b))
            for d in range(-3,4): cands.add(a+d)
        cands |= set(range(2, 40)) | {hi_t, hi_t-1}
        for a in sorted(cands):
            for aa in ([a, -a] if signed else [a]):
                if aa in (-1,0,1) or aa > hi_t or aa < lo_t: continue
                try: p = calculate_largest_power(aa, bits, signed)
                except VyperException: continue
                n+=1
                fits = lambda v: lo_t <= v <= hi_t
                if not (fits(aa**p) and not fits(aa**(p+1)) ):
                    # for negative bases parity matters: largest p s.t. all... spec: largest p with aa**p in range AND ... 
                    bad.append((aa,bits,signed,p))
print("largest_power calls", n, "bad", len(bad), bad[:8], round(time.time()-t0,1))
