import sys, time, z3
sys.path.insert(0, '/tmp/exp/pyvc')
from mini import *
from vyper.venom.passes.sccp import eval as sccp_eval
import vyper.utils as vu

M = 2**256; H = 2**255
def u(v): return py_mod(v, M)
def tos(w): return z3.If(w >= H, w - M, w)
def tdiv(a,b):
    q = z3.If(a>=0,a,-a) / z3.If(b>=0,b,-b)
    return z3.If((a<0)!=(b<0), -q, q)
def tmod(a,b):
    r = z3.If(a>=0,a,-a) % z3.If(b>=0,b,-b)
    return z3.If(a<0, -r, r)
b2i = lambda b: z3.If(b, z3.IntVal(1), z3.IntVal(0))
SPEC2 = {
 "add": lambda a,b: (a+b)%M, "sub": lambda a,b: (a-b)%M, "mul": lambda a,b: (a*b)%M,
 "div": lambda a,b: z3.If(b==0, 0, a/b), "mod": lambda a,b: z3.If(b==0, 0, a%b),
 "sdiv": lambda a,b: z3.If(b==0, 0, tdiv(tos(a),tos(b))%M),
 "smod": lambda a,b: z3.If(b==0, 0, tmod(tos(a),tos(b))%M),
 "eq": lambda a,b: b2i(a==b), "lt": lambda a,b: b2i(a<b), "gt": lambda a,b: b2i(a>b),
 "slt": lambda a,b: b2i(tos(a)<tos(b)), "sgt": lambda a,b: b2i(tos(a)>tos(b)),
}
SPEC1 = {"iszero": lambda a: b2i(a==0), "not": lambda a: M-1-a}
SPEC3 = {"addmod": lambda a,b,n: z3.If(n==0,0,(a+b)%n), "mulmod": lambda a,b,n: z3.If(n==0,0,(a*b)%n)}

tot_ob=0; tot_ok=0; t0=time.time()
import os
ONLY=os.environ.get("ONLY","").split(",") if os.environ.get("ONLY") else None
for table, arity in ((SPEC1,1),(SPEC2,2),(SPEC3,3)):
    for op, spec in table.items():
        if ONLY and op not in ONLY: continue
        fn = sccp_eval.ARITHMETIC_OPS[op]
        vs = [z3.Int(f"v{i}") for i in range(arity)]
        pre = z3.And(*[z3.And(v >= -H, v < M) for v in vs])
        ops = [{"__record__": True, "value": v} for v in vs]
        eng = Engine()
        try:
            outs = eng.call(fn, [ops], pre)
        except Undecided as e:
            print(op, "UNDECIDED", e); continue
        # operand order: first EVM operand is ops[-1]
        words = [u(v) for v in reversed(vs)]
        expect = spec(*words)
        obs = list(eng.obligations)
        for (pc, val) in outs:
            obs.append((f"post", z3.Implies(pc, as_int(val) == expect)))
        # coverage: paths exhaustive
        obs.append(("paths-exhaustive", z3.Implies(pre, z3.Or(*[pc for pc,_ in outs]))))
        res=[]
        for name, f in obs:
            r, dt, m = prove(f)
            res.append((name, r, round(dt,2)))
            tot_ob+=1; tot_ok += (r=="unsat")
            if r=="sat": print("   CEX", op, name, m)
        print(op, f"paths={len(outs)}", res, "srcs:", sorted(eng.sources)[:6])
print("obligations", tot_ob, "discharged", tot_ok, "wall", round(time.time()-t0,1))
