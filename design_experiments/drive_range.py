import sys, time, z3, itertools
sys.path.insert(0,'/tmp/exp/pyvc')
from mini2 import *
from vyper.venom.analysis.variable_range import value_range as vr
from vyper.venom.analysis.variable_range import evaluators as ev
ValueRange, K = vr.ValueRange, vr.VRangeKind
M=2**256; H=2**255
def tos(w): return z3.If(w>=H, w-M, w)
def tdiv(a,b):
    q=z3.If(a>=0,a,-a)/z3.If(b>=0,b,-b); return z3.If((a<0)!=(b<0),-q,q)
def tmod(a,b):
    r=z3.If(a>=0,a,-a)%z3.If(b>=0,b,-b); return z3.If(a<0,-r,r)
b2i=lambda b: z3.If(b,z3.IntVal(1),z3.IntVal(0))
SPEC={"add":lambda a,b:(a+b)%M,"sub":lambda a,b:(a-b)%M,"mul":lambda a,b:(a*b)%M,
 "div":lambda a,b:z3.If(b==0,0,a/b),"mod":lambda a,b:z3.If(b==0,0,a%b),
 "sdiv":lambda a,b:z3.If(b==0,0,tdiv(tos(a),tos(b))%M),"smod":lambda a,b:z3.If(b==0,0,tmod(tos(a),tos(b))%M),
 "lt":lambda a,b:b2i(a<b),"gt":lambda a,b:b2i(a>b),"slt":lambda a,b:b2i(tos(a)<tos(b)),"sgt":lambda a,b:b2i(tos(a)>tos(b)),
 "eq":lambda a,b:b2i(a==b),"iszero":lambda a,b:b2i(a==0)}
def mk(kind, tag):
    if kind==K.IV:
        lo,hi=z3.Int(tag+"_lo"),z3.Int(tag+"_hi")
        inv=z3.And(lo>=-H, lo<=hi, hi<=M-1)
        return SymObj(ValueRange,{"_kind":kind,"_lo":lo,"_hi":hi}), inv
    return SymObj(ValueRange,{"_kind":kind,"_lo":None,"_hi":None}), z3.BoolVal(True)
def gamma(r, w):
    k=r.fields["_kind"]
    if k==K.TOP: return z3.BoolVal(True)
    if k==K.BOT: return z3.BoolVal(False)
    lo,hi=as_int(r.fields["_lo"]),as_int(r.fields["_hi"])
    return z3.Or(z3.And(lo<=w,w<=hi), z3.And(lo<=tos(w),tos(w)<=hi))
tot=0; ok=0; t0=time.time(); und=[]
only=sys.argv[1:] 
for op in (only or list(SPEC)):
    for kl,kr in itertools.product((K.TOP,K.BOT,K.IV),repeat=2):
        if op=="iszero" and kr!=K.TOP: continue
        L,invL=mk(kl,"l"); R,invR=mk(kr,"r")
        eng=Engine2()
        pre=z3.And(invL,invR)
        try:
            outs=eng.call(ev.eval_op,[op,L,R],{},pre)
        except Undecided as e:
            und.append((op,kl.name,kr.name,str(e))); continue
        a,b=z3.Ints("a b")
        inw=lambda w: z3.And(w>=0,w<M)
        res_word=SPEC[op](a,b)
        obs=list(eng.obligations)
        for (pc,name) in eng.raised: obs.append((f"no-raise[{name}]", z3.Not(pc)))
        obs.append(("paths-exhaustive", z3.Implies(pre, z3.Or(*([pc for pc,_ in outs]+[pc for pc,_ in eng.raised]+[z3.BoolVal(False)])))))
        for (pc,res) in outs:
            assert isinstance(res,SymObj), res
            # result invariant
            if res.fields["_kind"]==K.IV:
                lo,hi=as_int(res.fields["_lo"]),as_int(res.fields["_hi"])
                obs.append(("result-wellformed", z3.Implies(pc, lo<=hi)))
            obs.append(("sound", z3.Implies(z3.And(pc,inw(a),inw(b),gamma(L,a),gamma(R,b)), gamma(res,res_word))))
        for name,f in obs:
            r,dt,m=prove(f,20000); tot+=1; ok+=(r=="unsat")
            if r!="unsat": print(" ",op,kl.name,kr.name,name,r,round(dt,1),(str(m)[:300] if m is not None else ""),flush=True)
    print(op,"done",round(time.time()-t0,1),flush=True)
print("obligations",tot,"discharged",ok,"undecided-instances",und,"wall",round(time.time()-t0,1))
