import sys
sys.path.insert(0,'/repo')
from tests.evm_backends.revm_env import RevmEnv
from vyper.compiler.settings import Settings
from eth_keys import keys
src = '''
struct S:
    x: uint256
    y: uint256

flag F:
    A
    B
    C

log_: public(DynArray[uint256, 10])
m: HashMap[uint256, uint256]
arr: uint256[20]

@internal
def a() -> uint256:
    self.log_.append(1)
    return 12

@internal
def b() -> uint256:
    self.log_.append(2)
    return 10

@internal
def c() -> uint256:
    self.log_.append(3)
    return 3

@internal
def fa() -> F:
    self.log_.append(1)
    return F.A

@internal
def fb() -> F:
    self.log_.append(2)
    return F.A | F.B

@internal
def ba() -> bool:
    self.log_.append(1)
    return False

@internal
def bb() -> bool:
    self.log_.append(2)
    return True

@internal
def g(p: uint256, q: uint256, r: uint256) -> uint256:
    return p + q + r

@external
def t_eq() -> bool:
    return self.a() == self.b()

@external
def t_sub() -> uint256:
    return self.a() - self.b()

@external
def t_pow() -> uint256:
    return self.a() ** 2

@external
def t_flag_in() -> bool:
    return self.fa() in self.fb()

@external
def t_flag_and() -> F:
    return self.fa() & self.fb()

@external
def t_list_in() -> bool:
    return self.a() in [self.b(), self.c()]

@external
def t_list() -> uint256:
    x: uint256[3] = [self.a(), self.b(), self.c()]
    return x[0]

@external
def t_tuple() -> (uint256, uint256):
    return self.a(), self.b()

@external
def t_struct() -> uint256:
    s: S = S(x=self.a(), y=self.b())
    return s.x

@external
def t_selfcall() -> uint256:
    return self.g(self.a(), self.b(), self.c())

@external
def t_and_sc() -> bool:
    return self.ba() and self.bb()

@external
def t_or() -> bool:
    return self.ba() or self.bb()

@external
def t_ifexp() -> uint256:
    return self.a() if self.bb() else self.c()

@external
def t_assign_map():
    self.m[self.a()] = self.b()

@external
def t_assign_arr():
    self.arr[self.a()] = self.b()

@external
def t_augassign_arr():
    self.arr[3] += self.b() + self.a()

@external
def t_subscript() -> uint256:
    x: uint256[20] = empty(uint256[20])
    return x[self.a()] + x[self.b()]

@external
def t_minmax() -> uint256:
    return max(self.a(), self.b())

@external
def t_unsafe() -> uint256:
    return unsafe_add(self.a(), self.b())

@external
def t_shift2() -> uint256:
    return self.a() >> self.c()

@external
def t_neg_cmp() -> bool:
    return self.a() >= self.b()

@external
def get() -> DynArray[uint256, 10]:
    return self.log_
'''
import re
fns = re.findall(r"def (t_\w+)\(", src)
res = {}
for exp in (False, True):
    env = RevmEnv(gas_limit=10**9, account_keys=[keys.PrivateKey(b'\x01'*32)], tracing=False, block_number=1, evm_version='cancun', exporter=None)
    for fn in fns:
        c2 = env.deploy_source(src, output_formats=['abi','bytecode','metadata'], input_bundle=None, compiler_settings=Settings(experimental_codegen=exp))
        try:
            getattr(c2, fn)()
            res.setdefault(fn, {})[exp] = c2.get()
        except Exception as e:
            res.setdefault(fn, {})[exp] = "ERR " + type(e).__name__
for fn in fns:
    l, v = res[fn][False], res[fn][True]
    print(f"{fn:18s} legacy={l} venom={v} {'DIFF' if l!=v else ''}")
