from vyper.venom.context import IRContext
from vyper.venom.function import IRFunction
from vyper.venom.basicblock import IRLabel, IRVariable, IRLiteral
from vyper.venom.builder import VenomBuilder
from vyper.codegen_venom import arithmetic as va
from vyper.semantics.types import IntegerT, DecimalT, DArrayT, SArrayT
from vyper.semantics.types.shortcuts import UINT256_T, INT128_T
from vyper.compiler.settings import Settings, anchor_settings, OptimizationLevel
from vyper.codegen.ir_node import IRnode
from vyper.codegen import core
from vyper.evm.address_space import MEMORY, STORAGE, CALLDATA
from vyper.codegen.function_definitions.common import get_nonreentrant_lock
from vyper.semantics.types.function import StateMutability
from vyper.semantics.analysis.base import VarOffset
import types

with anchor_settings(Settings(optimize=OptimizationLevel.GAS, evm_version="cancun", experimental_codegen=True)):
    ctx = IRContext()
    fn = ctx.create_function("probe")
    b = VenomBuilder(ctx, fn)
    x = fn.get_next_variable(); y = fn.get_next_variable()
    r = va.safe_mul(b, x, y, IntegerT(True, 256))
    pass
    print("result var", r)
    for inst in fn.entry.instructions:
        print(inst.opcode, inst.operands, inst.output if inst.has_outputs else None)

with anchor_settings(Settings(optimize=OptimizationLevel.GAS, evm_version="cancun")):
    arr = IRnode("arr", typ=DArrayT(INT128_T, 7), location=MEMORY)
    ix = IRnode("ix", typ=INT128_T)
    print(core.get_element_ptr(arr, ix))
    arr = IRnode("arr", typ=SArrayT(SArrayT(UINT256_T, 3), 5), location=STORAGE)
    ix = IRnode("ix", typ=UINT256_T)
    print(core.get_element_ptr(arr, ix))
    f = types.SimpleNamespace(nonreentrant=True, mutability=StateMutability.NONPAYABLE, reentrancy_key_position=VarOffset(0))
    print(get_nonreentrant_lock(f))
    print(core.zero_pad(IRnode("buf", typ=None)))
