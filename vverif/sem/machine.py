"""Symbolic EVM machine state shared by the three denotation interpreters (legacy IR, Venom, bytecode).

Words are 256-bit z3 bit-vectors.  Memory and calldata are byte addressed.  Everything the environment decides
(calldata, call value, caller, balances, results of outgoing calls, prior storage) is an unconstrained symbol, so a
proved obligation holds for all of them.  Semantics written from the Yellow Paper (appendix H) and the EIPs named
in the comments; independent of vyper/evm/opcodes.py.
"""
import z3

from vverif import spec_evm as S
from vverif.smt import feasible

BV = S.BV
W = z3.BitVecSort(256)
B8 = z3.BitVecSort(8)
M = 2**256


def bv(v):
    return v if z3.is_expr(v) else BV(v)


def conc(e):
    """concrete value of a word expression or None"""
    if isinstance(e, int):
        return e % M
    e = z3.simplify(e)
    return e.as_long() if z3.is_bv_value(e) else None


class Unsupported(Exception):
    pass


class ByteMem:
    """byte-addressed memory as a stack of write layers over a base array (functional, copy on write):

         base      z3 array (initial contents)
         layers    older -> newer; each is  dict {concrete address: (word, byte index) | (byte, None)}   concrete stores
                                            ("word", address expr, word)                                   a 32-byte store at a symbolic address
                                            ("copy", dst expr, length expr, fn i -> byte)                 a copy of symbolic length
    A read builds an if-then-else chain over the layers (newest wins) instead of nesting array lambdas: the formulas stay
    in the bit-vector fragment plus selects on the base array, which the solvers decide far more readily."""

    __slots__ = ("base", "layers", "cw", "_arr")

    def __init__(self, base, cw=None, layers=()):
        self.base = base
        self.layers = tuple(layers)
        self.cw = cw if cw is not None else {}
        self._arr = None

    # -- helpers
    def _push(self, layer):
        ls = self.layers + ((dict(self.cw),) if self.cw else ())
        return ByteMem(self.base, {}, ls + (layer,))

    @staticmethod
    def _byte(entry):
        w, i = entry
        if i is None:
            return w
        return z3.Extract(255 - 8 * i, 248 - 8 * i, w)

    @staticmethod
    def _word_byte(word, off):
        """byte number `off` (a z3 expr, 0..31) of a 32-byte word"""
        return z3.Extract(7, 0, z3.LShR(word, (BV(31) - off) * BV(8)))

    def array(self):
        if self._arr is None:
            if not self.layers and not self.cw:
                self._arr = self.base
            else:
                k = z3.BitVec("k!mem", 256)
                self._arr = z3.Lambda([k], self.load8(k))
        return self._arr

    def load8(self, addr):
        a = conc(addr)
        if a is not None and a in self.cw:
            return self._byte(self.cw[a])
        addr = bv(addr)
        val = z3.Select(self.base, addr)
        batches = list(self.layers) + ([self.cw] if self.cw else [])
        for layer in batches:
            if isinstance(layer, dict):
                if a is not None:
                    if a in layer:
                        val = self._byte(layer[a])
                else:
                    for c, ent in layer.items():
                        val = z3.If(addr == BV(c), self._byte(ent), val)
            elif layer[0] == "word":
                _, at, word = layer
                off = addr - at
                val = z3.If(z3.ULT(off, BV(32)), self._word_byte(word, off), val)
            else:
                _, dst, length, fn = layer
                off = addr - dst
                val = z3.If(z3.And(z3.UGE(addr, dst), z3.ULT(off, length)), fn(off), val)
        return z3.simplify(val) if a is not None else val

    def load(self, addr):
        a = conc(addr)
        if a is not None and a + 32 < M:
            ents = [self.cw.get(a + i) for i in range(32)]
            if ents[0] is not None and ents[0][1] == 0 and all(e is not None and e[0] is ents[0][0] and e[1] == i for i, e in enumerate(ents)):
                return ents[0][0]
            return z3.simplify(z3.Concat(*[self.load8(BV(a + i)) for i in range(32)]))
        addr = bv(addr)
        return z3.Concat(*[self.load8(addr + BV(i)) for i in range(32)])

    def store(self, addr, word):
        word = bv(word)
        a = conc(addr)
        if a is not None and a + 32 < M:
            cw = dict(self.cw)
            for i in range(32):
                cw[a + i] = (word, i)
            return ByteMem(self.base, cw, self.layers)
        return self._push(("word", bv(addr), word))

    def store8(self, addr, byte):
        a = conc(addr)
        if a is not None:
            cw = dict(self.cw)
            cw[a] = (byte, None)
            return ByteMem(self.base, cw, self.layers)
        return self._push(("copy", bv(addr), BV(1), lambda i, byte=byte: byte))

    def copy_from(self, dst, src_fn, length, maxlen=None):
        """mem[dst+i] = src_fn(i) for i < length.  concrete length and destination -> unrolled into concrete stores;
        otherwise one copy layer (exact)."""
        n = conc(length)
        d = conc(dst)
        if n is not None and n <= 4096 and d is not None:
            cw = dict(self.cw)
            for i in range(n):
                cw[d + i] = (src_fn(BV(i)), None)
            return ByteMem(self.base, cw, self.layers)
        return self._push(("copy", bv(dst), bv(length), src_fn))


class World:
    """one symbolic machine state on one path"""

    FIELDS = ("pc", "mem", "storage", "transient", "trace", "retdata", "retsize", "env", "ncalls", "ngas", "imm", "writes")

    def __init__(self, **kw):
        for f in self.FIELDS:
            setattr(self, f, kw.get(f))

    def replace(self, **kw):
        d = {f: getattr(self, f) for f in self.FIELDS}
        d.update(kw)
        return World(**d)

    def assume(self, c):
        return self.replace(pc=z3.And(self.pc, c))


class Env:
    """symbolic inputs of a call; one instance is shared by all programs that are compared with each other"""

    def __init__(self, tag="", zero_memory=True, code=None):
        t = tag
        self.calldata = z3.Array("calldata" + t, W, B8)
        self.calldatasize = z3.BitVec("calldatasize" + t, 256)
        self.callvalue = z3.BitVec("callvalue" + t, 256)
        self.mem0 = z3.K(W, z3.BitVecVal(0, 8)) if zero_memory else z3.Array("mem0" + t, W, B8)
        self.storage0 = z3.Array("storage0" + t, W, W)
        self.transient0 = z3.Array("transient0" + t, W, W)
        self.imm0 = z3.Array("immutables" + t, W, B8)  # data section of the running code (immutables)
        self.scalars = {}
        self.snapshot_at_calls = False  # True: call/create events carry the persistent state at the moment of the call
        self.reentrancy_havoc = False  # True: persistent state after a call/create is arbitrary (callee may re-enter)
        self.code = code  # concrete bytes of the running code, when known
        self.code_tail = self.imm0  # bytes appended to the running code: immutables (run-time code) / constructor arguments (init code)
        self.code_tail_len = None  # length of that section when it matters (constructor arguments), else None
        self.assumptions = []  # facts about the environment's answers (call success flag is 0/1, created address < 2**160)
        self.tag = t
        self.extcodesize = z3.Function("extcodesize" + t, W, W)
        self.extcode = z3.Function("extcode" + t, W, z3.ArraySort(W, B8))
        self.balance = z3.Function("balance" + t, W, W)
        self.blockhash = z3.Function("blockhash" + t, W, W)
        self.extcodehash = z3.Function("extcodehash" + t, W, W)
        self.blobhash = z3.Function("blobhash" + t, W, W)

    def scalar(self, name):
        if name not in self.scalars:
            self.scalars[name] = z3.BitVec(name + self.tag, 256)
        return self.scalars[name]

    def cd_byte(self, i):
        return z3.If(z3.ULT(i, self.calldatasize), z3.Select(self.calldata, i), z3.BitVecVal(0, 8))

    def cd_word(self, off):
        o = conc(off)
        if o is not None:
            off = BV(o)
        return z3.Concat(*[self.cd_byte(off + BV(i)) for i in range(32)])

    def initial_world(self):
        return World(pc=z3.BoolVal(True), mem=ByteMem(self.mem0), storage=self.storage0, transient=self.transient0, trace=(),
                     retdata=z3.K(W, z3.BitVecVal(0, 8)), retsize=BV(0), env=self, ncalls=0, ngas=0, imm=self.imm0, writes=())


_K = z3.BitVec("k!id", 256)
_KECCAK = {}


def keccak_fn(nbytes):
    if nbytes not in _KECCAK:
        _KECCAK[nbytes] = z3.Function(f"keccak_{nbytes}", z3.BitVecSort(8 * nbytes) if nbytes else z3.BoolSort(), W)
    return _KECCAK[nbytes]


def keccak(w, off, length):
    n = conc(length)
    if n is None or n > 256:
        raise Unsupported("sha3 over a symbolic or long range")
    if n == 0:
        return keccak_fn(0)(z3.BoolVal(True))
    data = z3.Concat(*[w.mem.load8(off + BV(i)) for i in range(n)]) if n > 1 else w.mem.load8(off)
    return keccak_fn(n)(z3.simplify(data))


ENV_SCALARS = {"address", "origin", "caller", "gasprice", "coinbase", "timestamp", "number", "prevrandao", "difficulty", "gaslimit",
               "chainid", "selfbalance", "basefee", "blobbasefee", "codesize"}

PURE_OPS = set(S.ARITY)


class Halt(Exception):
    def __init__(self, status, world, data=None):
        self.status, self.world, self.data = status, world, data


def retbytes(w, off, length):
    """the byte string mem[off : off+length] as (length expr, byte function)"""
    mem = w.mem
    return {"len": bv(length), "off": bv(off), "mem": mem}


def data_byte(d, i):
    return d["mem"].load8(d["off"] + bv(i))


def data_word(d, i):
    """32-byte word at byte offset i of a return/revert payload"""
    return d["mem"].load(d["off"] + bv(i))


_MEM_RANGES = {
    "mload": lambda a: [(a[0], 32)], "mstore": lambda a: [(a[0], 32)], "mstore8": lambda a: [(a[0], 1)], "mcopy": lambda a: [(a[0], a[2]), (a[1], a[2])],
    "calldatacopy": lambda a: [(a[0], a[2])], "codecopy": lambda a: [(a[0], a[2])], "returndatacopy": lambda a: [(a[0], a[2])], "extcodecopy": lambda a: [(a[1], a[3])],
    "sha3": lambda a: [(a[0], a[1])], "keccak256": lambda a: [(a[0], a[1])], "log0": lambda a: [(a[0], a[1])], "log1": lambda a: [(a[0], a[1])], "log2": lambda a: [(a[0], a[1])],
    "log3": lambda a: [(a[0], a[1])], "log4": lambda a: [(a[0], a[1])], "call": lambda a: [(a[3], a[4]), (a[5], a[6])], "callcode": lambda a: [(a[3], a[4]), (a[5], a[6])],
    "staticcall": lambda a: [(a[2], a[3]), (a[4], a[5])], "delegatecall": lambda a: [(a[2], a[3]), (a[4], a[5])], "create": lambda a: [(a[1], a[2])], "create2": lambda a: [(a[1], a[2])],
    "return": lambda a: [(a[0], a[1])], "revert": lambda a: [(a[0], a[1])],
}
MEM_LIMIT = 2**32
# sizes the environment reports (msize, code sizes, return-data sizes) are assumed below 2**24 bytes: 16 MiB of memory already cost
# more gas (2**29) than any block provides, so sums of a few of them stay far below MEM_LIMIT and never hit the halt artificially
ENV_SIZE_BOUND = 2**24


def mem_out_of_gas(op, a):
    """condition under which the memory range(s) the operation touches lie beyond 2**32 bytes: expanding memory that far costs more
    gas than any block provides, so the operation is an exceptional halt (out of gas).  None when the operation touches no memory"""
    f = _MEM_RANGES.get(op)
    if f is None:
        return None
    conds = []
    for off, ln in f(a):
        off, ln = bv(off), bv(ln)
        c = z3.And(ln != 0, z3.Or(z3.UGE(off, BV(MEM_LIMIT)), z3.UGE(ln, BV(MEM_LIMIT))))
        c = z3.simplify(c)
        if not z3.is_false(c):
            conds.append(c)
    if not conds:
        return None
    return z3.Or(*conds) if len(conds) > 1 else conds[0]


MEM_TOUCHING = {"mload", "mstore", "mstore8", "mcopy", "calldatacopy", "codecopy", "extcodecopy", "returndatacopy", "sha3", "keccak256", "log0", "log1", "log2", "log3", "log4",
                "call", "staticcall", "delegatecall", "callcode", "create", "create2", "return", "revert"}


def exec_op(op, a, w):
    """Execute one non-control-flow operation.  `a` are the argument words in EVM stack order.
    Returns (value or None, world).  Raises Halt for terminating operations."""
    env = w.env
    if op in MEM_TOUCHING and not w.writes:
        w = w.replace(writes=("memory-touched",))
    if op == "msize" and not w.writes:
        return BV(0), w  # no memory access yet on this path: the active memory is empty
    if op in PURE_OPS:
        if op == "mul":
            # x * (c ? 1 : 0)  ==  c ? x : 0   (the `select` idiom of the legacy IR); same word, friendlier to the solver
            for i in (0, 1):
                f = a[i]
                if z3.is_expr(f) and z3.is_app_of(f, z3.Z3_OP_ITE) and z3.is_bv_value(f.arg(1)) and z3.is_bv_value(f.arg(2)) \
                        and f.arg(1).as_long() == 1 and f.arg(2).as_long() == 0:
                    return z3.If(f.arg(0), bv(a[1 - i]), BV(0)), w
        return S.bv_op(op, *a), w
    if op == "sha3" or op == "keccak256":
        return keccak(w, a[0], a[1]), w
    if op == "sha3_32":
        return keccak_fn(32)(bv(a[0])), w
    if op == "sha3_64":
        return keccak_fn(64)(z3.Concat(bv(a[0]), bv(a[1]))), w
    if op == "mload":
        return w.mem.load(a[0]), w
    if op == "mstore":
        return None, w.replace(mem=w.mem.store(a[0], a[1]))
    if op == "mstore8":
        return None, w.replace(mem=w.mem.store8(a[0], z3.Extract(7, 0, bv(a[1]))))
    if op == "mcopy":  # EIP-5656: dst, src, len; as if copied through an intermediate buffer
        old = w.mem
        return None, w.replace(mem=w.mem.copy_from(a[0], lambda i: old.load8(a[1] + i), a[2]))
    if op == "calldataload":
        return env.cd_word(a[0]), w
    if op == "calldatasize":
        return env.calldatasize, w
    if op == "calldatacopy":
        return None, w.replace(mem=w.mem.copy_from(a[0], lambda i: z3.If(z3.And(z3.UGE(a[1] + i, a[1]), z3.ULT(a[1] + i, env.calldatasize)), z3.Select(env.calldata, a[1] + i), z3.BitVecVal(0, 8)), a[2]))
    if op == "callvalue":
        return env.callvalue, w
    if op in ENV_SCALARS:
        return env.scalar(op), w
    if op == "gas":
        # remaining gas is configuration dependent: every read is a fresh unconstrained word (numbered per path)
        return z3.BitVec(f"gas!{w.ngas + 1}{env.tag}", 256), w.replace(ngas=w.ngas + 1)
    if op == "msize":
        # the highest touched memory address, rounded up to a word: not tracked exactly; it is a multiple of 32 below 2**32
        # (memory expansion cost) and at least the end of every byte this path wrote at a concrete address
        ms = z3.BitVec(f"msize!{w.ngas + 1}{env.tag}", 256)
        lo = ((max(w.mem.cw) + 32) // 32) * 32 if w.mem.cw else 0
        for fact in (z3.ULT(ms, BV(ENV_SIZE_BOUND)), ms & BV(31) == 0, z3.UGE(ms, BV(lo))):
            env.assumptions.append(fact)
        return ms, w.replace(ngas=w.ngas + 1, pc=z3.And(w.pc, z3.UGE(ms, BV(lo))))
    if op == "pc":
        raise Unsupported("pc")
    if op == "balance":
        return env.balance(a[0]), w
    if op == "extcodesize":
        sz = env.extcodesize(a[0])
        fact = z3.ULT(sz, BV(ENV_SIZE_BOUND))  # code sizes are bounded (EIP-170: 24576 bytes; any gas limit keeps them far below 2**32)
        if not any(fact.eq(x) for x in env.assumptions):
            env.assumptions.append(fact)
        return sz, w
    if op == "extcodehash":
        return env.extcodehash(a[0]), w
    if op == "blockhash":
        return env.blockhash(a[0]), w
    if op == "blobhash":
        return env.blobhash(a[0]), w
    if op == "sload":
        return z3.Select(w.storage, a[0]), w
    if op == "sstore":
        return None, w.replace(storage=z3.Store(w.storage, a[0], bv(a[1])), trace=w.trace + (("sstore", bv(a[0]), bv(a[1])),))
    if op == "tload":
        return z3.Select(w.transient, a[0]), w
    if op == "tstore":
        return None, w.replace(transient=z3.Store(w.transient, a[0], bv(a[1])), trace=w.trace + (("tstore", bv(a[0]), bv(a[1])),))
    if op == "returndatasize":
        return w.retsize, w
    if op == "returndatacopy":
        # EIP-211: reading past the end is an exceptional halt
        over = z3.Or(z3.ULT(a[1] + a[2], a[1]), z3.UGT(a[1] + a[2], w.retsize))
        rd = w.retdata
        w2 = w.replace(mem=w.mem.copy_from(a[0], lambda i: z3.Select(rd, a[1] + i), a[2]))
        return ("guard", over), w2
    if op == "extcodecopy":  # addr, dst, src, len : bytes of another account's code (unconstrained, zero past its size)
        code_of = env.extcode(a[0])
        size = env.extcodesize(a[0])
        return None, w.replace(mem=w.mem.copy_from(a[1], lambda i: z3.If(z3.And(z3.UGE(a[2] + i, a[2]), z3.ULT(a[2] + i, size)), z3.Select(code_of, a[2] + i), z3.BitVecVal(0, 8)), a[3]))
    if op == "codecopy":
        if env.code is None:
            raise Unsupported("codecopy without concrete code")
        n = conc(a[2])
        src = conc(a[1])
        if n is None or src is None:
            raise Unsupported("codecopy with symbolic source/length")
        code = env.code

        def cb(i, src=src):
            k = src + conc(i)
            return z3.BitVecVal(code[k] if k < len(code) else 0, 8)

        return None, w.replace(mem=w.mem.copy_from(a[0], cb, a[2]))
    if op.startswith("log"):
        n = int(op[3:])
        data = retbytes(w, a[0], a[1])
        return None, w.replace(trace=w.trace + (("log", tuple(bv(t) for t in a[2:2 + n]), data),))
    if op in ("call", "staticcall", "delegatecall", "callcode"):
        if op in ("call", "callcode"):
            gas, to, value, ao, al, ro, rl = a
        else:
            gas, to, ao, al, ro, rl = a
            value = BV(0)
        if conc(to) == 4 and op in ("staticcall", "call") and conc(value) in (0, None) and (op == "staticcall" or conc(value) == 0):
            # the identity precompile (address 4) returns its input (assumption A6); gas exhaustion is not modelled
            src_mem = w.mem
            n_in = bv(al)
            cnt = z3.If(z3.ULT(n_in, bv(rl)), n_in, bv(rl))
            rd = z3.Lambda([_K], src_mem.load8(bv(ao) + _K))
            w2 = w.replace(retdata=rd, retsize=n_in, mem=w.mem.copy_from(bv(ro), lambda i: src_mem.load8(bv(ao) + i), cnt))
            return BV(1), w2
        k = f"!{w.ncalls + 1}{env.tag}"  # the i-th outgoing call on this path: same adversary in every compared program
        ok = z3.If(z3.Bool("call_ok" + k), BV(1), BV(0))  # the success flag is 0 or 1 (Yellow Paper)
        rsize = z3.BitVec("call_retsize" + k, 256)
        rdata = z3.Array("call_retdata" + k, W, B8)
        # the persistent state the callee can observe is part of the event (a re-entering or reading callee sees it)
        ev = (op, bv(gas), bv(to), bv(value), retbytes(w, ao, al), {"storage": w.storage, "transient": w.transient, "pc": w.pc})
        # adversarial callee: success flag 0/1, any return data; storage may be changed by re-entrancy on `call`
        w2 = w.replace(trace=w.trace + (ev,), retdata=rdata, retsize=rsize, ncalls=w.ncalls + 1)
        if op != "staticcall" and env.reentrancy_havoc:
            # the callee may re-enter and change persistent state
            w2 = w2.replace(storage=z3.Array("storage_after_call" + k, W, W), transient=z3.Array("transient_after_call" + k, W, W))
        # copy min(rl, rsize) bytes of return data to memory
        cnt = z3.If(z3.ULT(rsize, bv(rl)), rsize, bv(rl))
        env.assumptions.append(z3.ULT(rsize, BV(ENV_SIZE_BOUND)))  # return data is produced in the callee's memory: bounded like memory
        w2 = w2.replace(mem=w2.mem.copy_from(bv(ro), lambda i: z3.Select(rdata, i), cnt), pc=z3.And(w2.pc, z3.ULT(rsize, BV(ENV_SIZE_BOUND))))
        return ok, w2
    if op in ("create", "create2"):
        k = f"!{w.ncalls + 1}{env.tag}"
        addr = z3.BitVec("created" + k, 256)
        ev = (op, bv(a[0]), retbytes(w, a[1], a[2])) + ((bv(a[3]),) if op == "create2" else ())
        if env.snapshot_at_calls:
            ev = ev + ({"storage": w.storage, "transient": w.transient, "pc": w.pc},)
        env.assumptions.append(z3.ULT(addr, BV(2**160)))
        w2 = w.replace(trace=w.trace + (ev,), retsize=z3.BitVec("create_retsize" + k, 256), retdata=z3.Array("create_retdata" + k, W, B8),
                       pc=z3.And(w.pc, z3.ULT(addr, BV(2**160))), ncalls=w.ncalls + 1)
        if env.reentrancy_havoc:
            w2 = w2.replace(storage=z3.Array("storage_after_call" + k, W, W), transient=z3.Array("transient_after_call" + k, W, W))
        return addr, w2
    if op == "return":
        raise Halt("return", w, retbytes(w, a[0], a[1]))
    if op == "revert":
        raise Halt("revert", w, retbytes(w, a[0], a[1]))
    if op == "stop":
        raise Halt("stop", w, None)
    if op == "invalid":
        raise Halt("invalid", w, None)
    if op == "selfdestruct":
        raise Halt("selfdestruct", w.replace(trace=w.trace + (("selfdestruct", bv(a[0])),)), None)
    raise Unsupported("opcode " + op)


def enumerate_values(expr, pc, limit=64, timeout_ms=20000):
    """all values `expr` can take under `pc` (for computed jumps / table reads); None if more than `limit`"""
    s = z3.Solver()
    s.set("timeout", timeout_ms)
    s.add(pc)
    vals = []
    while len(vals) <= limit:
        r = s.check()
        if r == z3.unsat:
            return vals
        if r != z3.sat:
            return None
        v = s.model().eval(expr, model_completion=True).as_long()
        vals.append(v)
        s.add(expr != v)
    return None
