"""Denotation of an assembly item list (vyper.evm.assembler.instructions objects) on the symbolic machine: like
sem/bytecode.py but before symbol resolution — a PUSHLABEL pushes an abstract label constant, a JUMP/JUMPI whose target
is a label constant continues at that label, a JUMP to any other word halts the path with status "dynjump" (the
continuation is the caller's: equal target + equal state = equal behaviour).  Used for the peephole-window contract, where
code addresses differ between the two programs compared and must therefore stay abstract."""
import z3

from vverif.sem import machine as Mx
from vverif.sem.bytecode import OP, Outcome
from vverif.sem.machine import BV, Halt, Unsupported, exec_op
from vverif.smt import feasible

NAME2OP = {name.upper(): (name, nin) for (name, nin) in OP.values()}


def label_const(name):
    return z3.BitVec("label!" + name, 256)


def label_aliases(prog):
    """labels that denote the same continuation: `LABEL x LABEL y` (adjacent) and `LABEL x PUSHLABEL y JUMP` (x only
    forwards to y).  Returns name -> canonical name.  Label values are assumed to be used only as jump targets."""
    from vyper.evm.assembler.instructions import PUSHLABEL, Label

    nxt = {}
    for i, it in enumerate(prog):
        if not isinstance(it, Label):
            continue
        j = i + 1
        if j < len(prog) and isinstance(prog[j], Label):
            nxt[it.label] = prog[j].label
        elif j + 1 < len(prog) and isinstance(prog[j], PUSHLABEL) and prog[j + 1] == "JUMP" and prog[j].label.label != it.label:
            nxt[it.label] = prog[j].label.label
    canon = {}
    for nm in nxt:
        seen = [nm]
        cur = nm
        while cur in nxt and nxt[cur] not in seen:
            cur = nxt[cur]
            seen.append(cur)
        canon[nm] = cur
    return canon


def run(prog, env, stack=None, max_steps=2000, max_paths=256, feas_ms=2000, aliases=None):
    from vyper.evm.assembler.instructions import PUSHLABEL, Label

    aliases = aliases or {}
    pos = {}
    for i, it in enumerate(prog):
        if isinstance(it, Label):
            pos[aliases.get(it.label, it.label)] = i
    lconst = {nm: label_const(nm) for nm in pos}
    w0 = env.initial_world()
    outs = []
    work = [(0, tuple(stack or ()), w0, 0)]

    def target_of(t):
        for nm, c in lconst.items():
            if z3.eq(t, c):
                return pos[nm]
        return None

    while work:
        if len(outs) + len(work) > max_paths:
            raise Unsupported("path budget exceeded")
        i, stack, w, steps = work.pop()
        stack = list(stack)
        try:
            while True:
                steps += 1
                if steps > max_steps:
                    raise Unsupported("step budget exceeded")
                if i >= len(prog):
                    raise Halt("stop", w, None)
                it = prog[i]
                if isinstance(it, Label):
                    i += 1
                    continue
                if isinstance(it, PUSHLABEL):
                    nm = aliases.get(it.label.label, it.label.label)
                    stack.append(lconst.get(nm, label_const(nm)))
                    i += 1
                    continue
                if not isinstance(it, str):
                    raise Unsupported(f"assembly item {it!r}")
                up = it.upper()
                if up.startswith("PUSH") and up != "PUSH0":
                    n = int(up[4:])
                    val = 0
                    for b in prog[i + 1: i + 1 + n]:
                        val = val * 256 + int(b)
                    stack.append(BV(val))
                    i += 1 + n
                    continue
                if up.startswith("DUP"):
                    k = int(up[3:])
                    if len(stack) < k:
                        raise Halt("invalid", w, None)
                    stack.append(stack[-k])
                    i += 1
                    continue
                if up.startswith("SWAP"):
                    k = int(up[4:])
                    if len(stack) < k + 1:
                        raise Halt("invalid", w, None)
                    stack[-1], stack[-1 - k] = stack[-1 - k], stack[-1]
                    i += 1
                    continue
                if up not in NAME2OP:
                    raise Unsupported("opcode " + up)
                name, nin = NAME2OP[up]
                if len(stack) < nin:
                    raise Halt("invalid", w, None)
                args = [stack.pop() for _ in range(nin)]
                if name == "push0":
                    stack.append(BV(0))
                    i += 1
                elif name in ("pop", "jumpdest"):
                    i += 1
                elif name in ("jump", "jumpi"):
                    tgt = args[0]
                    if name == "jumpi":
                        c = z3.simplify(args[1] != 0)
                        if z3.is_false(c):
                            i += 1
                            continue
                        if not z3.is_true(c):
                            w_f = w.assume(z3.Not(c))
                            if feasible(w_f.pc, feas_ms):
                                work.append((i + 1, tuple(stack), w_f, steps))
                            w = w.assume(c)
                            if not feasible(w.pc, feas_ms):
                                break
                    t = target_of(tgt)
                    if t is None:
                        # jump to a word that is not a label constant of this program: the continuation belongs to the context
                        stack.append(tgt)
                        raise Halt("dynjump", w, None)
                    i = t
                else:
                    # (no memory-gas halt here: the window contract compares two programs on the same machine, gas is not observable)
                    oog = None
                    if oog is not None:
                        bad = w.assume(oog)
                        if feasible(bad.pc, feas_ms):
                            outs.append(Outcome("invalid", bad, None, stack=list(stack)))
                        w = w.assume(z3.Not(oog))
                        if not feasible(w.pc, feas_ms):
                            break
                    v, w = exec_op(name, args, w)
                    if isinstance(v, tuple) and v[0] == "guard":
                        bad = w.assume(v[1])
                        if feasible(bad.pc, feas_ms):
                            outs.append(Outcome("invalid", bad, None, stack=list(stack)))
                        w = w.assume(z3.Not(v[1]))
                        if not feasible(w.pc, feas_ms):
                            break
                        v = None
                    if v is not None:
                        stack.append(v)
                    i += 1
        except Halt as h:
            outs.append(Outcome(h.status, h.world, h.data, stack=list(stack)))
    return outs
