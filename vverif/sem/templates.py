"""Template route of GenVC: one-function Vyper sources are taken through the *real* compiler (parser, semantic
analysis, the chosen code generator, optimiser, assembler) and the produced run-time bytecode is denoted by the
bytecode interpreter for ALL calldata / call values / prior state.  The contract discharged here is a contract on
`vyper.compiler.compile_code` restricted to the template family: per instance a complete proof, universally
quantified over the run-time inputs.
"""
import functools

import z3

from vverif.jobutil import discharge
from vverif.sem import bytecode as BC
from vverif.sem import machine as Mx
from vverif.sem.machine import BV, conc

CONFIGS = {
    # name: (experimental_codegen, optimize)
    "L-gas": (False, "gas"), "L-none": (False, "none"), "L-codesize": (False, "codesize"),
    "V-O2": (True, "gas"), "V-none": (True, "none"), "V-Os": (True, "codesize"), "V-O3": (True, "O3"),
}


def settings_for(cfg, evm_version="cancun", **kw):
    """cfg: a name of CONFIGS, optionally followed by modifiers  `+no:<optimisation>` (--disable-<optimisation>, Venom),
    `+inline:<n>` (inline threshold, Venom), `+debug` (debug mode)"""
    from vyper.compiler.settings import OptimizationLevel, Settings, VenomOptimizationFlags

    base, *mods = cfg.split("+")
    venom, opt = CONFIGS[base]
    level = {"gas": OptimizationLevel.GAS, "none": OptimizationLevel.NONE, "codesize": OptimizationLevel.CODESIZE, "O3": OptimizationLevel.O3}[opt]
    extra = dict(kw)
    flags = {}
    thr = None
    for m in mods:
        if m.startswith("no:"):
            flags["disable_" + m[3:]] = True
        elif m.startswith("inline:"):
            thr = int(m[7:])
        elif m == "debug":
            extra["debug"] = True
        else:
            raise ValueError(m)
    if flags or thr is not None:
        vf = VenomOptimizationFlags(level=level, **flags)
        if thr is not None:
            vf.inline_threshold = thr
        extra["venom_flags"] = vf
    return Settings(experimental_codegen=venom, optimize=level, evm_version=evm_version, enable_decimals=True, **extra)


@functools.lru_cache(maxsize=512)
def compile_runtime(src, cfg, evm_version="cancun"):
    import vyper

    out = vyper.compile_code(src, output_formats=["bytecode_runtime", "method_identifiers"], settings=settings_for(cfg, evm_version))
    return bytes.fromhex(out["bytecode_runtime"][2:]), out["method_identifiers"]


@functools.lru_cache(maxsize=512)
def compile_full(src, cfg, evm_version="cancun"):
    import vyper

    out = vyper.compile_code(src, output_formats=["bytecode", "bytecode_runtime", "method_identifiers", "abi", "layout"], settings=settings_for(cfg, evm_version))
    return out


def run_external(src, cfg, evm_version="cancun", env=None, **kw):
    code, mids = compile_runtime(src, cfg, evm_version)
    env = env or Mx.Env()
    outs = BC.run(code, env, evm_version=evm_version, **kw)
    return outs, env, mids


def selector(env):
    return z3.LShR(env.cd_word(BV(0)), 224)


def arg(env, i):
    return env.cd_word(BV(4 + 32 * i))


def is_revert(o):
    return o.status in ("revert", "invalid")


def ret_len_is(o, n):
    return o.data["len"] == BV(n)


def ret_word(o, i):
    return Mx.data_word(o.data, 32 * i)


def check_function(obs, outs, env, should_return, ret_words, timeout_ms=20000, replay=None, prefix="", extra_hyps=(), revert_data_empty=True):
    """The contract of a template whose only external function returns static words:
         returns  <=>  should_return;  the returned bytes are exactly ret_words;  every other call reverts;
         the enumerated paths are exhaustive."""
    conds = [o.pc for o in outs]
    discharge(obs, prefix + "paths-exhaustive", z3.Or(*conds) if conds else z3.BoolVal(False), hyps=list(env.assumptions), timeout_ms=timeout_ms, replay=replay)
    n_ret = 0
    for o in outs:
        if o.status == "return":
            n_ret += 1
            goal = [should_return, o.data["len"] == BV(32 * len(ret_words))]
            for i, wd in enumerate(ret_words):
                goal.append(ret_word(o, i) == wd)
            discharge(obs, prefix + "return-path-sound", z3.Implies(o.pc, z3.And(*goal)), hyps=extra_hyps, timeout_ms=timeout_ms, replay=replay)
        elif o.status in ("revert", "invalid"):
            discharge(obs, prefix + "revert-path-sound", z3.Implies(o.pc, z3.Not(should_return)), hyps=extra_hyps, timeout_ms=timeout_ms, replay=replay)
        else:
            # stop / selfdestruct: not an acceptable outcome for a value-returning template
            discharge(obs, prefix + "no-silent-stop", z3.Not(o.pc), timeout_ms=timeout_ms, replay=replay)
    return n_ret


def merged(outs):
    """(returns: Bool, reverts: Bool, data length, data word i -> expr) merged over the paths, for relational contracts"""
    ret = z3.BoolVal(False)
    rev = z3.BoolVal(False)
    for o in outs:
        if o.status == "return":
            ret = z3.Or(ret, o.pc)
        elif o.status in ("revert", "invalid"):
            rev = z3.Or(rev, o.pc)
    return ret, rev


def merged_word(outs, status, i, default=None):
    e = default if default is not None else BV(0)
    for o in outs:
        if o.status == status and o.data is not None:
            e = z3.If(o.pc, Mx.data_word(o.data, 32 * i), e)
    return e


def merged_len(outs, status):
    e = BV(0)
    for o in outs:
        if o.status == status and o.data is not None:
            e = z3.If(o.pc, o.data["len"], e)
    return e


# ------------------------------------------------------------------------------------------------ native replay
def native_call(src, cfg, calldata: bytes, value=0, evm_version="cancun", storage=None, with_logs=False):
    """run the real compiler output in pyrevm: returns ("return"|"revert", bytes)"""
    import os
    import sys

    _repo = os.environ.get("VVERIF_REPO", "/repo")
    if _repo not in sys.path:
        sys.path.insert(0, _repo)
    cwd = os.getcwd()
    os.chdir(os.environ.get("VVERIF_REPO", "/repo"))
    try:
        from eth_keys import keys
        from tests.evm_backends.revm_env import RevmEnv

        env = RevmEnv(gas_limit=10**9, account_keys=[keys.PrivateKey(b"\x01" * 32)], tracing=False, block_number=1, evm_version=evm_version, exporter=None)
        c = env.deploy_source(src, output_formats=["abi", "bytecode", "metadata"], input_bundle=None, compiler_settings=settings_for(cfg, evm_version))
        env.set_balance(env.deployer, 10**30)
        try:
            out = env.message_call(c.address, data=calldata, value=value)
            res = ("return", bytes(out))
        except Exception as e:  # revert
            res = ("revert", repr(e)[:200].encode())
        if with_logs:
            logs = []
            try:
                for lg in env.last_result.logs:
                    tl, dat = lg.data
                    logs.append(([int.from_bytes(bytes(t), "big") if not isinstance(t, int) else t for t in tl], bytes(dat)))
            except Exception:
                logs = None
            return res + (logs,)
        return res
    finally:
        os.chdir(cwd)


def calldata_from_model(model, nbytes_default=4 + 32 * 3):
    """concrete calldata bytes from a z3 model dict produced by smt.prove (needs eval_terms 'cd_<i>' words and 'cds')"""
    n = model.get("cds", nbytes_default)
    n = min(n, 1024)
    words = []
    i = 0
    out = bytearray()
    while len(out) < n:
        w = model.get(f"cdw_{i}", 0)
        out += int(w).to_bytes(32, "big")
        i += 1
    return bytes(out[:n])


def cd_eval_terms(env, nwords=5):
    """terms to evaluate in a counter-model so that the calldata can be rebuilt: 32-byte chunks from offset 0"""
    t = {"cds": env.calldatasize, "callvalue": env.callvalue}
    for i in range(nwords):
        t[f"cdw_{i}"] = z3.Concat(*[z3.Select(env.calldata, BV(32 * i + k)) for k in range(32)])
    return t


def concrete_subst(env, calldata: bytes, value=0):
    """substitution list (for z3.substitute) that fixes the symbolic call of `env` to a concrete calldata string and value"""
    arr = z3.K(Mx.W, z3.BitVecVal(0, 8))
    for i, b in enumerate(calldata):
        if b:
            arr = z3.Store(arr, BV(i), z3.BitVecVal(b, 8))
    return [(env.calldata, arr), (env.calldatasize, BV(len(calldata))), (env.callvalue, BV(value))]
