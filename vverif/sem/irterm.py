"""Denotation of *structured, memory-free* legacy IR terms (what the arithmetic / clamp / convert generators emit) and
of straight-line Venom instruction lists, as a pair (value, ok): `ok` is the conjunction of every `assert` on the way
(the term reverts iff not ok).  Two word algebras are supported with the same traversal:

   BVDom   256-bit bit-vectors (default; exact for everything)
   IntDom  integers in [0, 2**256) (for obligations dominated by mul / div, where NIA + lemma steps work and
           cross-width bit-vector division does not)

Evaluation order does not matter here because the accepted terms have no side effects other than `assert`
(order-sensitive constructs are rejected with Unsupported); effect order is the business of C08's trace contracts.
"""
import z3

from vverif import spec_evm as S
from vverif.sem.machine import Unsupported

M = S.M


class BVDom:
    name = "bv"

    def const(self, v):
        return S.BV(v)

    def op(self, name, *a):
        return S.bv_op(name, *a)

    def truthy(self, v):
        return v != 0

    def ite(self, c, a, b):
        return z3.If(c, a, b)

    def fresh(self, name):
        return z3.BitVec(name, 256)

    def wellformed(self, v):
        return z3.BoolVal(True)


class IntDom:
    name = "int"

    def __init__(self):
        self.bit = {}
        from vverif.pyvc import BITAND, BITOR, BITXOR, POWMOD256

        self.uf = {"and": BITAND, "or": BITOR, "xor": BITXOR, "exp": POWMOD256}
        self.apps = []

    def const(self, v):
        return z3.IntVal(v % M)

    def _is_bool(self, e):
        """syntactic: the term is known to be 0 or 1"""
        e = z3.simplify(e) if False else e
        if z3.is_int_value(e):
            return e.as_long() in (0, 1)
        if z3.is_app(e) and e.decl().kind() == z3.Z3_OP_ITE:
            return self._is_bool(e.arg(1)) and self._is_bool(e.arg(2))
        return e.get_id() in self.bit

    def _mark(self, e):
        self.bit[e.get_id()] = True
        return e

    def op(self, name, *a):
        a = [x if z3.is_expr(x) else z3.IntVal(x % M) for x in a]
        if name in ("and", "or") and all(self._is_bool(x) for x in a):
            r = z3.If(z3.And(a[0] != 0, a[1] != 0), z3.IntVal(1), z3.IntVal(0)) if name == "and" else z3.If(z3.Or(a[0] != 0, a[1] != 0), z3.IntVal(1), z3.IntVal(0))
            return self._mark(r)
        if name == "and":
            for x, c in ((a[0], a[1]), (a[1], a[0])):
                if z3.is_int_value(c):
                    cv = c.as_long()
                    if cv >= 0 and cv == (1 << cv.bit_length()) - 1:
                        return x % (cv + 1)
        if name in ("and", "or", "xor", "exp"):
            names = {"and": "BITAND", "or": "BITOR", "xor": "BITXOR", "exp": "POWMOD256"}
            self.apps.append((names[name], a[0], a[1]))
            return self.uf[name](a[0], a[1])
        if name in ("shl", "shr", "sar", "signextend", "byte"):
            k = z3.simplify(a[0])
            if not z3.is_int_value(k):
                raise Unsupported(name + " with a symbolic first operand in the Int domain")
            return S.zi_op(name, k.as_long(), a[1])
        r = S.zi_op(name, *a)
        if name in ("lt", "gt", "slt", "sgt", "eq", "iszero", "ne", "le", "ge", "sle", "sge"):
            self._mark(r)
        return r

    def truthy(self, v):
        return v != 0

    def ite(self, c, a, b):
        return z3.If(c, a, b)

    def fresh(self, name):
        return z3.Int(name)

    def wellformed(self, v):
        return z3.And(v >= 0, v < M)


def denote_ir(node, env, dom, depth=0):
    """returns (value or None, ok: Bool).  env: name -> value"""
    v, a = node.value, node.args
    true = z3.BoolVal(True)
    if isinstance(v, int):
        return dom.const(v), true
    if isinstance(v, str) and not a and v in env:
        return env[v], true
    if v in ("pass", "dummy"):
        return None, true
    if v == "seq":
        ok, val = true, None
        for x in a:
            val, o = denote_ir(x, env, dom)
            ok = z3.And(ok, o)
        return val, ok
    if v == "with":
        val, o1 = denote_ir(a[1], env, dom)
        env2 = dict(env)
        env2[a[0].value] = val
        r, o2 = denote_ir(a[2], env2, dom)
        return r, z3.And(o1, o2)
    if v == "assert":
        c, o = denote_ir(a[0], env, dom)
        return None, z3.And(o, dom.truthy(c))
    if v == "assert_unreachable":
        c, o = denote_ir(a[0], env, dom)
        return None, z3.And(o, dom.truthy(c))
    if v == "if":
        c, o = denote_ir(a[0], env, dom)
        t, ot = denote_ir(a[1], env, dom)
        if len(a) > 2:
            e, oe = denote_ir(a[2], env, dom)
        else:
            e, oe = None, true
        cb = dom.truthy(c)
        val = None if (t is None or e is None) else dom.ite(cb, t, e)
        return val, z3.And(o, z3.If(cb, ot, oe))
    if v == "select":
        vals, ok = [], true
        for x in a:
            xv, o = denote_ir(x, env, dom)
            vals.append(xv)
            ok = z3.And(ok, o)
        return dom.ite(dom.truthy(vals[0]), vals[1], vals[2]), ok
    if v == "ceil32":
        x, o = denote_ir(a[0], env, dom)
        return dom.op("and", dom.op("add", x, dom.const(31)), dom.op("not", dom.const(31))), o
    if isinstance(v, str) and v in S.ARITY:
        vals, ok = [], true
        for x in a:
            xv, o = denote_ir(x, env, dom)
            if xv is None:
                raise Unsupported("valueless argument to " + v)
            vals.append(xv)
            ok = z3.And(ok, o)
        if len(vals) != S.ARITY[v]:
            raise Unsupported(f"arity of {v}")
        return dom.op(v, *vals), ok
    raise Unsupported(f"IR node {v!r} in a pure term")


def denote_venom_block(insts, env, dom):
    """straight-line Venom instructions; env: variable name -> value (updated in place).  returns ok: Bool.
    Venom operand lists are reversed w.r.t. EVM order: operands[-1] is the first EVM argument."""
    from vyper.venom.basicblock import IRLiteral, IRVariable

    ok = z3.BoolVal(True)

    def val(o):
        if isinstance(o, IRLiteral):
            return dom.const(o.value)
        if isinstance(o, IRVariable):
            return env[o.name]
        raise Unsupported(f"operand {o!r}")

    for inst in insts:
        opc = inst.opcode
        if opc == "nop":
            continue
        a = [val(o) for o in reversed(inst.operands)]
        if opc == "assert":
            ok = z3.And(ok, dom.truthy(a[0]))
            continue
        if opc == "assert_unreachable":
            ok = z3.And(ok, dom.truthy(a[0]))
            continue
        if opc in ("assign", "store"):
            r = a[0]
        elif opc in S.ARITY:
            r = dom.op(opc, *a)
        else:
            raise Unsupported("venom opcode " + opc + " in a straight-line pure block")
        env[inst.output.name] = r
    return ok
