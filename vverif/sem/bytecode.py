"""Denotation of EVM bytecode: a path-enumerating symbolic interpreter over concrete code bytes.

Opcode numbering from the Yellow Paper / EIPs (independent of vyper/evm/opcodes.py).  Jump targets must be concrete
after simplification, or have finitely many values under the path condition (computed jumps through jump tables are
enumerated with the solver).  Loops are unrolled; a per-path step budget turns a non-terminating unrolling into
`Unsupported` (never into a verdict).
"""
import z3

from vverif.sem import machine as Mx
from vverif.sem.machine import BV, Halt, Unsupported, conc, exec_op
from vverif.smt import feasible

OP = {
    0x00: ("stop", 0), 0x01: ("add", 2), 0x02: ("mul", 2), 0x03: ("sub", 2), 0x04: ("div", 2), 0x05: ("sdiv", 2), 0x06: ("mod", 2),
    0x07: ("smod", 2), 0x08: ("addmod", 3), 0x09: ("mulmod", 3), 0x0A: ("exp", 2), 0x0B: ("signextend", 2),
    0x10: ("lt", 2), 0x11: ("gt", 2), 0x12: ("slt", 2), 0x13: ("sgt", 2), 0x14: ("eq", 2), 0x15: ("iszero", 1), 0x16: ("and", 2),
    0x17: ("or", 2), 0x18: ("xor", 2), 0x19: ("not", 1), 0x1A: ("byte", 2), 0x1B: ("shl", 2), 0x1C: ("shr", 2), 0x1D: ("sar", 2),
    0x20: ("sha3", 2),
    0x30: ("address", 0), 0x31: ("balance", 1), 0x32: ("origin", 0), 0x33: ("caller", 0), 0x34: ("callvalue", 0), 0x35: ("calldataload", 1),
    0x36: ("calldatasize", 0), 0x37: ("calldatacopy", 3), 0x38: ("codesize", 0), 0x39: ("codecopy", 3), 0x3A: ("gasprice", 0),
    0x3B: ("extcodesize", 1), 0x3C: ("extcodecopy", 4), 0x3D: ("returndatasize", 0), 0x3E: ("returndatacopy", 3), 0x3F: ("extcodehash", 1),
    0x40: ("blockhash", 1), 0x41: ("coinbase", 0), 0x42: ("timestamp", 0), 0x43: ("number", 0), 0x44: ("prevrandao", 0), 0x45: ("gaslimit", 0),
    0x46: ("chainid", 0), 0x47: ("selfbalance", 0), 0x48: ("basefee", 0), 0x49: ("blobhash", 1), 0x4A: ("blobbasefee", 0),
    0x50: ("pop", 1), 0x51: ("mload", 1), 0x52: ("mstore", 2), 0x53: ("mstore8", 2), 0x54: ("sload", 1), 0x55: ("sstore", 2),
    0x56: ("jump", 1), 0x57: ("jumpi", 2), 0x58: ("pc", 0), 0x59: ("msize", 0), 0x5A: ("gas", 0), 0x5B: ("jumpdest", 0),
    0x5C: ("tload", 1), 0x5D: ("tstore", 2), 0x5E: ("mcopy", 3), 0x5F: ("push0", 0),
    0xA0: ("log0", 2), 0xA1: ("log1", 3), 0xA2: ("log2", 4), 0xA3: ("log3", 5), 0xA4: ("log4", 6),
    0xF0: ("create", 3), 0xF1: ("call", 7), 0xF2: ("callcode", 7), 0xF3: ("return", 2), 0xF4: ("delegatecall", 6), 0xF5: ("create2", 4),
    0xFA: ("staticcall", 6), 0xFD: ("revert", 2), 0xFE: ("invalid", 0), 0xFF: ("selfdestruct", 1),
}


class Outcome:
    def __init__(self, status, world, data, stack=None):
        self.status, self.world, self.data = status, world, data
        self.stack = stack  # the operand stack at the halt (bottom first)

    @property
    def pc(self):
        return self.world.pc


def jumpdests(code):
    out = set()
    i = 0
    while i < len(code):
        b = code[i]
        if b == 0x5B:
            out.add(i)
        if 0x60 <= b <= 0x7F:
            i += b - 0x5F
        i += 1
    return out


def run(code, env, world=None, max_steps=20000, max_paths=4000, feas_ms=3000, start_pc=0, stack=None, evm_version="cancun"):
    """returns list of Outcome (one per feasible path)"""
    env.code = bytes(code)
    w0 = world if world is not None else env.initial_world()
    dests = jumpdests(code)
    outs = []
    work = [(start_pc, tuple(stack or ()), w0, 0)]
    while work:
        if len(outs) + len(work) > max_paths:
            raise Unsupported("path budget exceeded")
        pc, stack, w, steps = work.pop()
        stack = list(stack)
        try:
            while True:
                steps += 1
                if steps > max_steps:
                    raise Unsupported("step budget exceeded (loop?)")
                if pc >= len(code):
                    raise Halt("stop", w, None)
                b = code[pc]
                if 0x60 <= b <= 0x7F:
                    n = b - 0x5F
                    stack.append(BV(int.from_bytes(code[pc + 1: pc + 1 + n].ljust(n, b"\0"), "big")))
                    pc += 1 + n
                    continue
                if 0x80 <= b <= 0x8F:
                    stack.append(stack[-(b - 0x7F)])
                    pc += 1
                    continue
                if 0x90 <= b <= 0x9F:
                    k = b - 0x8F
                    stack[-1], stack[-1 - k] = stack[-1 - k], stack[-1]
                    pc += 1
                    continue
                if b not in OP:
                    raise Halt("invalid", w, None)
                name, nin = OP[b]
                if len(stack) < nin:
                    raise Halt("invalid", w, None)  # stack underflow is an exceptional halt
                args = [stack.pop() for _ in range(nin)]
                if name == "push0":
                    stack.append(BV(0))
                    pc += 1
                elif name == "pop":
                    pc += 1
                elif name == "jumpdest":
                    pc += 1
                elif name == "pc":
                    stack.append(BV(pc))
                    pc += 1
                elif name == "codesize":
                    tl = getattr(env, "code_tail_len", None)
                    stack.append(BV(len(code)) if tl is None else BV(len(code)) + tl)
                    pc += 1
                elif name == "codecopy":
                    oog = Mx.mem_out_of_gas(name, args)
                    if oog is not None:
                        bad = w.assume(oog)
                        if feasible(bad.pc, feas_ms):
                            outs.append(Outcome("invalid", bad, None, stack=list(stack)))
                        w = w.assume(z3.Not(oog))
                        if not feasible(w.pc, feas_ms):
                            break
                    if not w.writes:
                        w = w.replace(writes=("memory-touched",))
                    w = _codecopy(code, args, w)
                    pc += 1
                elif name in ("jump", "jumpi"):
                    tgt = args[0]
                    if name == "jumpi":
                        c = z3.simplify(args[1] != 0)
                        if z3.is_false(c):
                            pc += 1
                            continue
                        if not z3.is_true(c):
                            w_f = w.assume(z3.Not(c))
                            if feasible(w_f.pc, feas_ms):
                                work.append((pc + 1, tuple(stack), w_f, steps))
                            w = w.assume(c)
                            if not feasible(w.pc, feas_ms):
                                break
                    t = conc(tgt)
                    if t is None:
                        vals = Mx.enumerate_values(tgt, w.pc, limit=300)
                        if vals is None:
                            raise Unsupported("jump target not enumerable")
                        for v in vals[1:]:
                            w_v = w.assume(tgt == v)
                            if v in dests:
                                work.append((v, tuple(stack), w_v, steps))
                            else:
                                outs.append(Outcome("invalid", w_v, None))
                        if not vals:
                            break
                        w = w.assume(tgt == vals[0])
                        t = vals[0]
                    if t not in dests:
                        raise Halt("invalid", w, None)
                    pc = t
                else:
                    if name in ("mload", "mstore") and conc(args[0]) is None:
                        # a memory access at a symbolic address that can take only a few values under the path condition
                        # (an index into a small array): split the path per address - exact, and keeps memory concrete
                        vals = Mx.enumerate_values(args[0], w.pc, limit=8, timeout_ms=3000)
                        if vals:
                            for av in vals[1:]:
                                st2 = list(stack) + [a if k else BV(av) for k, a in reversed(list(enumerate(args)))]
                                work.append((pc, tuple(st2), w.assume(args[0] == av), steps))
                            w = w.assume(args[0] == vals[0])
                            args[0] = BV(vals[0])
                    oog = Mx.mem_out_of_gas(name, args)
                    if oog is not None:
                        bad = w.assume(oog)
                        if feasible(bad.pc, feas_ms):
                            outs.append(Outcome("invalid", bad, None, stack=list(stack)))
                        w = w.assume(z3.Not(oog))
                        if not feasible(w.pc, feas_ms):
                            break
                    v, w = exec_op(name, args, w)
                    if isinstance(v, tuple) and v[0] == "guard":
                        bad = w.assume(v[1])
                        if feasible(bad.pc, feas_ms):
                            outs.append(Outcome("invalid", bad, None))
                        w = w.assume(z3.Not(v[1]))
                        if not feasible(w.pc, feas_ms):
                            break
                        v = None
                    if v is not None:
                        stack.append(v)
                    pc += 1
        except Halt as h:
            outs.append(Outcome(h.status, h.world, h.data, stack=list(stack)))
    return outs


def _code_byte(code, k, env):
    """byte k (a Python int) of the running code: the concrete bytes, followed by the appended data section - constructor
    arguments when init code runs, immutables when run-time code runs (env.code_tail, zero past env.code_tail_len)"""
    if k < len(code):
        return z3.BitVecVal(code[k], 8)
    tail = getattr(env, "code_tail", None)
    if tail is None:
        return z3.BitVecVal(0, 8)
    j = BV(k - len(code))
    b = z3.Select(tail, j)
    tl = getattr(env, "code_tail_len", None)
    return b if tl is None else z3.If(z3.ULT(j, tl), b, z3.BitVecVal(0, 8))


def _codecopy(code, args, w):
    """codecopy with a possibly symbolic source offset: the source bytes are an ite-chain over the code (exact)"""
    dst, src, ln = args
    env = w.env
    n = conc(ln)
    if n is None:
        raise Unsupported("codecopy with symbolic length")
    s = conc(src)
    if s is not None:
        def cb(i):
            return _code_byte(code, s + conc(i), env)
    else:
        # symbolic offset (jump-table lookup): enumerate the feasible offsets
        vals = Mx.enumerate_values(src, w.pc, limit=1200)
        if vals is None:
            raise Unsupported("codecopy source offset not enumerable")

        def cb(i):
            k = conc(i)
            e = z3.BitVecVal(0, 8)
            for v in vals:
                e = z3.If(src == v, _code_byte(code, v + k, env), e)
            return e
    return w.replace(mem=w.mem.copy_from(dst, cb, ln))
