"""The Solidity contract ABI (head/tail encoding) over the value representation of vverif/spec_source.py, written from the ABI
specification (docs.soliditylang.org/en/latest/abi-spec.html), independent of vyper/abi_types.py and of both encoders.

Values:  one-word types   256-bit word in ABI representation
         T[n], struct, tuple          Python list of member values
         Bytes[N] / String[N]         Dyn("bytes", length word, z3 array index -> byte)      (bytes at index >= length unspecified)
         DynArray[T, N]               Dyn("array", length word, Python list of N element values) (elements >= length unspecified)

encode(types, values) -> Enc(length expr, byte function): the canonical encoding of the tuple (values...).
decode_calldata / decode_bytes: strict decoding of a tuple at a base offset of a byte source, returning the values and
  `ok`      what every accepted input must satisfy (lengths within bounds, scalars canonical, no address wrap-around)
  `canon`   a sufficient condition for "this is the canonical encoding of an in-range value" (offsets canonical, zero padding,
            source long enough) - inputs satisfying it must be accepted.
"""
import z3

from vverif.sem import machine as Mx
from vverif.sem.machine import BV

W = Mx.W
B8 = Mx.B8


class Dyn:
    __slots__ = ("kind", "len", "data")

    def __init__(self, kind, length, data):
        self.kind, self.len, self.data = kind, length, data


def is_dyn_value(v):
    return isinstance(v, Dyn)


# ----------------------------------------------------------------------------------------------------- type queries
def kind_of(t):
    """'word' | 'static' (composite of static members) | 'bytes' | 'array' | 'dyncomp' (composite with a dynamic member)"""
    from vyper.semantics.types import DArrayT, SArrayT, StructT, TupleT
    from vyper.semantics.types.bytestrings import _BytestringT
    from vverif.spec_source import is_word, members

    if is_word(t):
        return "word"
    if isinstance(t, _BytestringT):
        return "bytes"
    if isinstance(t, DArrayT):
        return "array"
    ms = members(t)
    if ms is None:
        raise ValueError(f"type {t}")
    return "dyncomp" if any(is_dynamic(m) for m in ms) else "static"


def is_dynamic(t):
    return kind_of(t) in ("bytes", "array", "dyncomp")


def static_words(t):
    """number of 32-byte words of the encoding of a static type"""
    from vverif.spec_source import members

    k = kind_of(t)
    if k == "word":
        return 1
    if k == "static":
        return sum(static_words(m) for m in members(t))
    raise ValueError("dynamic type has no static size")


def head_words(t):
    """words this type takes in the head of an enclosing tuple"""
    return 1 if is_dynamic(t) else static_words(t)


def bound(t):
    from vyper.semantics.types import DArrayT
    from vyper.semantics.types.bytestrings import _BytestringT

    if isinstance(t, _BytestringT):
        return t.length
    if isinstance(t, DArrayT):
        return t.count
    raise ValueError(t)


def ceil32(x):
    return (x + BV(31)) & BV(2**256 - 32)


# ----------------------------------------------------------------------------------------------------- encoding
class Enc:
    """an encoding as (length, byte function)"""

    def __init__(self, length, byte):
        self.len, self.byte = length, byte  # byte: z3 index expr -> BV8

    def as_data(self):
        k = z3.BitVec("k!enc", 256)
        arr = z3.Lambda([k], self.byte(k))
        return {"len": self.len, "off": BV(0), "mem": Mx.ByteMem(arr)}


def word_byte(w, i):
    """byte i (0..31, z3 expr) of word w, big endian"""
    sh = (BV(31) - i) * BV(8)
    return z3.Extract(7, 0, z3.LShR(w, sh))


def _select_word(words, wi):
    """words[wi] for a z3 index wi known to be < len(words)"""
    acc = words[-1]
    for j in range(len(words) - 2, -1, -1):
        acc = z3.If(wi == BV(j), words[j], acc)
    return acc


def enc_static(t, v):
    from vverif.spec_source import flatten

    ws = flatten(t, v)
    n = len(ws)

    def byte(i):
        return word_byte(_select_word(ws, z3.LShR(i, 5)), i & BV(31))

    return Enc(BV(32 * n), byte)


def enc_bytes(v):
    ln = v.len

    def byte(i):
        j = i - BV(32)
        return z3.If(z3.ULT(i, BV(32)), word_byte(ln, i), z3.If(z3.ULT(j, ln), z3.Select(v.data, j), z3.BitVecVal(0, 8)))

    return Enc(BV(32) + ceil32(ln), byte)


def enc_array(t, v):
    """DynArray[T, N]: length word, then the encoding of the tuple of its `len` elements"""
    et = t.value_type
    if is_dynamic(et):
        # elements are themselves dynamic: head of offsets + tails
        return _enc_tuple_sym([et] * len(v.data), v.data, count=v.len, prefix_len_word=v.len)
    ew = static_words(et)
    from vverif.spec_source import flatten

    ws = []
    for e in v.data:
        ws += flatten(et, e)

    def byte(i):
        j = i - BV(32)
        return z3.If(z3.ULT(i, BV(32)), word_byte(v.len, i), word_byte(_select_word(ws, z3.LShR(j, 5)), j & BV(31)) if ws else z3.BitVecVal(0, 8))

    return Enc(BV(32) + v.len * BV(32 * ew), byte)


def enc_value(t, v):
    k = kind_of(t)
    if k in ("word", "static"):
        return enc_static(t, v)
    if k == "bytes":
        return enc_bytes(v)
    if k == "array":
        return enc_array(t, v)
    from vverif.spec_source import members

    return _enc_tuple_sym(members(t), v)


def _enc_tuple_sym(types, values, count=None, prefix_len_word=None):
    """head/tail encoding of (values...).  `count` (z3 word): only the first `count` members exist (dynamic array of dynamic
    elements); prefix_len_word: a length word in front (arrays)."""
    n = len(types)
    parts = [enc_value(t, v) for t, v in zip(types, values)]
    dyn = [is_dynamic(t) for t in types]
    hw = [head_words(t) for t in types]
    if count is None:
        head_len = BV(32 * sum(hw))
        exists = [z3.BoolVal(True)] * n
    else:
        head_len = count * BV(32)  # all members dynamic, one offset word each
        exists = [z3.ULT(BV(i), count) for i in range(n)]
    # tail offsets
    offs = []
    cur = head_len
    for i in range(n):
        offs.append(cur)
        if dyn[i]:
            cur = z3.If(exists[i], cur + parts[i].len, cur)
    total = cur
    pre = BV(32) if prefix_len_word is not None else BV(0)

    def byte(i0):
        i = i0 - pre
        # head
        res = z3.BitVecVal(0, 8)
        # tails (later members checked first so that the ite chain is well nested)
        for k in range(n - 1, -1, -1):
            if dyn[k]:
                inside = z3.And(exists[k], z3.UGE(i, offs[k]), z3.ULT(i - offs[k], parts[k].len))
                res = z3.If(inside, parts[k].byte(i - offs[k]), res)
        hpos = 0
        head = z3.BitVecVal(0, 8)
        for k in range(n - 1, -1, -1):
            pass
        # head bytes
        hp = 0
        chain = res
        starts = []
        for k in range(n):
            starts.append(hp)
            hp += hw[k]
        for k in range(n - 1, -1, -1):
            lo, hi = 32 * starts[k], 32 * (starts[k] + hw[k])
            inh = z3.And(z3.UGE(i, BV(lo)), z3.ULT(i, BV(hi)), exists[k])
            if dyn[k]:
                hb = word_byte(offs[k], i - BV(lo))
            else:
                hb = parts[k].byte(i - BV(lo))
            chain = z3.If(z3.And(z3.ULT(i, head_len), inh), hb, chain)
        if prefix_len_word is not None:
            return z3.If(z3.ULT(i0, BV(32)), word_byte(prefix_len_word, i0), chain)
        return chain

    return Enc(pre + total, byte)


def encode(types, values):
    """canonical ABI encoding of the tuple (values...) of the given types"""
    if not any(is_dynamic(t) for t in types):
        from vverif.spec_source import flatten

        ws = []
        for t, v in zip(types, values):
            ws += flatten(t, v)
        if not ws:
            return Enc(BV(0), lambda i: z3.BitVecVal(0, 8))
        return Enc(BV(32 * len(ws)), lambda i: word_byte(_select_word(ws, z3.LShR(i, 5)), i & BV(31)))
    return _enc_tuple_sym(list(types), list(values))


# ----------------------------------------------------------------------------------------------------- decoding
class Src:
    """a byte source with a length: calldata, or a memory/return-data payload"""

    def __init__(self, byte, size, bounded=False):
        self.byte, self.size = byte, size  # byte(i): value of byte i, zero at and beyond size
        self.bounded = bounded  # True: a memory / return-data payload - every item must end inside it

    def word(self, off):
        return z3.Concat(*[self.byte(off + BV(j)) for j in range(32)])


def decode_tuple(types, src, base):
    """strict decoding of a tuple whose encoding starts at byte `base` of src.
    -> (values, ok, canon).  canon additionally needs `src.size >= base + <encoding length>` which the caller adds with
    the returned `end` (position after the canonical encoding)."""
    from vverif.spec_source import _leaf_types, canonical, unflatten

    vals, oks, canons = [], [], []
    head_pos = 0
    head_total = 32 * sum(head_words(t) for t in types)
    tail_cursor = BV(head_total)  # canonical position of the next tail, relative to base
    for t in types:
        if not is_dynamic(t):
            n = static_words(t)
            ws = [src.word(base + BV(head_pos + 32 * i)) for i in range(n)]
            for lt, w in zip(_leaf_types(t), ws):
                oks.append(canonical(lt, w))
            v, _ = unflatten(t, ws)
            vals.append(v)
            head_pos += 32 * n
            continue
        off = src.word(base + BV(head_pos))
        head_pos += 32
        at = base + off
        oks.append(z3.UGE(at, base))  # no wrap-around
        canons.append(off == tail_cursor)
        v, ok, canon, ln = decode_dynamic(t, src, at)
        vals.append(v)
        oks.append(ok)
        canons.append(canon)
        tail_cursor = tail_cursor + ln
    end = base + tail_cursor
    return vals, z3.And(*oks) if oks else z3.BoolVal(True), z3.And(*canons) if canons else z3.BoolVal(True), end


def decode_dynamic(t, src, at):
    """-> (value, ok, canon, canonical encoded length)"""
    from vverif.spec_source import _leaf_types, canonical, unflatten

    k = kind_of(t)
    if k == "bytes":
        ln = src.word(at)
        N = bound(t)
        idx = z3.BitVec("k!dec", 256)
        data = z3.Lambda([idx], src.byte(at + BV(32) + idx))
        # the data region [at+32, at+32+len) must not wrap around the address space (an empty region cannot)
        ok = z3.And(z3.ULE(ln, BV(N)), z3.Or(ln == 0, z3.And(z3.UGE(at + BV(32), at), z3.UGE(at + BV(32) + ln, at + BV(32)))))
        if src.bounded:  # the length word and the data lie inside the payload
            ok = z3.And(ok, z3.UGE(at + BV(32), at), z3.ULE(at + BV(32), src.size), z3.UGE(at + BV(32) + ln, at + BV(32)), z3.ULE(at + BV(32) + ln, src.size))
        # canonical: padding up to the next word boundary is zero
        pads = []
        for j in range(31):
            pos = ln + BV(j)
            pads.append(z3.Implies(z3.ULT(pos, ceil32(ln)), src.byte(at + BV(32) + pos) == 0))
        return Dyn("bytes", ln, data), ok, z3.And(*pads), BV(32) + ceil32(ln)
    if k == "array":
        et = t.value_type
        N = bound(t)
        ln = src.word(at)
        oks = [z3.ULE(ln, BV(N)), z3.Or(ln == 0, z3.And(z3.UGE(at + BV(32), at), z3.UGE(at + BV(32) + ln * BV(32 * static_words(t.value_type)), at + BV(32))))]
        if is_dynamic(et):
            raise ValueError("DynArray of dynamic elements: not in the decoder subset")
        ew = static_words(et)
        if src.bounded:
            endp = at + BV(32) + ln * BV(32 * ew)
            oks += [z3.UGE(at + BV(32), at), z3.ULE(at + BV(32), src.size), z3.UGE(endp, at + BV(32)), z3.ULE(endp, src.size)]
        elems = []
        for i in range(N):
            ws = [src.word(at + BV(32 + 32 * (i * ew + j))) for j in range(ew)]
            for lt, w in zip(_leaf_types(et), ws):
                oks.append(z3.Implies(z3.ULT(BV(i), ln), canonical(lt, w)))
            v, _ = unflatten(et, ws)
            elems.append(v)
        return Dyn("array", ln, elems), z3.And(*oks), z3.BoolVal(True), BV(32) + ln * BV(32 * ew)
    raise ValueError(f"decode of {t}")
