"""Obligation discharge: z3 first, cvc5 (python API, SMT-LIB text) on z3's unknowns.

An obligation is a z3 Bool `goal` to be proved *valid* under `hyps`.  Result statuses:
  proved   - some back end answered unsat for  hyps /\\ not goal
  refuted  - some back end answered sat; `model` holds the values of all free constants
  unknown  - every back end gave up within its budget
"""
import time
import z3

DEFAULT_TIMEOUT_MS = 20000


def _model_to_dict(m):
    out = {}
    for d in m.decls():
        if d.arity() != 0:
            continue
        v = m[d]
        try:
            if z3.is_int_value(v) or z3.is_bv_value(v):
                out[d.name()] = v.as_long()
            elif z3.is_true(v) or z3.is_false(v):
                out[d.name()] = bool(z3.is_true(v))
            else:
                out[d.name()] = str(v)[:400]
        except Exception:
            out[d.name()] = str(v)[:400]
    return out


def _cvc5_check(smt2_text, timeout_ms):
    import cvc5

    for nm in ("bvsdiv", "bvudiv", "bvsrem", "bvurem", "bvsmod"):
        # z3 prints its internal "divisor known non-zero" variants; on a non-zero divisor they are the SMT-LIB operators
        smt2_text = smt2_text.replace(nm + "_i ", nm + " ")
    slv = cvc5.Solver()
    slv.setOption("tlimit-per", str(int(timeout_ms)))
    slv.setLogic("ALL")
    p = cvc5.InputParser(slv)
    p.setStringInput(cvc5.InputLanguage.SMT_LIB_2_6, smt2_text, "q")
    sm = p.getSymbolManager()
    res = "unknown"
    while True:
        cmd = p.nextCommand()
        if cmd.isNull():
            break
        out = str(cmd.invoke(slv, sm)).strip()
        if out in ("sat", "unsat", "unknown"):
            res = out
    return res


_IS = z3.IntSort()
UMUL = z3.Function("UMUL", _IS, _IS, _IS)
UDIV = z3.Function("UDIV", _IS, _IS, _IS)
UMOD = z3.Function("UMOD", _IS, _IS, _IS)


def abstract_nonlinear(fs):
    """Replace non-linear integer subterms (x*y, x div y, x mod y with two non-numeral arguments) by applications of
    uninterpreted functions.  Validity of the abstracted formula implies validity of the original one (the real
    operations are one interpretation of the symbols), so an `unsat` on the abstraction is a proof; a `sat` is not a
    counterexample.  Instance axioms added for the abstracted subterms are true facts of integer arithmetic
    (SMT-LIB definition of div/mod; commutativity, unit, zero, sign and monotonicity of multiplication).
    Returns (abstracted formulas, instance axioms, number of abstracted subterms)."""
    cache = {}
    axioms = []
    count = [0]
    muls = {}

    def numeral(e):
        return z3.is_int_value(e)

    def mk_mul(a, b, companion=True):
        key = (a.get_id(), b.get_id())
        if key in muls:
            return muls[key]
        r = UMUL(a, b)
        if companion:
            # |a*b| = |a|*|b|
            aa, bb = z3.If(a >= 0, a, -a), z3.If(b >= 0, b, -b)
            muls[key] = r
            ra = mk_mul(aa, bb, companion=False)
            axioms.append(ra == z3.If(r >= 0, r, -r))
        muls[key] = r
        count[0] += 1
        r2 = UMUL(b, a)
        muls[(b.get_id(), a.get_id())] = r2
        axioms.append(r == r2)
        axioms.append(z3.Implies(a == 0, r == 0))
        axioms.append(z3.Implies(b == 0, r == 0))
        axioms.append(z3.Implies(a == 1, r == b))
        axioms.append(z3.Implies(b == 1, r == a))
        axioms.append(z3.Implies(a == -1, r == -b))
        axioms.append(z3.Implies(b == -1, r == -a))
        axioms.append(z3.Implies(z3.And(a > 0, b > 0), z3.And(r >= a, r >= b)))
        axioms.append(z3.Implies(z3.And(a < 0, b < 0), z3.And(r >= -a, r >= -b)))
        axioms.append(z3.Implies(z3.And(a > 0, b < 0), z3.And(r <= -a, r <= b)))
        axioms.append(z3.Implies(z3.And(a < 0, b > 0), z3.And(r <= a, r <= -b)))
        return r

    def walk(e):
        k = e.get_id()
        if k in cache:
            return cache[k]
        if not z3.is_app(e) or e.num_args() == 0:
            cache[k] = e
            return e
        args = [walk(a) for a in e.children()]
        kind = e.decl().kind()
        r = None
        if z3.is_int(e):
            if kind == z3.Z3_OP_MUL:
                non = [a for a in args if not numeral(a)]
                if len(non) >= 2:
                    acc = non[0]
                    for a in non[1:]:
                        acc = mk_mul(acc, a)
                    coef = [a for a in args if numeral(a)]
                    r = acc
                    for c in coef:
                        r = c * r
            elif kind in (z3.Z3_OP_IDIV, z3.Z3_OP_MOD) and not numeral(args[1]):
                a, b = args
                q, m = UDIV(a, b), UMOD(a, b)
                count[0] += 1
                r = q if kind == z3.Z3_OP_IDIV else m
                # SMT-LIB: b != 0  ==>  a = b * (a div b) + (a mod b)  and  0 <= a mod b < |b|
                axioms.append(z3.Implies(b != 0, a == mk_mul(b, q) + m))
                axioms.append(z3.Implies(b > 0, z3.And(m >= 0, m < b)))
                axioms.append(z3.Implies(b < 0, z3.And(m >= 0, m < -b)))
        if r is None:
            try:
                r = e.decl()(*args) if args else e
            except Exception:
                r = e
        cache[k] = r
        return r

    out = [walk(f) for f in fs]
    # monotonicity between pairs of products sharing a factor (bounded number of instances)
    items = list(muls.items())
    seen = set()
    pairs = 0
    for i, ((ia, ib), r1) in enumerate(items):
        a1, b1 = r1.arg(0), r1.arg(1)
        for ((ja, jb), r2) in items[i + 1:]:
            if pairs > 1500:
                break
            a2, b2 = r2.arg(0), r2.arg(1)
            key = tuple(sorted((r1.get_id(), r2.get_id())))
            if key in seen:
                continue
            seen.add(key)
            pairs += 1
            # 0 <= a1 <= a2 and 0 <= b1 <= b2  ==>  a1*b1 <= a2*b2   (both orientations)
            axioms.append(z3.Implies(z3.And(a1 >= 0, a1 <= a2, b1 >= 0, b1 <= b2), r1 <= r2))
            axioms.append(z3.Implies(z3.And(a2 >= 0, a2 <= a1, b2 >= 0, b2 <= b1), r2 <= r1))
            axioms.append(z3.Implies(z3.And(a1 == a2, b1 == b2), r1 == r2))
            axioms.append(z3.Implies(z3.And(a1 == -a2, b1 == -b2), r1 == r2))
            # strict monotonicity with a common positive factor: b > 0 and a1 < a2  ==>  a1*b + b <= a2*b
            axioms.append(z3.Implies(z3.And(b1 == b2, b1 > 0, a1 < a2), r1 + b1 <= r2))
            axioms.append(z3.Implies(z3.And(b1 == b2, b1 > 0, a2 < a1), r2 + b1 <= r1))
            axioms.append(z3.Implies(z3.And(a1 == a2, a1 > 0, b1 < b2), r1 + a1 <= r2))
            axioms.append(z3.Implies(z3.And(a1 == a2, a1 > 0, b2 < b1), r2 + a1 <= r1))
            axioms.append(z3.Implies(z3.And(a1 == -a2, b1 == b2), r1 == -r2))
            axioms.append(z3.Implies(z3.And(a1 == a2, b1 == -b2), r1 == -r2))
    return out, axioms, count[0]


def prove(goal, hyps=(), timeout_ms=DEFAULT_TIMEOUT_MS, use_cvc5=True, tactics=None, eval_terms=None, nl_abstraction=True):
    """returns dict(status, backend, seconds, model, size)"""
    t0 = time.time()
    if nl_abstraction:
        try:
            fs, ax, n = abstract_nonlinear(list(hyps) + [z3.Not(goal)])
        except Exception:
            n = 0
        if n:
            sa = z3.Solver()
            sa.set("timeout", int(min(timeout_ms, 5000)))
            for f in fs + ax:
                sa.add(f)
            if sa.check() == z3.unsat:
                return {"status": "proved", "backend": "z3:nl-abstraction", "seconds": round(time.time() - t0, 3), "model": None}
    s = z3.Solver()
    s.set("timeout", int(timeout_ms))
    for h in hyps:
        s.add(h)
    s.add(z3.Not(goal))
    r = s.check()
    backend = "z3"
    model = None
    if r == z3.sat:
        m = s.model()
        model = _model_to_dict(m)
        if eval_terms:
            for k, t in eval_terms.items():
                try:
                    v = m.eval(t, model_completion=True)
                    model[k] = v.as_long() if (z3.is_int_value(v) or z3.is_bv_value(v)) else str(v)[:200]
                except Exception:
                    pass
        status = "refuted"
    elif r == z3.unsat:
        status = "proved"
    else:
        status = "unknown"
        for tname in tactics or ():
            try:
                g = z3.Goal()
                for a in s.assertions():
                    g.add(a)
                tac = z3.TryFor(z3.Tactic(tname), int(timeout_ms))
                s2 = tac.solver()
                s2.set("timeout", int(timeout_ms))
                for a in s.assertions():
                    s2.add(a)
                r2 = s2.check()
                if r2 == z3.unsat:
                    status, backend = "proved", "z3:" + tname
                    break
            except Exception:
                pass
        if status == "unknown" and use_cvc5:
            try:
                txt = s.to_smt2()
                r3 = _cvc5_check(txt, timeout_ms)
                if r3 == "unsat":
                    status, backend = "proved", "cvc5"
                elif r3 == "sat":
                    # cvc5 model not extracted through the text route; ask z3 to re-find it with more time
                    s.set("timeout", int(timeout_ms) * 4)
                    if s.check() == z3.sat:
                        model = _model_to_dict(s.model())
                        status, backend = "refuted", "cvc5+z3"
                    else:
                        status, backend = "refuted", "cvc5"
                        model = {}
            except Exception as e:  # parser or option failure: stays unknown
                backend = "z3;cvc5-error:" + type(e).__name__
    return {
        "status": status,
        "backend": backend,
        "seconds": round(time.time() - t0, 3),
        "model": model,
    }


def feasible(pc, timeout_ms=3000):
    """path-feasibility filter used by the symbolic executors: only a definite unsat prunes a path"""
    if z3.is_true(pc):
        return True
    if z3.is_false(pc):
        return False
    s = z3.Solver()
    s.set("timeout", int(timeout_ms))
    s.add(pc)
    return s.check() != z3.unsat
