"""PyVC — verification-condition generation from the *live* Python source of vyper's pure kernels.

The engine takes a live function object, re-reads its source with `inspect.getsource` on every run,
parses it with `ast` and executes the AST symbolically, path by path.  Python integers are z3 `Int`s
(mathematical), booleans z3 `Bool`s, instances of real classes are `SymObj` records (class tag + field
map kept in a per-path heap), everything that is concrete stays a concrete Python value and is simply
computed.  Closures and module globals are taken from the live function object, so the text that is
verified is the text that runs.

What is dropped: annotations, docstrings, exception *messages* (only the class of a raised exception is
kept).  What is assumed: CPython 3.12 semantics for the modelled operators and builtins (cross-checked
against CPython by `vverif.selftest`), no concurrent mutation.

Anything outside the subset raises `Undecided`; it never yields a proof and never a violation.
"""
import ast
import builtins
import dataclasses
import enum
import hashlib
import inspect
import operator
import textwrap

import z3

from vverif.driver import Undecided
from vverif.smt import feasible

IntS = z3.IntSort()
BITAND = z3.Function("BITAND", IntS, IntS, IntS)
BITOR = z3.Function("BITOR", IntS, IntS, IntS)
BITXOR = z3.Function("BITXOR", IntS, IntS, IntS)
POWMOD256 = z3.Function("POWMOD256", IntS, IntS, IntS)  # pow(a, b, 2**256)
POW = z3.Function("POW", IntS, IntS, IntS)  # a ** b (b >= 0)


def is_sym(v):
    return isinstance(v, z3.ExprRef)


def as_int(v):
    if isinstance(v, bool):
        return z3.IntVal(int(v))
    if isinstance(v, int):
        return z3.IntVal(v)
    if is_sym(v):
        if z3.is_bool(v):
            return z3.If(v, z3.IntVal(1), z3.IntVal(0))
        if z3.is_int(v):
            return v
    raise Undecided("int of %r" % (v,))


def as_bool(v):
    if isinstance(v, bool):
        return z3.BoolVal(v)
    if isinstance(v, int):
        return z3.BoolVal(v != 0)
    if v is None:
        return z3.BoolVal(False)
    if is_sym(v):
        if z3.is_bool(v):
            return v
        if z3.is_int(v):
            return v != 0
    if isinstance(v, (SymObj,)):
        return z3.BoolVal(True)
    if isinstance(v, HCont):
        raise Undecided("truth value of heap container")
    if isinstance(v, (list, tuple, dict, set, str)):
        return z3.BoolVal(bool(v))
    raise Undecided("bool of %r" % (v,))


def py_floordiv(a, b):
    a, b = as_int(a), as_int(b)
    q = a / b  # SMT-LIB div: remainder non-negative
    r = a - b * q
    return z3.If(z3.And(b < 0, r != 0), q - 1, q)


def py_mod(a, b):
    a, b = as_int(a), as_int(b)
    r = a % b  # SMT-LIB mod: 0 <= r < |b|
    return z3.If(b > 0, r, z3.If(r == 0, r, r + b))


def _is_mask(c):
    return c >= 0 and c == (1 << c.bit_length()) - 1


class SymObj:
    """symbolic instance of a real class; its fields live in the path's heap"""

    _next = [0]

    def __init__(self, cls, oid=None):
        self.cls = cls
        if oid is None:
            SymObj._next[0] += 1
            oid = SymObj._next[0]
        self.oid = oid

    def __repr__(self):
        return f"<Sym {self.cls.__name__}#{self.oid}>"


class HCont:
    """a mutable dict or list whose contents live in the per-path heap (so that in-place updates made on one
    path are invisible on the others).  heap[oid] = {"__data__": <python dict/list, never mutated in place>}"""

    def __init__(self, kind, oid=None):
        self.kind = kind  # dict or list
        if oid is None:
            SymObj._next[0] += 1
            oid = SymObj._next[0]
        self.oid = oid

    def __repr__(self):
        return f"<H{self.kind.__name__}#{self.oid}>"


class ContMethod:
    def __init__(self, cont, name):
        self.cont, self.name = cont, name


class Closure:
    def __init__(self, tree, glob, env, qual):
        self.tree, self.glob, self.env, self.qual = tree, glob, env, qual


class BoundMethod:
    def __init__(self, fn, self_):
        self.fn, self.self = fn, self_


class St:
    """path state: path condition + heap (oid -> field dict).  Treated as immutable; updates copy."""

    __slots__ = ("pc", "heap")

    def __init__(self, pc, heap=None):
        self.pc = pc
        self.heap = heap if heap is not None else {}

    def assume(self, c):
        return St(z3.And(self.pc, c) if not z3.is_true(self.pc) else c, self.heap)

    def setfield(self, oid, name, val):
        h = dict(self.heap)
        f = dict(h.get(oid, {}))
        f[name] = val
        h[oid] = f
        return St(self.pc, h)


def has_sym(v, depth=0):
    if is_sym(v) or isinstance(v, (SymObj, Closure, BoundMethod, HCont, ContMethod)):
        return True
    if depth > 4:
        return False
    if isinstance(v, (list, tuple, set, frozenset)):
        return any(has_sym(x, depth + 1) for x in v)
    if isinstance(v, dict):
        return any(has_sym(x, depth + 1) for x in v.values())
    return False


def clone(v, memo):
    """copy mutable containers so that forked paths do not share them"""
    if isinstance(v, list):
        k = id(v)
        if k not in memo:
            memo[k] = n = []
            n.extend(clone(x, memo) for x in v)
        return memo[k]
    if isinstance(v, dict):
        k = id(v)
        if k not in memo:
            memo[k] = n = {}
            for a, b in v.items():
                n[a] = clone(b, memo)
        return memo[k]
    return v


class Outcome:
    def __init__(self):
        self.returns = []  # (St, value)
        self.raises = []  # (St, exception class name)


class Engine:
    def __init__(self, asserts="prove", feas_ms=3000, max_inline_depth=12):
        self.asserts = asserts  # "prove": in-code asserts are obligations; "raise": AssertionError paths
        self.obligations = []  # (clause, formula valid-to-prove)
        self.sources = {}  # qualname -> sha of the source text read
        self.stubs = {_bit_length: _bit_length_stub}  # function object -> callable(engine, args, kw, st) -> [(st, value)]
        self.symbolic_classes = set()
        self.feas_ms = feas_ms
        self.depth = 0
        self.max_inline_depth = max_inline_depth
        self.raised = []  # (St, exc name) of the outermost call
        self.bitop_apps = []  # applications of uninterpreted bit functions (for lemma instantiation)
        self.loop_invariants = {}  # (qualname, ordinal) -> callable(engine, env, st) -> z3 Bool
        self.native_ok = set()  # callables that may be executed natively on concrete arguments
        self.max_unroll = 40

    # ------------------------------------------------------------------ helpers
    def feasible(self, st):
        return feasible(st.pc, self.feas_ms)

    def oblige(self, clause, st, cond):
        self.obligations.append((clause, z3.Implies(st.pc, cond)))

    def fn_ast(self, fn):
        try:
            src = textwrap.dedent(inspect.getsource(fn))
        except (OSError, TypeError) as e:
            raise Undecided(f"no source for {fn!r}: {e}")
        qual = getattr(fn, "__module__", "?") + ":" + getattr(fn, "__qualname__", str(fn))
        self.sources[qual] = hashlib.sha256(src.encode()).hexdigest()[:16]
        tree = ast.parse(src).body[0]
        if isinstance(tree, (ast.FunctionDef,)):
            return tree
        # lambda bound in an assignment / dict literal: find the Lambda node at the code object's position
        lams = [n for n in ast.walk(tree) if isinstance(n, ast.Lambda)]
        if fn.__name__ == "<lambda>" and lams:
            if len(lams) == 1:
                return lams[0]
            want = fn.__code__.co_varnames[: fn.__code__.co_argcount]
            cands = [l for l in lams if tuple(a.arg for a in l.args.args) == tuple(want)]
            if len(cands) == 1:
                return cands[0]
        raise Undecided(f"cannot locate source of {qual}")

    def new_obj(self, cls, fields, st):
        o = SymObj(cls)
        h = dict(st.heap)
        h[o.oid] = dict(fields)
        return o, St(st.pc, h)

    def fields(self, o, st):
        return st.heap.get(o.oid, {})

    def new_cont(self, pyobj, st):
        c = HCont(dict if isinstance(pyobj, dict) else list)
        h = dict(st.heap)
        h[c.oid] = {"__data__": dict(pyobj) if isinstance(pyobj, dict) else list(pyobj)}
        return c, St(st.pc, h)

    def data(self, c, st):
        return st.heap[c.oid]["__data__"]

    def cont_call(self, cm, args, kw, st):
        c, name = cm.cont, cm.name
        d = self.data(c, st)
        if any(is_sym(a) for a in args[:1]) and c.kind is dict:
            raise Undecided("symbolic dict key")
        upd = lambda nd: st.setfield(c.oid, "__data__", nd)
        if c.kind is dict:
            if name == "get":
                return [(st, d.get(args[0], args[1] if len(args) > 1 else None))]
            if name == "pop":
                if args[0] in d:
                    nd = dict(d)
                    v = nd.pop(args[0])
                    return [(upd(nd), v)]
                if len(args) > 1:
                    return [(st, args[1])]
                return self.do_raise("KeyError", st)
            if name in ("items", "keys", "values"):
                return [(st, list(getattr(d, name)()))]
            if name == "copy":
                nc, st2 = self.new_cont(d, st)
                return [(st2, nc)]
            if name == "setdefault":
                if args[0] in d:
                    return [(st, d[args[0]])]
                nd = dict(d)
                nd[args[0]] = args[1] if len(args) > 1 else None
                return [(upd(nd), nd[args[0]])]
            if name == "update":
                nd = dict(d)
                src = args[0]
                nd.update(self.data(src, st) if isinstance(src, HCont) else src)
                return [(upd(nd), None)]
            if name == "clear":
                return [(upd({}), None)]
        else:
            if name == "append":
                return [(upd(d + [args[0]]), None)]
            if name == "extend":
                src = args[0]
                return [(upd(d + list(self.data(src, st) if isinstance(src, HCont) else src)), None)]
            if name == "pop":
                if not d:
                    return self.do_raise("IndexError", st)
                i = args[0] if args else -1
                nd = list(d)
                v = nd.pop(i)
                return [(upd(nd), v)]
            if name == "copy":
                nc, st2 = self.new_cont(d, st)
                return [(st2, nc)]
            if name == "insert":
                nd = list(d)
                nd.insert(args[0], args[1])
                return [(upd(nd), None)]
            if name == "clear":
                return [(upd([]), None)]
            if name == "index":
                return [(st, d.index(args[0]))]
        raise Undecided(f"container method {c.kind.__name__}.{name}")

    # ------------------------------------------------------------------ calls
    def run(self, fn, args, kw=None, pre=None, heap=None):
        """top-level entry: returns Outcome"""
        st = St(pre if pre is not None else z3.BoolVal(True), heap)
        out = Outcome()
        self._raise_sink = out.raises
        for (s, v) in self.call(fn, list(args), dict(kw or {}), st):
            out.returns.append((s, v))
        return out

    def call(self, fn, args, kw, st):
        if isinstance(fn, BoundMethod):
            return self.call(fn.fn, [fn.self] + list(args), kw, st)
        if inspect.ismethod(fn) and not has_sym(args) and not has_sym(kw) and not has_sym(fn.__self__):
            pass  # fall through to native below
        elif inspect.ismethod(fn):
            return self.call(fn.__func__, [fn.__self__] + list(args), kw, st)
        if isinstance(fn, Closure):
            return self.call_tree(fn.tree, fn.glob, fn.env, args, kw, st, fn.qual)
        if isinstance(fn, ContMethod):
            return self.cont_call(fn, args, kw, st)
        if fn in (dict, list, tuple, set, sorted, len, bool, reversed, enumerate) and args and isinstance(args[0], HCont):
            d = self.data(args[0], st)
            if fn in (dict, list) and fn is args[0].kind:
                nc, st2 = self.new_cont(d, st)
                return [(st2, nc)]
            if fn is sorted and (kw or has_sym(list(d))):
                raise Undecided("sorted on symbolic container")
            v = fn(d)
            if fn in (reversed, enumerate):
                v = list(v)
            return [(st, v)]
        try:
            if fn in self.stubs:
                return self.stubs[fn](self, args, kw, st)
        except TypeError:
            pass
        r = self.builtin(fn, args, kw, st)
        if r is not None:
            return r
        if inspect.isclass(fn):
            if not has_sym(args) and not has_sym(kw) and fn not in self.symbolic_classes:
                return [(st, fn(*args, **kw))]
            return self.construct(fn, args, kw, st)
        if not has_sym(args) and not has_sym(kw) and callable(fn):
            # nothing symbolic flows in: execute natively (concrete partial evaluation)
            try:
                return [(st, fn(*args, **kw))]
            except AssertionError:
                return self.do_raise("AssertionError", st)
            except Exception as e:  # a concrete raise on this path
                return self.do_raise(type(e).__name__, st)
        if isinstance(fn, property):
            return self.call(fn.fget, args, kw, st)
        if hasattr(fn, "__wrapped__") and inspect.isfunction(fn.__wrapped__):
            fn = fn.__wrapped__
        if not inspect.isfunction(fn):
            raise Undecided(f"call to {fn!r} with symbolic arguments")
        tree = self.fn_ast(fn)
        glob = fn.__globals__
        cl = {}
        if fn.__closure__:
            for name, cell in zip(fn.__code__.co_freevars, fn.__closure__):
                try:
                    cl[name] = cell.cell_contents
                except ValueError:
                    pass
        return self.call_tree(tree, glob, cl, args, kw, st, fn.__qualname__)

    def call_tree(self, tree, glob, outer_env, args, kw, st, qual):
        if self.depth > self.max_inline_depth:
            raise Undecided("inline depth exceeded at " + qual)
        a = tree.args
        params = [p.arg for p in a.posonlyargs + a.args]
        env = dict(outer_env)
        env["__qual__"] = qual
        args = list(args)
        kw = dict(kw)
        ndef = len(a.defaults)
        for i, p in enumerate(params):
            if i < len(args):
                env[p] = args[i]
            elif p in kw:
                env[p] = kw.pop(p)
            else:
                di = i - (len(params) - ndef)
                if di < 0:
                    raise Undecided(f"missing argument {p} in call to {qual}")
                env[p] = self.eval_concrete_default(a.defaults[di], glob, outer_env)
        if a.vararg:
            env[a.vararg.arg] = tuple(args[len(params):])
        elif len(args) > len(params):
            raise Undecided(f"too many arguments to {qual}")
        for p, d in zip(a.kwonlyargs, a.kw_defaults):
            if p.arg in kw:
                env[p.arg] = kw.pop(p.arg)
            elif d is not None:
                env[p.arg] = self.eval_concrete_default(d, glob, outer_env)
            else:
                raise Undecided(f"missing kw-only argument {p.arg}")
        if a.kwarg:
            env[a.kwarg.arg] = kw
        elif kw:
            raise Undecided(f"unexpected keyword {list(kw)} to {qual}")
        self.depth += 1
        try:
            if isinstance(tree, ast.Lambda):
                return self.eval(tree.body, env, glob, st)
            outs = []
            rest = self.exec_block(tree.body, env, glob, st, outs, [0])
            for (s, _e) in rest:
                outs.append((s, None))
            return outs
        finally:
            self.depth -= 1

    def eval_concrete_default(self, node, glob, env):
        r = self.eval(node, env, glob, St(z3.BoolVal(True)))
        return r[0][1]

    def do_raise(self, name, st):
        self._raise_sink.append((st, name))
        return []

    def construct(self, cls, args, kw, st):
        if issubclass(cls, BaseException):
            return [(st, ("<exc>", cls.__name__))]
        if dataclasses.is_dataclass(cls):
            flds = [f for f in dataclasses.fields(cls) if f.init]
            fields = {}
            for i, f in enumerate(flds):
                if i < len(args):
                    fields[f.name] = args[i]
                elif f.name in kw:
                    fields[f.name] = kw[f.name]
                elif f.default is not dataclasses.MISSING:
                    fields[f.name] = f.default
                elif f.default_factory is not dataclasses.MISSING:
                    fields[f.name] = f.default_factory()
                else:
                    raise Undecided(f"missing field {f.name} for {cls.__name__}")
            obj, st = self.new_obj(cls, fields, st)
            post = getattr(cls, "__post_init__", None)
            if post is None:
                return [(st, obj)]
            return [(s, obj) for (s, _) in self.call(post, [obj], {}, st)]
        init = inspect.getattr_static(cls, "__init__", None)
        if inspect.isfunction(init):
            obj, st = self.new_obj(cls, {}, st)
            return [(s, obj) for (s, _) in self.call(init, [obj] + list(args), kw, st)]
        raise Undecided(f"construct {cls}")

    def builtin(self, fn, args, kw, st):
        sym = has_sym(args) or has_sym(kw)
        if fn is min or fn is max:
            vals = args[0] if len(args) == 1 and isinstance(args[0], (list, tuple)) else args
            if not has_sym(list(vals)):
                return [(st, fn(*vals))]
            acc = as_int(vals[0])
            for v in vals[1:]:
                v = as_int(v)
                acc = z3.If(v < acc, v, acc) if fn is min else z3.If(v > acc, v, acc)
            return [(st, acc)]
        if fn is abs and sym:
            x = as_int(args[0])
            return [(st, z3.If(x >= 0, x, -x))]
        if fn is int and sym:
            return [(st, as_int(args[0]))]
        if fn is bool and sym:
            return [(st, as_bool(args[0]))]
        if fn is isinstance:
            v, t = args
            ts = t if isinstance(t, tuple) else (t,)
            if is_sym(v):
                if z3.is_bool(v):
                    return [(st, bool in ts or int in ts)]
                return [(st, int in ts)]
            if isinstance(v, SymObj):
                return [(st, any(inspect.isclass(x) and issubclass(v.cls, x) for x in ts))]
            if isinstance(v, (Closure, BoundMethod)):
                return [(st, False)]
            if isinstance(v, HCont):
                return [(st, any(inspect.isclass(x) and issubclass(v.kind, x) for x in ts))]
            return [(st, isinstance(v, t))]
        if fn is len and args and isinstance(args[0], (list, tuple, dict, set, str)):
            return [(st, len(args[0]))]
        if fn is pow and len(args) == 3 and sym:
            if args[2] == 2**256:
                a, b = as_int(args[0]), as_int(args[1])
                self.bitop_apps.append(("POWMOD256", a, b))
                return [(st, POWMOD256(a, b))]
            raise Undecided("pow with symbolic arguments")
        if fn in (any, all) and sym:
            (xs,) = args
            xs = list(xs)
            bs = [as_bool(x) for x in xs]
            return [(st, (z3.Or(*bs) if bs else z3.BoolVal(False)) if fn is any else (z3.And(*bs) if bs else z3.BoolVal(True)))]
        if fn in (list, tuple) and args and isinstance(args[0], (list, tuple)):
            return [(st, fn(args[0]))]
        if fn is str and sym:
            return [(st, "<str>")]
        if fn is getattr and isinstance(args[0], SymObj):
            try:
                return self.getattr(args[0], args[1], st)
            except AttributeError:
                if len(args) == 3:
                    return [(st, args[2])]
                raise
        if fn is hasattr and isinstance(args[0], SymObj):
            o = args[0]
            return [(st, args[1] in self.fields(o, st) or hasattr(o.cls, args[1]))]
        OPS = {
            operator.add: ast.Add(), operator.sub: ast.Sub(), operator.mul: ast.Mult(), operator.floordiv: ast.FloorDiv(),
            operator.mod: ast.Mod(), operator.and_: ast.BitAnd(), operator.or_: ast.BitOr(), operator.xor: ast.BitXor(),
            operator.lshift: ast.LShift(), operator.rshift: ast.RShift(), operator.pow: ast.Pow(),
        }
        CMP = {operator.eq: ast.Eq(), operator.ne: ast.NotEq(), operator.lt: ast.Lt(), operator.le: ast.LtE(),
               operator.gt: ast.Gt(), operator.ge: ast.GtE()}
        try:
            if fn in OPS and sym:
                return self.binop(OPS[fn], args[0], args[1], st)
            if fn in CMP and sym:
                return [(st, self.compare(CMP[fn], args[0], args[1]))]
        except TypeError:
            pass
        return None

    # ------------------------------------------------------------------ statements
    def exec_block(self, stmts, env, glob, st, outs, loopctr):
        states = [(st, env)]
        for node in stmts:
            nxt = []
            for i, (s, e) in enumerate(states):
                if len(states) > 1:
                    memo = {}
                    e = clone(e, memo)
                nxt.extend(self.exec_stmt(node, e, glob, s, outs, loopctr))
            states = nxt
            if not states:
                break
        return states

    def assign(self, tgt, v, env, glob, st):
        """returns list of (st, env)"""
        if isinstance(tgt, ast.Name):
            env[tgt.id] = v
            return [(st, env)]
        if isinstance(tgt, (ast.Tuple, ast.List)):
            if is_sym(v) or isinstance(v, SymObj):
                raise Undecided("unpack symbolic")
            v = list(v)
            if len(v) != len(tgt.elts):
                raise Undecided("unpack arity")
            states = [(st, env)]
            for t, x in zip(tgt.elts, v):
                states = [r for (s, e) in states for r in self.assign(t, x, e, glob, s)]
            return states
        if isinstance(tgt, ast.Attribute):
            res = []
            for (s, base) in self.eval(tgt.value, env, glob, st):
                if isinstance(base, SymObj):
                    res.append((s.setfield(base.oid, tgt.attr, v), env))
                else:
                    raise Undecided("attribute store on concrete object")
            return res
        if isinstance(tgt, ast.Subscript):
            res = []
            for (s, base) in self.eval(tgt.value, env, glob, st):
                for (s2, idx) in self.eval(tgt.slice, env, glob, s):
                    if isinstance(base, HCont) and not is_sym(idx):
                        d = self.data(base, s2)
                        nd = dict(d) if base.kind is dict else list(d)
                        nd[idx] = v
                        res.append((s2.setfield(base.oid, "__data__", nd), env))
                    elif isinstance(base, (list, dict)) and not is_sym(idx):
                        base[idx] = v
                        res.append((s2, env))
                    else:
                        raise Undecided("subscript store")
            return res
        raise Undecided("assign target " + type(tgt).__name__)

    def exec_stmt(self, node, env, glob, st, outs, loopctr):
        if isinstance(node, ast.Expr):
            if isinstance(node.value, ast.Constant):
                return [(st, env)]
            return [(s, env) for (s, _) in self.eval(node.value, env, glob, st)]
        if isinstance(node, ast.Return):
            if node.value is None:
                outs.append((st, None))
                return []
            for (s, v) in self.eval(node.value, env, glob, st):
                outs.append((s, v))
            return []
        if isinstance(node, ast.Assign):
            res = []
            vals = self.eval(node.value, env, glob, st)
            for i, (s, v) in enumerate(vals):
                e = clone(env, {}) if len(vals) > 1 else env
                states = [(s, e)]
                for tgt in node.targets:
                    states = [r for (s2, e2) in states for r in self.assign(tgt, v, e2, glob, s2)]
                res.extend(states)
            return res
        if isinstance(node, ast.AnnAssign):
            if node.value is None:
                return [(st, env)]
            res = []
            vals = self.eval(node.value, env, glob, st)
            for (s, v) in vals:
                e = clone(env, {}) if len(vals) > 1 else env
                res.extend(self.assign(node.target, v, e, glob, s))
            return res
        if isinstance(node, ast.AugAssign):
            load = ast.copy_location(ast.fix_missing_locations(_as_load(node.target)), node)
            res = []
            for (s, l) in self.eval(load, env, glob, st):
                for (s2, r) in self.eval(node.value, env, glob, s):
                    for (s3, v) in self.binop(node.op, l, r, s2):
                        res.extend(self.assign(node.target, v, env, glob, s3))
            return res
        if isinstance(node, ast.Assert):
            res = []
            for (s, v) in self.eval(node.test, env, glob, st):
                if not is_sym(v):
                    ok = bool(v) if not isinstance(v, SymObj) else True
                    if ok:
                        res.append((s, env))
                    elif self.asserts == "prove":
                        self.oblige(f"assert@{env.get('__qual__','?')}:{node.lineno}", s, z3.BoolVal(False))
                    else:
                        self.do_raise("AssertionError", s)
                    continue
                c = as_bool(v)
                if self.asserts == "prove":
                    self.oblige(f"assert@{env.get('__qual__','?')}:{node.lineno}", s, c)
                else:
                    sf = s.assume(z3.Not(c))
                    if self.feasible(sf):
                        self.do_raise("AssertionError", sf)
                s2 = s.assume(c)
                if self.feasible(s2):
                    res.append((s2, env))
            return res
        if isinstance(node, ast.Raise):
            name = "?"
            exc = node.exc
            if isinstance(exc, ast.Call):
                exc = exc.func
            if isinstance(exc, ast.Name):
                name = exc.id
            elif isinstance(exc, ast.Attribute):
                name = exc.attr
            return self.do_raise(name, st)
        if isinstance(node, ast.If):
            res = []
            tests = self.eval(node.test, env, glob, st)
            multi = len(tests) > 1
            for (s, v) in tests:
                e0 = clone(env, {}) if multi else env
                if not is_sym(v):
                    truth = bool(v) if not isinstance(v, SymObj) else True
                    res.extend(self.exec_block(node.body if truth else node.orelse, e0, glob, s, outs, loopctr))
                    continue
                c = z3.simplify(as_bool(v))
                if z3.is_true(c):
                    res.extend(self.exec_block(node.body, e0, glob, s, outs, loopctr))
                    continue
                if z3.is_false(c):
                    res.extend(self.exec_block(node.orelse, e0, glob, s, outs, loopctr))
                    continue
                st_t, st_f = s.assume(c), s.assume(z3.Not(c))
                ft, ff = self.feasible(st_t), self.feasible(st_f)
                if ft:
                    res.extend(self.exec_block(node.body, clone(e0, {}) if ff else e0, glob, st_t, outs, loopctr))
                if ff:
                    res.extend(self.exec_block(node.orelse, e0, glob, st_f, outs, loopctr))
            return res
        if isinstance(node, ast.Pass):
            return [(st, env)]
        if isinstance(node, ast.FunctionDef):
            env[node.name] = Closure(node, glob, env, env.get("__qual__", "?") + ".<locals>." + node.name)
            return [(st, env)]
        if isinstance(node, ast.For):
            res = []
            for (s, it) in self.eval(node.iter, env, glob, st):
                if isinstance(it, HCont):
                    it = list(self.data(it, s))
                if is_sym(it) or isinstance(it, SymObj):
                    raise Undecided("for over symbolic iterable")
                states = [(s, env)]
                broke = []
                for item in list(it):
                    nxt = []
                    for (s2, e2) in states:
                        for (s3, e3) in self.assign(node.target, item, e2, glob, s2):
                            r = self.exec_loop_body(node.body, e3, glob, s3, outs, loopctr)
                            nxt.extend(r["cont"])
                            broke.extend(r["brk"])
                    states = nxt
                    if not states:
                        break
                if node.orelse:
                    states = [r for (s2, e2) in states for r in self.exec_block(node.orelse, e2, glob, s2, outs, loopctr)]
                res.extend(states + broke)
            return res
        if isinstance(node, ast.While):
            loopctr[0] += 1
            key = (env.get("__qual__", "?"), loopctr[0])
            if key in self.loop_invariants:
                return self.exec_while_inv(node, env, glob, st, outs, loopctr, self.loop_invariants[key], key)
            # concrete unrolling while the condition evaluates concretely
            states = [(st, env)]
            res = []
            for _ in range(10000):
                nxt = []
                for (s, e) in states:
                    for (s2, c) in self.eval(node.test, e, glob, s):
                        if is_sym(c):
                            # no invariant given: bounded unrolling with an unwinding assertion (complete when it discharges)
                            cb = as_bool(c)
                            s_in, s_out = s2.assume(cb), s2.assume(z3.Not(cb))
                            if self.feasible(s_out):
                                res.append((s_out, clone(e, {})))
                            if self.feasible(s_in):
                                if _ >= self.max_unroll:
                                    self.oblige(f"unwinding@{key[0]}#{key[1]}", s_in, z3.BoolVal(False))
                                else:
                                    r = self.exec_loop_body(node.body, clone(e, {}), glob, s_in, outs, loopctr)
                                    nxt.extend(r["cont"])
                                    res.extend(r["brk"])
                            continue
                        if c:
                            r = self.exec_loop_body(node.body, e, glob, s2, outs, loopctr)
                            nxt.extend(r["cont"])
                            res.extend(r["brk"])
                        else:
                            res.append((s2, e))
                states = nxt
                if not states:
                    return res
            raise Undecided("while unrolling limit")
        if isinstance(node, (ast.Break, ast.Continue)):
            raise _LoopCtl(isinstance(node, ast.Break), st, env)
        if isinstance(node, (ast.Import, ast.ImportFrom)):
            ns = {}
            exec(compile(ast.Module([node], []), "<import>", "exec"), dict(glob), ns)
            env.update(ns)
            return [(st, env)]
        if isinstance(node, ast.Global) or isinstance(node, ast.Nonlocal):
            raise Undecided("global/nonlocal")
        raise Undecided(f"stmt {type(node).__name__}")

    def exec_loop_body(self, body, env, glob, st, outs, loopctr):
        """executes one iteration; break/continue supported only at the top level of straight-line or if-nested code"""
        cont, brk = [], []
        states = [(st, env)]
        for node in body:
            nxt = []
            for (s, e) in states:
                try:
                    nxt.extend(self._exec_stmt_ctl(node, e, glob, s, outs, loopctr, cont, brk))
                except _LoopCtl as lc:
                    (brk if lc.is_break else cont).append((lc.st, lc.env))
            states = nxt
        cont.extend(states)
        return {"cont": cont, "brk": brk}

    def _exec_stmt_ctl(self, node, env, glob, st, outs, loopctr, cont, brk):
        # `if` inside a loop body whose arms may break/continue: handle arms separately
        if isinstance(node, ast.If) and any(isinstance(n, (ast.Break, ast.Continue)) for n in ast.walk(node)):
            res = []
            for (s, v) in self.eval(node.test, env, glob, st):
                arms = []
                if not is_sym(v):
                    arms.append((s, node.body if v else node.orelse))
                else:
                    c = as_bool(v)
                    for ss, blk in ((s.assume(c), node.body), (s.assume(z3.Not(c)), node.orelse)):
                        if self.feasible(ss):
                            arms.append((ss, blk))
                for (ss, blk) in arms:
                    r = self.exec_loop_body(blk, clone(env, {}), glob, ss, outs, loopctr)
                    res.extend(r["cont"])
                    brk.extend(r["brk"])
                    # `continue` inside an arm ends the iteration for that path
            return res
        return self.exec_stmt(node, env, glob, st, outs, loopctr)

    def exec_while_inv(self, node, env, glob, st, outs, loopctr, inv, key):
        """inductive invariant: (1) holds on entry, (2) preserved by one iteration from an arbitrary state
        satisfying it and the condition, (3) code after the loop continues from an arbitrary state satisfying
        the invariant and the negated condition.  `inv(engine, env, st, havoc)`; when havoc=True it must first
        replace the loop-modified variables in env by fresh symbols and return (env', formula)."""
        _, f0 = inv(self, env, st, False)
        self.oblige(f"loop-inv-entry@{key[0]}#{key[1]}", st, f0)
        env1, f1 = inv(self, clone(env, {}), st, True)
        s1 = st.assume(f1)
        res = []
        for (s2, c) in self.eval(node.test, env1, glob, s1):
            cb = as_bool(c)
            s_in, s_out = s2.assume(cb), s2.assume(z3.Not(cb))
            if self.feasible(s_in):
                r = self.exec_loop_body(node.body, clone(env1, {}), glob, s_in, outs, loopctr)
                for (s3, e3) in r["cont"]:
                    _, f3 = inv(self, e3, s3, False)
                    self.oblige(f"loop-inv-preserved@{key[0]}#{key[1]}", s3, f3)
                res.extend(r["brk"])
            if self.feasible(s_out):
                res.append((s_out, env1))
        return res

    # ------------------------------------------------------------------ expressions
    def eval_list(self, nodes, env, glob, st):
        vals = [(st, [])]
        for n in nodes:
            nxt = []
            for (s, acc) in vals:
                if isinstance(n, ast.Starred):
                    for (s2, v) in self.eval(n.value, env, glob, s):
                        nxt.append((s2, acc + list(v)))
                else:
                    for (s2, v) in self.eval(n, env, glob, s):
                        nxt.append((s2, acc + [v]))
            vals = nxt
        return vals

    def eval(self, node, env, glob, st):
        if isinstance(node, ast.Constant):
            return [(st, node.value)]
        if isinstance(node, ast.Name):
            if node.id in env:
                return [(st, env[node.id])]
            if node.id in glob:
                return [(st, glob[node.id])]
            if hasattr(builtins, node.id):
                return [(st, getattr(builtins, node.id))]
            raise Undecided("unbound name " + node.id)
        if isinstance(node, ast.Attribute):
            out = []
            for (s, base) in self.eval(node.value, env, glob, st):
                out.extend(self.getattr(base, node.attr, s))
            return out
        if isinstance(node, ast.UnaryOp):
            out = []
            for (s, v) in self.eval(node.operand, env, glob, st):
                if isinstance(node.op, ast.USub):
                    out.append((s, -v if not is_sym(v) else -as_int(v)))
                elif isinstance(node.op, ast.UAdd):
                    out.append((s, v))
                elif isinstance(node.op, ast.Not):
                    if is_sym(v):
                        out.append((s, z3.Not(as_bool(v))))
                    elif isinstance(v, SymObj):
                        out.append((s, False))
                    else:
                        out.append((s, not v))
                elif isinstance(node.op, ast.Invert):
                    out.append((s, ~v if not is_sym(v) else -as_int(v) - 1))
                else:
                    raise Undecided("unary")
            return out
        if isinstance(node, ast.BinOp):
            out = []
            for (s, l) in self.eval(node.left, env, glob, st):
                for (s2, r) in self.eval(node.right, env, glob, s):
                    out.extend(self.binop(node.op, l, r, s2))
            return out
        if isinstance(node, ast.Compare):
            out = []
            for (s, l) in self.eval(node.left, env, glob, st):
                cur = [(s, l, True)]
                for op, cmpnode in zip(node.ops, node.comparators):
                    nxt = []
                    for (ss, lv, acc) in cur:
                        if acc is False:
                            nxt.append((ss, lv, False))
                            continue
                        for (s3, rv) in self.eval(cmpnode, env, glob, ss):
                            self._cur_st = s3
                            c = self.compare(op, lv, rv)
                            if acc is True:
                                acc2 = c
                            elif c is False:
                                acc2 = False
                            elif c is True:
                                acc2 = acc
                            else:
                                acc2 = z3.And(as_bool(acc), as_bool(c))
                            nxt.append((s3, rv, acc2))
                    cur = nxt
                out.extend((ss, acc) for (ss, _, acc) in cur)
            return out
        if isinstance(node, ast.BoolOp):
            is_and = isinstance(node.op, ast.And)
            states = [(st, None, False)]
            for vnode in node.values:
                nxt = []
                for (s, val, done) in states:
                    if done:
                        nxt.append((s, val, True))
                        continue
                    for (s2, v) in self.eval(vnode, env, glob, s):
                        if not is_sym(v):
                            truth = True if isinstance(v, SymObj) else bool(v)
                            stop = (not truth) if is_and else truth
                            nxt.append((s2, v, stop))
                        else:
                            c = as_bool(v)
                            s_stop = s2.assume(z3.Not(c)) if is_and else s2.assume(c)
                            s_go = s2.assume(c) if is_and else s2.assume(z3.Not(c))
                            if self.feasible(s_stop):
                                nxt.append((s_stop, (not is_and) if z3.is_bool(v) else v, True))
                            if self.feasible(s_go):
                                nxt.append((s_go, is_and if z3.is_bool(v) else v, False))
                states = nxt
            return [(s, v) for (s, v, _) in states]
        if isinstance(node, ast.IfExp):
            out = []
            for (s, c) in self.eval(node.test, env, glob, st):
                if not is_sym(c):
                    truth = True if isinstance(c, SymObj) else bool(c)
                    out.extend(self.eval(node.body if truth else node.orelse, env, glob, s))
                    continue
                cb = as_bool(c)
                st_t, st_f = s.assume(cb), s.assume(z3.Not(cb))
                if self.feasible(st_t):
                    out.extend(self.eval(node.body, env, glob, st_t))
                if self.feasible(st_f):
                    out.extend(self.eval(node.orelse, env, glob, st_f))
            return out
        if (isinstance(node, ast.Call) and isinstance(node.func, ast.Attribute) and isinstance(node.func.value, ast.Name)
                and node.func.attr in ("append", "insert", "extend", "pop", "clear") and isinstance(env.get(node.func.value.id), list)):
            # in-place mutation of a raw python list bound to a local name: done functionally and re-bound (all local
            # aliases of the same object follow), so that forked paths never share a mutated list
            base = env[node.func.value.id]
            out = []
            for (s2, args) in self.eval_list(node.args, env, glob, st):
                new = list(base)
                try:
                    r = getattr(new, node.func.attr)(*args)
                except IndexError:
                    self.do_raise("IndexError", s2)
                    continue
                for k, v in list(env.items()):
                    if v is base:
                        env[k] = new
                out.append((s2, r))
            return out
        if isinstance(node, ast.Call):
            out = []
            for (s, fn) in self.eval(node.func, env, glob, st):
                for (s2, args) in self.eval_list(node.args, env, glob, s):
                    kwsets = [(s2, {})]
                    for k in node.keywords:
                        nxt = []
                        for (s3, acc) in kwsets:
                            for (s4, v) in self.eval(k.value, env, glob, s3):
                                d = dict(acc)
                                if k.arg is None:
                                    d.update(v)
                                else:
                                    d[k.arg] = v
                                nxt.append((s4, d))
                        kwsets = nxt
                    for (s5, kw) in kwsets:
                        out.extend(self.call(fn, args, kw, s5))
            return out
        if isinstance(node, ast.Tuple):
            return [(s, tuple(vs)) for (s, vs) in self.eval_list(node.elts, env, glob, st)]
        if isinstance(node, ast.List):
            return [(s, list(vs)) for (s, vs) in self.eval_list(node.elts, env, glob, st)]
        if isinstance(node, ast.Set):
            return [(s, set(vs)) for (s, vs) in self.eval_list(node.elts, env, glob, st)]
        if isinstance(node, ast.Dict):
            out = []
            for (s, ks) in self.eval_list(node.keys, env, glob, st):
                for (s2, vs) in self.eval_list(node.values, env, glob, s):
                    out.append((s2, dict(zip(ks, vs))))
            return out
        if isinstance(node, ast.Subscript):
            out = []
            for (s, base) in self.eval(node.value, env, glob, st):
                for (s2, idx) in self.eval(node.slice, env, glob, s):
                    if isinstance(base, HCont):
                        if is_sym(idx):
                            raise Undecided("symbolic subscript")
                        try:
                            out.append((s2, self.data(base, s2)[idx]))
                        except (KeyError, IndexError) as e:
                            self.do_raise(type(e).__name__, s2)
                        continue
                    if is_sym(idx) or is_sym(base) or isinstance(base, SymObj):
                        raise Undecided("symbolic subscript")
                    try:
                        out.append((s2, base[idx]))
                    except (KeyError, IndexError) as e:
                        self.do_raise(type(e).__name__, s2)
            return out
        if isinstance(node, ast.Slice):
            lo = self.eval(node.lower, env, glob, st)[0][1] if node.lower else None
            hi = self.eval(node.upper, env, glob, st)[0][1] if node.upper else None
            step = self.eval(node.step, env, glob, st)[0][1] if node.step else None
            return [(st, slice(lo, hi, step))]
        if isinstance(node, (ast.GeneratorExp, ast.ListComp, ast.SetComp)):
            if len(node.generators) != 1:
                raise Undecided("nested comprehension")
            (gen,) = node.generators
            out = []
            for (s, it) in self.eval(gen.iter, env, glob, st):
                if isinstance(it, HCont):
                    it = list(self.data(it, s))
                if is_sym(it) or isinstance(it, SymObj):
                    raise Undecided("comprehension over symbolic iterable")
                vals = [(s, [])]
                for item in list(it):
                    nxt = []
                    for (ss, acc) in vals:
                        e2 = dict(env)
                        for (s3, e3) in self.assign(gen.target, item, e2, glob, ss):
                            keep = [(s3, True)]
                            for cond in gen.ifs:
                                k2 = []
                                for (s4, _) in keep:
                                    for (s5, c) in self.eval(cond, e3, glob, s4):
                                        if is_sym(c):
                                            raise Undecided("symbolic comprehension filter")
                                        if c:
                                            k2.append((s5, True))
                                        else:
                                            nxt.append((s5, acc))
                                keep = k2
                            for (s6, _) in keep:
                                for (s7, v) in self.eval(node.elt, e3, glob, s6):
                                    nxt.append((s7, acc + [v]))
                    vals = nxt
                out.extend(vals)
            if isinstance(node, ast.SetComp):
                return [(s, set(v)) for (s, v) in out]
            return out
        if isinstance(node, ast.JoinedStr):
            # f-string: formatted natively when every interpolated value is concrete, else an opaque placeholder
            parts, cur = [], st
            for v in node.values:
                if isinstance(v, ast.Constant):
                    parts.append(str(v.value))
                    continue
                rs = self.eval(v.value, env, glob, cur)
                if len(rs) != 1 or has_sym(rs[0][1]) or v.format_spec is not None:
                    return [(st, "<fstring>")]
                cur, val = rs[0]
                conv = {-1: str, 115: str, 114: repr, 97: ascii}.get(v.conversion, str)
                parts.append(conv(val))
            return [(cur, "".join(parts))]
        if isinstance(node, ast.Lambda):
            return [(st, Closure(node, glob, env, env.get("__qual__", "?") + ".<lambda>"))]
        if isinstance(node, ast.Starred):
            raise Undecided("starred")
        if isinstance(node, ast.NamedExpr):
            out = []
            for (s, v) in self.eval(node.value, env, glob, st):
                env[node.target.id] = v
                out.append((s, v))
            return out
        raise Undecided(f"expr {type(node).__name__}")

    def getattr(self, base, name, st):
        if isinstance(base, SymObj):
            f = self.fields(base, st)
            if name in f:
                return [(st, f[name])]
            try:
                attr = inspect.getattr_static(base.cls, name)
            except AttributeError:
                raise Undecided(f"attribute {name} of symbolic {base.cls.__name__} not set")
            if isinstance(attr, property):
                return self.call(attr.fget, [base], {}, st)
            if type(attr).__name__ == "cached_property":
                return self.call(attr.func, [base], {}, st)
            if inspect.isfunction(attr):
                return [(st, BoundMethod(attr, base))]
            if isinstance(attr, classmethod):
                return [(st, BoundMethod(attr.__func__, base.cls))]
            if isinstance(attr, staticmethod):
                return [(st, attr.__func__)]
            return [(st, attr)]
        if inspect.isclass(base):
            try:
                attr = inspect.getattr_static(base, name)
            except AttributeError:
                return [(st, getattr(base, name))]
            if isinstance(attr, classmethod):
                return [(st, BoundMethod(attr.__func__, base))]
            if isinstance(attr, staticmethod):
                return [(st, attr.__func__)]
            return [(st, getattr(base, name))]
        if isinstance(base, HCont):
            return [(st, ContMethod(base, name))]
        if is_sym(base):
            if name == "bit_length":
                return [(st, BoundMethod(_bit_length, as_int(base)))]
            raise Undecided(f"attribute {name} of symbolic int")
        if isinstance(base, (Closure, BoundMethod)):
            raise Undecided("attribute of closure")
        return [(st, getattr(base, name))]

    # ------------------------------------------------------------------ operators
    def bitfn(self, f, name, l, r, st):
        l, r = as_int(l), as_int(r)
        self.bitop_apps.append((name, l, r))
        return f(l, r)

    def binop(self, op, l, r, st):
        """returns list of (st, value)"""
        if not is_sym(l) and not is_sym(r):
            if isinstance(l, SymObj) or isinstance(r, SymObj):
                raise Undecided("operator on symbolic object")
            tbl = {ast.Add: operator.add, ast.Sub: operator.sub, ast.Mult: operator.mul, ast.FloorDiv: operator.floordiv,
                   ast.Mod: operator.mod, ast.Pow: operator.pow, ast.BitAnd: operator.and_, ast.BitOr: operator.or_,
                   ast.BitXor: operator.xor, ast.LShift: operator.lshift, ast.RShift: operator.rshift, ast.Div: operator.truediv}
            try:
                return [(st, tbl[type(op)](l, r))]
            except ZeroDivisionError:
                return self.do_raise("ZeroDivisionError", st)
        if isinstance(op, ast.Add):
            if isinstance(l, (list, tuple)) or isinstance(r, (list, tuple)):
                return [(st, l + r)]
            return [(st, as_int(l) + as_int(r))]
        if isinstance(op, ast.Sub):
            return [(st, as_int(l) - as_int(r))]
        if isinstance(op, ast.Mult):
            return [(st, as_int(l) * as_int(r))]
        if isinstance(op, (ast.FloorDiv, ast.Mod)):
            rz = as_int(r)
            out = []
            if is_sym(r):
                sz = st.assume(rz == 0)
                if self.feasible(sz):
                    self.do_raise("ZeroDivisionError", sz)
                st = st.assume(rz != 0)
                if not self.feasible(st):
                    return []
            elif r == 0:
                return self.do_raise("ZeroDivisionError", st)
            v = py_floordiv(l, r) if isinstance(op, ast.FloorDiv) else py_mod(l, r)
            return [(st, v)]
        if isinstance(op, ast.Pow):
            if not is_sym(r) and isinstance(r, int) and 0 <= r <= 64:
                acc = z3.IntVal(1)
                for _ in range(r):
                    acc = acc * as_int(l)
                return [(st, acc)]
            self.bitop_apps.append(("POW", as_int(l), as_int(r)))
            return [(st, POW(as_int(l), as_int(r)))]
        if isinstance(op, ast.BitAnd):
            for a, c in ((l, r), (r, l)):
                if not is_sym(c) and isinstance(c, int):
                    if _is_mask(c):
                        return [(st, py_mod(as_int(a), c + 1))]
                    if c > 0 and c & (c - 1) == 0:
                        j = c.bit_length() - 1
                        return [(st, py_mod(py_floordiv(as_int(a), 1 << j), 2) * c)]
            return [(st, self.bitfn(BITAND, "BITAND", l, r, st))]
        if isinstance(op, ast.BitOr):
            for a, c in ((l, r), (r, l)):
                if not is_sym(c) and isinstance(c, int) and _is_mask(c):
                    a = as_int(a)
                    return [(st, a - py_mod(a, c + 1) + c)]
                if not is_sym(c) and isinstance(c, int) and c >= 0 and _is_high_mask(c):
                    # c = 2**n - 2**k : ones from bit k to n-1.  a | c = (a div 2^n)*2^n + c + (a mod 2^k)
                    n = c.bit_length()
                    k = (c & -c).bit_length() - 1
                    a = as_int(a)
                    return [(st, py_floordiv(a, 1 << n) * (1 << n) + c + py_mod(a, 1 << k))]
            return [(st, self.bitfn(BITOR, "BITOR", l, r, st))]
        if isinstance(op, ast.BitXor):
            return [(st, self.bitfn(BITXOR, "BITXOR", l, r, st))]
        if isinstance(op, ast.RShift):
            if not is_sym(r):
                if r >= 4096:
                    # x >> r for an astronomically large concrete r: 0 or -1, valid when |x| < 2**4096 (side obligation)
                    x = as_int(l)
                    self.oblige("shift-operand-bounded", st, z3.And(x > -(1 << 4096), x < (1 << 4096)))
                    return [(st, z3.If(x >= 0, z3.IntVal(0), z3.IntVal(-1)))]
                return [(st, py_floordiv(as_int(l), 1 << r))]
            raise Undecided(">> by symbolic amount (contracts enumerate the amount)")
        if isinstance(op, ast.LShift):
            if not is_sym(r):
                if r >= 4096:
                    raise Undecided("<< by an astronomically large amount")
                return [(st, as_int(l) * (1 << r))]
            raise Undecided("<< by symbolic amount (contracts enumerate the amount)")
        raise Undecided(f"binop {type(op).__name__} on symbolic")

    def compare(self, op, l, r):
        if isinstance(op, (ast.Is, ast.IsNot)):
            if is_sym(l) or is_sym(r):
                res = False  # a symbolic int/bool is never None / an enum member / a class
                if (is_sym(l) and z3.is_bool(l) and isinstance(r, bool)) or (is_sym(r) and z3.is_bool(r) and isinstance(l, bool)):
                    b, c = (l, r) if is_sym(l) else (r, l)
                    e = b if c else z3.Not(b)
                    return e if isinstance(op, ast.Is) else z3.Not(e)
            elif isinstance(l, SymObj) and isinstance(r, SymObj):
                res = l.oid == r.oid
            else:
                res = l is r
            return res if isinstance(op, ast.Is) else (not res)
        if isinstance(op, (ast.In, ast.NotIn)):
            if isinstance(r, HCont):
                r = self.data(r, self._cur_st)
            if is_sym(l):
                if isinstance(r, (list, tuple, set, frozenset, range)) and all(isinstance(x, int) for x in r):
                    c = z3.Or(*[as_int(l) == x for x in r]) if len(r) else z3.BoolVal(False)
                    return c if isinstance(op, ast.In) else z3.Not(c)
                if isinstance(r, (list, tuple, set, frozenset)) and all(not isinstance(x, (int, SymObj)) and not is_sym(x) for x in r):
                    return isinstance(op, ast.NotIn)
                raise Undecided("symbolic in")
            if isinstance(l, SymObj):
                res = any(isinstance(x, SymObj) and x.oid == l.oid for x in r)
                return res if isinstance(op, ast.In) else not res
            if has_sym(r):
                if isinstance(r, (list, tuple)) and isinstance(l, int):
                    c = z3.Or(*[(as_int(x) == l) if is_sym(x) else z3.BoolVal(x == l) for x in r])
                    return c if isinstance(op, ast.In) else z3.Not(c)
                raise Undecided("in symbolic collection")
            res = l in r
            return res if isinstance(op, ast.In) else not res
        if not is_sym(l) and not is_sym(r):
            if isinstance(l, SymObj) or isinstance(r, SymObj):
                if isinstance(op, (ast.Eq, ast.NotEq)):
                    same = isinstance(l, SymObj) and isinstance(r, SymObj) and l.oid == r.oid
                    if not same and isinstance(l, SymObj) and isinstance(r, SymObj):
                        raise Undecided("== on two symbolic objects")
                    return same if isinstance(op, ast.Eq) else not same
                raise Undecided("order on symbolic object")
            tbl = {ast.Eq: operator.eq, ast.NotEq: operator.ne, ast.Lt: operator.lt, ast.LtE: operator.le,
                   ast.Gt: operator.gt, ast.GtE: operator.ge}
            return tbl[type(op)](l, r)
        other = r if is_sym(l) else l
        if other is None or isinstance(other, (str, enum.Enum, SymObj, list, tuple, dict)):
            if isinstance(op, ast.Eq):
                return False
            if isinstance(op, ast.NotEq):
                return True
            raise Undecided("order between symbolic int and non-int")
        if z3.is_bool(l) if is_sym(l) else False:
            if is_sym(r) and z3.is_bool(r) and isinstance(op, (ast.Eq, ast.NotEq)):
                return (l == r) if isinstance(op, ast.Eq) else (l != r)
        l, r = as_int(l), as_int(r)
        if isinstance(op, ast.Eq):
            return l == r
        if isinstance(op, ast.NotEq):
            return l != r
        if isinstance(op, ast.Lt):
            return l < r
        if isinstance(op, ast.LtE):
            return l <= r
        if isinstance(op, ast.Gt):
            return l > r
        if isinstance(op, ast.GtE):
            return l >= r
        raise Undecided("cmp")


def _is_high_mask(c):
    if c <= 0:
        return False
    low = (c & -c)
    return _is_mask(c // low) and low > 1


def _as_load(t):
    if isinstance(t, ast.Name):
        return ast.Name(id=t.id, ctx=ast.Load())
    if isinstance(t, ast.Attribute):
        return ast.Attribute(value=t.value, attr=t.attr, ctx=ast.Load())
    if isinstance(t, ast.Subscript):
        return ast.Subscript(value=t.value, slice=t.slice, ctx=ast.Load())
    raise Undecided("augassign target")


def _bit_length(x):  # placeholder target; the engine's stub below does the work
    raise NotImplementedError


def _bit_length_stub(engine, args, kw, st):
    """int.bit_length on a symbolic integer: case split on the result n (0..264) with 2**(n-1) <= |x| < 2**n"""
    (x,) = args
    ax = z3.If(x >= 0, x, -x)
    engine.oblige("bit_length-operand-bounded", st, ax < (1 << 264))
    out = []
    for n in range(0, 265):
        c = (ax == 0) if n == 0 else z3.And(ax >= (1 << (n - 1)), ax < (1 << n))
        s2 = st.assume(c)
        if engine.feasible(s2):
            out.append((s2, n))
    return out


class _LoopCtl(Exception):
    def __init__(self, is_break, st, env):
        self.is_break, self.st, self.env = is_break, st, env


# ---------------------------------------------------------------------- lemma library for uninterpreted bit ops
def bit_lemmas(apps, M=2**256):
    """Ground instances, for the recorded applications, of facts about & | ^ and pow(.,.,2**256) on words in
    [0, M).  Each schema is itself proved in bit-vector logic by `vverif.selftest.prove_bit_lemmas`."""
    L = []
    seen = set()
    for (name, a, b) in apps:
        k = (name, a.get_id(), b.get_id())
        if k in seen:
            continue
        seen.add(k)
        inr = z3.And(a >= 0, a < M, b >= 0, b < M)
        if name == "BITAND":
            f = BITAND(a, b)
            L.append(z3.Implies(inr, z3.And(f >= 0, f <= a, f <= b, BITAND(b, a) == f,
                                            z3.Implies(b == M - 1, f == a), z3.Implies(a == M - 1, f == b),
                                            z3.Implies(b == 0, f == 0), z3.Implies(a == 0, f == 0), z3.Implies(a == b, f == a))))
        elif name == "BITOR":
            f = BITOR(a, b)
            L.append(z3.Implies(inr, z3.And(f >= a, f >= b, f < M, f <= a + b, BITOR(b, a) == f,
                                            z3.Implies(b == M - 1, f == M - 1), z3.Implies(a == M - 1, f == M - 1),
                                            z3.Implies(b == 0, f == a), z3.Implies(a == 0, f == b), z3.Implies(a == b, f == a))))
        elif name == "BITXOR":
            f = BITXOR(a, b)
            L.append(z3.Implies(inr, z3.And(f >= 0, f < M, f <= a + b, BITXOR(b, a) == f, (f == 0) == (a == b),
                                            z3.Implies(b == M - 1, f == M - 1 - a), z3.Implies(a == M - 1, f == M - 1 - b),
                                            z3.Implies(b == 0, f == a), z3.Implies(a == 0, f == b))))
        elif name == "POWMOD256":
            f = POWMOD256(a, b)
            L.append(z3.Implies(inr, z3.And(f >= 0, f < M, z3.Implies(b == 0, f == 1), z3.Implies(b == 1, f == a),
                                            z3.Implies(a == 1, f == 1), z3.Implies(z3.And(a == 0, b > 0), f == 0),
                                            z3.Implies(z3.And(a == 2, b >= 256), f == 0))))
    return L
