"""Source-level meaning of Vyper's primitive types and operators, written from docs/types.rst and
docs/built-in-functions.rst (never from the code under test).

Values are handled in a wide bit-vector domain (WIDE bits, two's complement) in which + - * of two in-range values
never wraps, so "the mathematically exact result" is simply the wide result; membership in a type is a range test.
"""
import z3

WIDE = 528
M = 2**256
DEC_DIV = 10**10  # decimal: fixed point with 10 decimal places, stored as value * 10**10 in an int168


class T:
    """primitive (one ABI word) type descriptor"""

    def __init__(self, name):
        self.name = name
        n = name
        self.kind = None
        if n.startswith("uint"):
            self.kind, self.signed, self.bits = "int", False, int(n[4:])
        elif n.startswith("int"):
            self.kind, self.signed, self.bits = "int", True, int(n[3:])
        elif n == "decimal":
            self.kind, self.signed, self.bits = "decimal", True, 168
        elif n == "bool":
            self.kind, self.signed, self.bits = "bool", False, 1
        elif n == "address":
            self.kind, self.signed, self.bits = "address", False, 160
        elif n.startswith("bytes") and n[5:].isdigit():
            self.kind, self.signed, self.bits = "bytesM", False, 8 * int(n[5:])
            self.m = int(n[5:])
        elif n.startswith("flag"):
            self.kind, self.signed, self.bits = "flag", False, int(n[4:])  # flagN: N members
        else:
            raise ValueError(n)

    @property
    def lo(self):
        return -(2 ** (self.bits - 1)) if self.signed else 0

    @property
    def hi(self):
        return 2 ** (self.bits - 1) - 1 if self.signed else 2**self.bits - 1

    def canonical(self, w):
        """the 256-bit word w is the ABI encoding of a value of this type"""
        if self.kind == "bytesM":
            if self.m == 32:
                return z3.BoolVal(True)
            return z3.Extract(255 - self.bits, 0, w) == 0  # left aligned, zero right padding
        if self.bits == 256:
            return z3.BoolVal(True)
        if self.signed:
            return z3.SignExt(256 - self.bits, z3.Extract(self.bits - 1, 0, w)) == w
        return z3.LShR(w, self.bits) == 0

    def wide(self, w):
        """numeric value of a canonical word, in the wide domain"""
        if self.kind == "bytesM":
            return z3.ZeroExt(WIDE - 256, z3.LShR(w, 256 - self.bits))
        return z3.SignExt(WIDE - 256, w) if self.signed else z3.ZeroExt(WIDE - 256, w)

    def in_range(self, v):
        return z3.And(v >= wv(self.lo), v <= wv(self.hi))

    def word(self, v):
        """ABI word of an in-range wide value"""
        if self.kind == "bytesM":
            return z3.Extract(255, 0, v) << (256 - self.bits)
        return z3.Extract(255, 0, v)


def wv(c):
    return z3.BitVecVal(c % (2**WIDE), WIDE)


def tdiv(a, b):
    """truncating division in the wide domain (b != 0)"""
    return a / b  # z3 bvsdiv truncates toward zero


def tmod(a, b):
    return z3.SRem(a, b)  # sign follows the dividend


def binop(op, t, x, y):
    """(defined: Bool, exact: wide value) of `x op y` for numeric type t, operands given as wide values"""
    true = z3.BoolVal(True)
    dec = t.kind == "decimal"
    if op == "+":
        return true, x + y
    if op == "-":
        return true, x - y
    if op == "*":
        return true, (tdiv(x * y, wv(DEC_DIV)) if dec else x * y)
    if op == "//":
        return y != 0, tdiv(x, y)
    if op == "/":
        return y != 0, tdiv(x * wv(DEC_DIV), y)
    if op == "%":
        return y != 0, tmod(x, y)
    raise KeyError(op)


def binop_contract(op, t, X, Y):
    """Contract of `x op y` on canonical argument words X, Y of numeric type t, in a form the solvers decide:
         ok            : the operation is defined and its exact result is representable in t
         value_ok(R)   : the canonical word R is that exact result
       + - * (integers) use the wide domain.  // and % use 256-bit signed/unsigned division directly (for canonical
       operands the 256-bit quotient is the exact quotient except MIN_INT256 // -1, which is stated explicitly).
       decimal * and / are stated without a division of the wide product:  q = trunc(p / D)  <=>  p = q*D + r with
       |r| < D and r having the sign of p  (D > 0)."""
    x, y = t.wide(X), t.wide(Y)
    dec = t.kind == "decimal"
    sgn = t.signed
    D = wv(DEC_DIV)

    def in256(r):  # range test on a 256-bit result word
        if t.bits == 256:
            return z3.BoolVal(True)
        if sgn:
            return z3.And(r >= z3.BitVecVal(t.lo % M, 256), r <= z3.BitVecVal(t.hi, 256))
        return z3.ULE(r, z3.BitVecVal(t.hi, 256))

    if op in ("+", "-") or (op == "*" and not dec):
        _, ex = binop(op, t, x, y)
        return {"ok": t.in_range(ex), "value_ok": lambda R: t.wide(R) == ex}
    if op in ("//", "%") and not dec:
        if op == "//":
            q = (X / Y) if sgn else z3.UDiv(X, Y)
            ovf = z3.And(X == z3.BitVecVal(2**255, 256), Y == z3.BitVecVal(M - 1, 256)) if (sgn and t.bits == 256) else z3.BoolVal(False)
            return {"ok": z3.And(Y != 0, z3.Not(ovf), in256(q)), "value_ok": lambda R: R == q}
        r = z3.SRem(X, Y) if sgn else z3.URem(X, Y)
        return {"ok": Y != 0, "value_ok": lambda R: R == r}
    if dec and op == "%":
        r = z3.SRem(X, Y)
        return {"ok": Y != 0, "value_ok": lambda R: R == r}
    if dec and op in ("*", "/"):
        # p = q * d + r, truncation toward zero
        if op == "*":
            p, d = x * y, D
            defined = z3.BoolVal(True)
            # q in [lo, hi]  <=>  lo*D - (D-1) <= p <= hi*D + (D-1)
            ok = z3.And(p >= wv(t.lo * DEC_DIV - (DEC_DIV - 1)), p <= wv(t.hi * DEC_DIV + (DEC_DIV - 1)))

            def value_ok(R):
                q = t.wide(R)
                r = p - q * D
                return z3.And(z3.Implies(p >= 0, z3.And(r >= 0, r < D)), z3.Implies(p < 0, z3.And(r <= 0, r > -D)))

            return {"ok": ok, "value_ok": value_ok}
        # x / y :  p = x * 10**10 fits 256 bits for canonical decimals, so 256-bit signed division is exact
        P = X * z3.BitVecVal(DEC_DIV, 256)
        q = P / Y
        return {"ok": z3.And(Y != 0, in256(q)), "value_ok": lambda R: R == q}
    raise KeyError((op, t.name))


def pyint_binop(op, t, x, y):
    """the same on Python integers (replay oracle); returns None when undefined"""
    dec = t.kind == "decimal"

    def td(a, b):
        q = abs(a) // abs(b)
        return -q if (a < 0) != (b < 0) else q

    if op == "+":
        return x + y
    if op == "-":
        return x - y
    if op == "*":
        return td(x * y, DEC_DIV) if dec else x * y
    if op == "//":
        return None if y == 0 else td(x, y)
    if op == "/":
        return None if y == 0 else td(x * DEC_DIV, y)
    if op == "%":
        if y == 0:
            return None
        r = abs(x) % abs(y)
        return -r if x < 0 else r
    raise KeyError(op)
