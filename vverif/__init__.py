"""vverif — contract-based deductive verification machinery for vyperlang/vyper (see /verif/DESIGN.md)."""
