"""FinEx contracts (exhaustive decision tables through the real front end) for C11: programs that break a static rule are
rejected at compile time, programs that keep it are accepted.  The expected column is dictated by the property
statement (mutability lattice pure < view < nonpayable < payable; a caller may call anything not more permissive than
itself, and nonpayable/payable callers may call anything)."""
import itertools

from vverif.jobutil import fact, number

FUNCS = [
    "vyper.semantics.analysis.local:ExprVisitor._check_call_mutability",
    "vyper.semantics.analysis.local:FunctionAnalyzer._handle_modification",
    "vyper.semantics.analysis.local:_validate_pure_access",
    "vyper.semantics.analysis.local:_validate_msg_value_access",
    "vyper.semantics.analysis.local:FunctionAnalyzer.visit_For",
    "vyper.semantics.analysis.module:_compute_reachable_set",
]

MUTS = ["pure", "view", "nonpayable", "payable"]
RANK = {m: i for i, m in enumerate(MUTS)}


def deco(m):
    return "" if m == "nonpayable" else f"@{m}\n"


def cases():
    C = []
    # A. internal call matrix
    for caller, callee in itertools.product(MUTS, MUTS):
        src = f"x: uint256\n\n@internal\n{deco(callee)}def g() -> uint256:\n    return 1\n\n@external\n{deco(caller)}def f() -> uint256:\n    return self.g()\n"
        ok = RANK[callee] <= RANK[caller] or RANK[caller] >= RANK["nonpayable"]
        C.append((f"internal-call[{caller}->{callee}]", src, ok))
    # B. interface call matrix
    for caller, callee in itertools.product(MUTS, MUTS):
        kw = "staticcall" if callee in ("pure", "view") else "extcall"
        src = f"interface I:\n    def g() -> uint256: {callee}\n\n@external\n{deco(caller)}def f(t: address) -> uint256:\n    return {kw} I(t).g()\n"
        ok = RANK[callee] <= RANK[caller] or RANK[caller] >= RANK["nonpayable"]
        # (a pure caller may call an interface function *declared* pure: the property lists state and environment
        #  reads, not calls that trust an interface declaration, so the lattice rule alone decides)
        C.append((f"interface-call[{caller}->{callee}]", src, ok))
    # C. state access
    for m in MUTS:
        C.append((f"state-write[{m}]", f"x: uint256\n\n@external\n{deco(m)}def f():\n    self.x = 1\n", RANK[m] >= 2))
        C.append((f"state-read[{m}]", f"x: uint256\n\n@external\n{deco(m)}def f() -> uint256:\n    return self.x\n", RANK[m] >= 1))
        C.append((f"transient-write[{m}]", f"x: transient(uint256)\n\n@external\n{deco(m)}def f():\n    self.x = 1\n", RANK[m] >= 2))
        C.append((f"dynarray-append[{m}]", f"x: DynArray[uint256, 3]\n\n@external\n{deco(m)}def f():\n    self.x.append(1)\n", RANK[m] >= 2))
        C.append((f"transient-augassign[{m}]", f"x: transient(uint256)\n\n@external\n{deco(m)}def f():\n    self.x += 1\n", RANK[m] >= 2))
        C.append((f"transient-dynarray-append[{m}]", f"x: transient(DynArray[uint256, 3])\n\n@external\n{deco(m)}def f():\n    self.x.append(1)\n", RANK[m] >= 2))
        C.append((f"transient-dynarray-pop[{m}]", f"x: transient(DynArray[uint256, 3])\n\n@external\n{deco(m)}def f() -> uint256:\n    return self.x.pop()\n", RANK[m] >= 2))
        C.append((f"transient-write-via-internal[{m}]", f"x: transient(uint256)\n\n@internal\n{deco(m if m != 'payable' else 'nonpayable')}def g():\n    self.x = 1\n\n@external\n{deco(m)}def f():\n    self.g()\n", RANK[m] >= 2))
        C.append((f"transient-read[{m}]", f"x: transient(uint256)\n\n@external\n{deco(m)}def f() -> uint256:\n    return self.x\n", RANK[m] >= 1))
        C.append((f"log[{m}]", f"event E:\n    a: uint256\n\n@external\n{deco(m)}def f():\n    log E(a=1)\n", RANK[m] >= 2))
        C.append((f"raw_call[{m}]", f"@external\n{deco(m)}def f(t: address):\n    raw_call(t, b'')\n", RANK[m] >= 2))
        C.append((f"raw_call-static[{m}]", f"@external\n{deco(m)}def f(t: address) -> Bytes[32]:\n    return raw_call(t, b'', max_outsize=32, is_static_call=True)\n", RANK[m] >= 1))
        C.append((f"send[{m}]", f"@external\n{deco(m)}def f(t: address):\n    send(t, 1)\n", RANK[m] >= 2))
        C.append((f"create[{m}]", f"@external\n{deco(m)}def f(t: address) -> address:\n    return create_minimal_proxy_to(t)\n", RANK[m] >= 2))
        # D. environment under pure
        for nm, ex, ty in (("block.timestamp", "block.timestamp", "uint256"), ("msg.sender", "msg.sender", "address"), ("self.balance", "self.balance", "uint256"),
                           ("tx.origin", "tx.origin", "address"), ("chain.id", "chain.id", "uint256"), ("block.number", "block.number", "uint256"),
                           ("addr.balance", "t.balance", "uint256"), ("addr.codesize", "t.codesize", "uint256"), ("self", "self", "address")):
            arg = "t: address" if ex.startswith("t.") else ""
            C.append((f"env-read[{m};{nm}]", f"@external\n{deco(m)}def f({arg}) -> {ty}:\n    return {ex}\n", RANK[m] >= 1))
        # E. msg.value
        C.append((f"msg.value[{m}]", f"@external\n{deco(m)}def f() -> uint256:\n    return msg.value\n", m == "payable"))
    # F. assignments to things that must not change
    C.append(("assign-constant", "C: constant(uint256) = 1\n\n@external\ndef f():\n    C = 2\n", False))
    C.append(("assign-immutable-outside-ctor", "I: immutable(uint256)\n\n@deploy\ndef __init__():\n    I = 1\n\n@external\ndef f():\n    I = 2\n", False))
    C.append(("assign-immutable-in-ctor", "I: immutable(uint256)\n\n@deploy\ndef __init__():\n    I = 1\n", True))
    C.append(("assign-immutable-twice-in-ctor", "I: immutable(uint256)\n\n@deploy\ndef __init__():\n    I = 1\n    I = 2\n", False))
    C.append(("assign-calldata-arg", "@external\ndef f(x: uint256):\n    x = 1\n", False))
    C.append(("augassign-calldata-arg", "@external\ndef f(x: uint256):\n    x += 1\n", False))
    C.append(("assign-calldata-array-elem", "@external\ndef f(x: uint256[2]):\n    x[0] = 1\n", False))
    C.append(("assign-local", "@external\ndef f(x: uint256) -> uint256:\n    y: uint256 = x\n    y = 2\n    return y\n", True))
    C.append(("assign-loop-var", "@external\ndef f():\n    for i: uint256 in range(3):\n        i = 2\n", False))
    C.append(("augassign-loop-var", "@external\ndef f():\n    for i: uint256 in range(3):\n        i += 2\n", False))
    C.append(("assign-loop-var-list", "@external\ndef f(a: uint256[3]):\n    for i: uint256 in a:\n        i = 2\n", False))
    C.append(("mutate-iterated-storage", "a: DynArray[uint256, 3]\n\n@external\ndef f():\n    for i: uint256 in self.a:\n        self.a.append(1)\n", False))
    C.append(("mutate-iterated-storage-elem", "a: uint256[3]\n\n@external\ndef f():\n    for i: uint256 in self.a:\n        self.a[0] = 1\n", False))
    C.append(("mutate-iterated-memory", "@external\ndef f():\n    a: uint256[3] = [1, 2, 3]\n    for i: uint256 in a:\n        a[0] = i\n", False))
    C.append(("mutate-iterated-via-call", "a: DynArray[uint256, 3]\n\n@internal\ndef g():\n    self.a.pop()\n\n@external\ndef f():\n    for i: uint256 in self.a:\n        self.g()\n", False))
    C.append(("iterate-without-mutation", "a: DynArray[uint256, 3]\nb: uint256\n\n@external\ndef f():\n    for i: uint256 in self.a:\n        self.b += i\n", True))
    # G. recursion
    C.append(("recursion-direct", "@internal\ndef g(x: uint256) -> uint256:\n    return self.g(x)\n\n@external\ndef f() -> uint256:\n    return self.g(1)\n", False))
    C.append(("recursion-mutual", "@internal\ndef g(x: uint256) -> uint256:\n    return self.h(x)\n\n@internal\ndef h(x: uint256) -> uint256:\n    return self.g(x)\n\n@external\ndef f() -> uint256:\n    return self.g(1)\n", False))
    C.append(("recursion-three", "@internal\ndef a() -> uint256:\n    return self.b()\n\n@internal\ndef b() -> uint256:\n    return self.c()\n\n@internal\ndef c() -> uint256:\n    return self.a()\n\n@external\ndef f() -> uint256:\n    return self.a()\n", False))
    C.append(("call-chain-acyclic", "@internal\ndef a() -> uint256:\n    return self.b() + self.c()\n\n@internal\ndef b() -> uint256:\n    return self.c()\n\n@internal\ndef c() -> uint256:\n    return 1\n\n@external\ndef f() -> uint256:\n    return self.a()\n", True))
    # H. loop bounds
    C.append(("range-unbounded", "@external\ndef f(n: uint256):\n    for i: uint256 in range(n):\n        pass\n", False))
    C.append(("range-bounded", "@external\ndef f(n: uint256):\n    for i: uint256 in range(n, bound=4):\n        pass\n", True))
    C.append(("range-two-args-unbounded", "@external\ndef f(n: uint256, m: uint256):\n    for i: uint256 in range(n, m):\n        pass\n", False))
    C.append(("range-const", "@external\ndef f():\n    for i: uint256 in range(1, 4):\n        pass\n", True))
    return C


def job_rules(lo, hi, scale=1):
    import vyper
    from vyper.exceptions import VyperException, VyperInternalException

    obs = []
    for name, src, expect_ok in cases()[lo:hi]:
        status = None
        try:
            vyper.compile_code(src, output_formats=["abi"])
            got_ok = True
        except VyperInternalException as e:
            got_ok, status = False, "internal:" + type(e).__name__
        except VyperException as e:
            got_ok, status = False, type(e).__name__
        ok = got_ok == expect_ok and not (status or "").startswith("internal")
        fact(obs, f"rule[{name}]", ok, replay={"kind": "rule", "name": name, "src": src, "expect_ok": expect_ok},
             note=f"expected {'accepted' if expect_ok else 'rejected'}, compiler {'accepted' if got_ok else 'rejected with ' + str(status)}")
    return obs  # clause names are unique already


def replay_rule(o):
    import vyper
    from vyper.exceptions import VyperException

    r = o["replay"]
    try:
        vyper.compile_code(r["src"], output_formats=["abi"])
        got = True
    except VyperException:
        got = False
    return {"reproduced": got != r["expect_ok"], "detail": f"{r['name']}: compile {'accepted' if got else 'rejected'}; the rule says {'accept' if r['expect_ok'] else 'reject'}\n{r['src']}"}


REPLAY = {"rule": replay_rule}


def loop_family():
    """run-time side of "every loop runs at most its compile-time bound": range(n, bound=), range(a, b, bound=) with unsigned and
    signed counters - decided by the reference semantics (contracts/source_sem.py)"""
    T = {}
    T["range.bound.uint256"] = "@external\ndef f(n: uint256) -> uint256:\n    s: uint256 = 0\n    for i: uint256 in range(n, bound=3):\n        s = (s << 8) ^ i\n    return s\n"
    T["range.ab.bound.uint256"] = "@external\ndef f(a: uint256, b: uint256) -> uint256:\n    s: uint256 = 0\n    for i: uint256 in range(a, b, bound=3):\n        s = unsafe_add(unsafe_mul(s, 3), 1) ^ i\n    return s\n"
    T["range.ab.bound.int256"] = "@external\ndef f(a: int256, b: int256) -> uint256:\n    s: uint256 = 0\n    for i: int256 in range(a, b, bound=3):\n        s = unsafe_add(unsafe_mul(s, 3), 1)\n    return s\n"
    T["range.ab.bound.int128"] = "@external\ndef f(a: int128, b: int128) -> uint256:\n    s: uint256 = 0\n    for i: int128 in range(a, b, bound=2):\n        s = (s << 64) ^ 1\n    return s\n"
    T["range.ab.bound.uint8"] = "@external\ndef f(a: uint8, b: uint8) -> uint256:\n    s: uint256 = 0\n    for i: uint8 in range(a, b, bound=2):\n        s = (s << 8) ^ convert(i, uint256)\n    return s\n"
    T["list.iteration.bound"] = "@external\ndef f(x: DynArray[uint8, 3]) -> uint256:\n    s: uint256 = 0\n    for v: uint8 in x:\n        s = (s << 8) ^ convert(v, uint256)\n    return s\n"
    return T
