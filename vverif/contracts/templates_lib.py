"""The template family: small Vyper sources, each exercising one language construct (or one interaction of two),
through which the whole compiler pipeline is put under contract (sem/templates.py, contracts/relational.py).
`TEMPLATES` maps an id to a source text; `tags` select sub-families for the individual properties."""

INT_TYPES_Q = ["uint8", "int8", "uint128", "int128", "uint256", "int256"]
INT_TYPES_T = INT_TYPES_Q + ["uint16", "int16", "uint64", "int64", "uint136", "int136", "uint248", "int248"]


def _fn(params, ret, body, deco="@external", pre=""):
    r = f" -> {ret}" if ret else ""
    return f"{pre}{deco}\ndef f({params}){r}:\n" + "".join("    " + l + "\n" for l in body.split("\n"))


def build(quick=True):
    T = {}
    ints = INT_TYPES_Q if quick else INT_TYPES_T
    # ---- arithmetic, comparison, bitwise on integers
    for t in ints:
        for nm, op in (("add", "+"), ("sub", "-"), ("mul", "*"), ("fdiv", "//"), ("mod", "%"), ("and", "&"), ("or", "|"), ("xor", "^")):
            T[f"arith.{t}.{nm}"] = _fn(f"x: {t}, y: {t}", t, f"return x {op} y")
        for nm, op in (("lt", "<"), ("le", "<="), ("gt", ">"), ("ge", ">="), ("eq", "=="), ("ne", "!=")):
            T[f"cmp.{t}.{nm}"] = _fn(f"x: {t}, y: {t}", "bool", f"return x {op} y")
        for fnm in ("min", "max", "unsafe_add", "unsafe_sub", "unsafe_mul", "unsafe_div"):
            T[f"builtin.{t}.{fnm}"] = _fn(f"x: {t}, y: {t}", t, f"return {fnm}(x, y)")
        T[f"pow.{t}.sq"] = _fn(f"x: {t}", t, "return x ** 2")
        T[f"pow.{t}.cube"] = _fn(f"x: {t}", t, "return x ** 3")
        T[f"pow.{t}.two"] = _fn(f"x: {t}", t, "return 2 ** x")
        T[f"pow.{t}.ten"] = _fn(f"x: {t}", t, "return 10 ** x")
        if t.startswith("int"):
            T[f"unary.{t}.neg"] = _fn(f"x: {t}", t, "return -x")
            T[f"pow.{t}.negbase"] = _fn(f"x: {t}", t, "return (-3) ** x")
            if t == "int256":
                T[f"unary.{t}.abs"] = _fn(f"x: {t}", t, "return abs(x)")
        T[f"aug.{t}.add"] = _fn(f"x: {t}, y: {t}", t, "z: " + t + " = x\nz += y\nz -= 1\nreturn z")
    for t in ("uint256", "int256"):
        T[f"shift.{t}.shl"] = _fn(f"x: {t}, y: uint256", t, "return x << y")
        T[f"shift.{t}.shr"] = _fn(f"x: {t}, y: uint256", t, "return x >> y")
    T["bitnot.uint256"] = _fn("x: uint256", "uint256", "return ~x")
    T["bool.not"] = _fn("x: bool", "bool", "return not x")
    T["bool.andor"] = _fn("a: bool, b: bool, c: bool", "bool", "return (a and b) or c")
    T["ifexp"] = _fn("c: bool, x: uint256, y: uint256", "uint256", "return x if c else y")
    T["addmod"] = _fn("x: uint256, y: uint256, z: uint256", "uint256", "return uint256_addmod(x, y, z)")
    T["mulmod"] = _fn("x: uint256, y: uint256, z: uint256", "uint256", "return uint256_mulmod(x, y, z)")
    T["powmod"] = _fn("x: uint256, y: uint256", "uint256", "return pow_mod256(x, y)")
    T["isqrt-free.minmax3"] = _fn("x: int128, y: int128, z: int128", "int128", "return max(min(x, y), z)")
    for nm, op in (("add", "+"), ("sub", "-"), ("mul", "*"), ("div", "/"), ("mod", "%")):
        T[f"decimal.{nm}"] = _fn("x: decimal, y: decimal", "decimal", f"return x {op} y")
    T["decimal.floor"] = _fn("x: decimal", "int256", "return floor(x)")
    T["decimal.ceil"] = _fn("x: decimal", "int256", "return ceil(x)")
    T["decimal.cmp"] = _fn("x: decimal, y: decimal", "bool", "return x < y")
    # ---- conversions
    for a, b in (("uint256", "int128"), ("int256", "uint8"), ("int128", "uint256"), ("uint256", "decimal"), ("int256", "decimal"), ("decimal", "int8"), ("decimal", "uint256"),
                 ("bytes32", "uint256"), ("bytes4", "int32"), ("uint160", "address"), ("address", "uint256"), ("bytes32", "address"), ("uint256", "bytes32"),
                 ("int8", "bytes2"), ("bytes32", "bytes4"), ("uint256", "bool"), ("bool", "uint8")):
        T[f"convert.{a}.{b}"] = _fn(f"x: {a}", b, f"return convert(x, {b})")
    # ---- echo (ABI decode + encode) of static types
    for t in ("bool", "address", "bytes1", "bytes4", "bytes31", "bytes32", "uint8", "int8", "uint128", "int128", "uint256", "int256", "decimal"):
        T[f"echo.{t}"] = _fn(f"x: {t}", t, "return x")
    T["echo.flag"] = _fn("x: F", "F", "return x", pre="flag F:\n    A\n    B\n    C\n\n")
    T["flag.ops"] = _fn("x: F, y: F", "bool", "return (x | y) in (x ^ ~y)", pre="flag F:\n    A\n    B\n    C\n\n")
    T["echo.struct"] = "struct S:\n    a: uint128\n    b: bool\n    c: address\n\n" + _fn("x: S", "S", "return x")
    T["echo.tuple"] = _fn("x: uint8, y: int16", "(int16, uint8)", "return y, x")
    T["echo.sarray"] = _fn("x: uint8[3]", "uint8[3]", "return x")
    T["sarray.index"] = _fn("x: uint128[4], i: uint256", "uint128", "return x[i]")
    T["sarray.index.signed"] = _fn("x: uint128[4], i: int128", "uint128", "return x[i]")
    T["sarray2.index"] = _fn("x: uint8[2][3], i: uint256, j: uint256", "uint8", "return x[i][j]")
    T["in.list"] = _fn("x: uint256", "bool", "return x in [1, 5, 7]")
    # ---- dynamic types
    T["echo.bytes"] = _fn("x: Bytes[40]", "Bytes[40]", "return x")
    T["echo.string"] = _fn("x: String[33]", "String[33]", "return x")
    T["bytes.len"] = _fn("x: Bytes[40]", "uint256", "return len(x)")
    T["bytes.two"] = _fn("n: uint256, x: Bytes[33]", "uint256", "return n + len(x)")
    T["echo.dynarray"] = _fn("x: DynArray[uint8, 3]", "DynArray[uint8, 3]", "return x")
    T["dynarray.index"] = _fn("x: DynArray[uint256, 3], i: uint256", "uint256", "return x[i]")
    T["dynarray.len"] = _fn("x: DynArray[int128, 3]", "uint256", "return len(x)")
    T["dynarray.sum"] = _fn("x: DynArray[uint64, 3]", "uint64", "s: uint64 = 0\nfor v: uint64 in x:\n    s += v\nreturn s")
    T["slice"] = _fn("x: Bytes[40], s: uint256, n: uint256", "Bytes[40]", "return slice(x, s, n)")
    T["extract32"] = _fn("x: Bytes[40], s: uint256", "bytes32", "return extract32(x, s)")
    T["concat.bm"] = _fn("a: bytes16, b: bytes12", "Bytes[28]", "return concat(a, b)")
    T["concat.b"] = _fn("a: Bytes[10], b: bytes4", "Bytes[14]", "return concat(a, b)")
    T["abi_encode.static"] = _fn("x: uint128, y: bool", "Bytes[64]", "return abi_encode(x, y)")
    T["abi_decode.static"] = _fn("x: Bytes[64]", "uint128", "a: uint128 = 0\nb: bool = False\na, b = abi_decode(x, (uint128, bool))\nreturn a")
    T["keccak.bytes32"] = _fn("x: bytes32", "bytes32", "return keccak256(x)")
    # ---- state
    T["storage.rw"] = "a: uint256\nb: int128\n\n" + _fn("x: uint256, y: int128", "uint256", "self.a = x\nself.b = y\nreturn self.a + convert(self.b, uint256)")
    T["storage.getter"] = "a: public(uint256)\nb: public(int128[3])\n\n" + _fn("x: uint256", "", "self.a = x")
    T["storage.struct"] = "struct S:\n    a: uint128\n    b: bool\n\ns: S\n\n" + _fn("x: uint128", "bool", "self.s.a = x\nself.s.b = x > 5\nreturn self.s.b")
    T["storage.array"] = "arr: uint128[4]\n\n" + _fn("i: uint256, v: uint128", "uint128", "self.arr[i] = v\nreturn self.arr[3 - i]")
    T["storage.dynarray"] = "arr: DynArray[uint256, 3]\n\n" + _fn("v: uint256", "uint256", "self.arr.append(v)\nreturn len(self.arr)")
    T["storage.dynarray.pop"] = "arr: DynArray[uint256, 3]\n\n" + _fn("", "uint256", "return self.arr.pop()")
    T["storage.map"] = "m: HashMap[address, uint256]\n\n" + _fn("k: address, v: uint256", "uint256", "self.m[k] += v\nreturn self.m[k]")
    T["storage.map2"] = "m: HashMap[uint256, HashMap[bytes32, bool]]\n\n" + _fn("k: uint256, j: bytes32", "bool", "self.m[k][j] = True\nreturn self.m[j == empty(bytes32) and k or 1][j]".replace("j == empty(bytes32) and k or 1", "k"))
    T["storage.bytes"] = "b: Bytes[40]\n\n" + _fn("x: Bytes[40]", "uint256", "self.b = x\nreturn len(self.b)")
    T["transient.rw"] = "t: transient(uint256)\n\n" + _fn("x: uint256", "uint256", "self.t = x\nreturn self.t + 1")
    T["immutable"] = "I: immutable(uint256)\n\n@deploy\ndef __init__(v: uint256):\n    I = v\n\n" + _fn("x: uint256", "uint256", "return I + x")
    T["constant"] = "C: constant(uint256) = 2**200 + 7\n\n" + _fn("x: uint256", "uint256", "return C + x")
    # ---- control flow
    T["if.else"] = _fn("x: uint256", "uint256", "if x > 10:\n    return x - 10\nelif x == 3:\n    return 33\nreturn x + 1")
    T["for.range"] = _fn("n: uint256", "uint256", "s: uint256 = 0\nfor i: uint256 in range(n, bound=4):\n    s += i * 2\nreturn s")
    T["for.range.const"] = _fn("x: uint256", "uint256", "s: uint256 = x\nfor i: uint256 in range(3):\n    if i == 1:\n        continue\n    s += i\nreturn s")
    T["for.break"] = _fn("x: uint256", "uint256", "s: uint256 = 0\nfor i: uint256 in range(4):\n    if i == x:\n        break\n    s += 1\nreturn s")
    T["assert.reason"] = _fn("x: uint256", "uint256", 'assert x != 7, "seven"\nreturn x')
    T["raise.plain"] = _fn("x: uint256", "uint256", "if x == 1:\n    raise\nreturn x")
    T["raise.reason"] = _fn("x: uint256", "uint256", 'if x == 1:\n    raise "bad"\nreturn x')
    T["assert.unreachable"] = _fn("x: uint256", "uint256", "assert x != 9, UNREACHABLE\nreturn x")
    T["internal.call"] = "@internal\ndef g(a: uint256, b: uint256) -> uint256:\n    return a * 2 + b\n\n" + _fn("x: uint256, y: uint256", "uint256", "return self.g(x, y) + self.g(y, 1)")
    T["internal.tuple"] = "@internal\ndef g(a: uint256) -> (uint256, bool):\n    return a + 1, a > 2\n\n" + _fn("x: uint256", "uint256", "p: uint256 = 0\nq: bool = False\np, q = self.g(x)\nreturn p if q else 0")
    T["internal.memarg"] = "@internal\ndef g(a: uint256[3]) -> uint256:\n    return a[0] + a[2]\n\n" + _fn("x: uint256[3]", "uint256", "return self.g(x)")
    T["internal.bytes"] = "@internal\ndef g(a: Bytes[40]) -> uint256:\n    return len(a)\n\n" + _fn("x: Bytes[40]", "uint256", "return self.g(x) + 1")
    # ---- dispatch
    T["dispatch.two"] = "@external\ndef f(x: uint256) -> uint256:\n    return x + 1\n\n@external\n@payable\ndef g() -> uint256:\n    return msg.value\n"
    T["dispatch.default"] = "@external\ndef f(x: uint256) -> uint256:\n    return x\n\n@external\n@payable\ndef __default__():\n    log E(msg.value)\n\nevent E:\n    v: uint256\n".replace("@external\n@payable\ndef __default__", "@external\n@payable\ndef __default__")
    T["dispatch.kwargs"] = "@external\ndef f(x: uint256, y: uint256 = 7, z: bool = True) -> uint256:\n    return x + y if z else 0\n"
    T["dispatch.six"] = "".join(f"@external\ndef fn{i}(x: uint256) -> uint256:\n    return x ^ {i}\n\n" for i in range(6))
    T["dispatch.payable.mix"] = "".join(f"@external\n{'@payable' if i % 2 else ''}\ndef fn{i}() -> uint256:\n    return {i}\n\n".replace("\n\ndef", "\ndef") for i in range(5))
    # ---- events, environment
    T["event.static"] = "event E:\n    a: indexed(uint256)\n    b: int128\n    c: bool\n\n" + _fn("x: uint256, y: int128", "", "log E(a=x, b=y, c=x > 3)")
    T["event.bytes"] = "event E:\n    a: indexed(address)\n    b: Bytes[40]\n\n" + _fn("y: Bytes[40]", "", "log E(a=msg.sender, b=y)")
    T["env.sender"] = _fn("", "address", "return msg.sender")
    T["env.value"] = _fn("", "uint256", "return msg.value + self.balance", deco="@external\n@payable")
    T["env.block"] = _fn("", "uint256", "return block.timestamp + block.number + chain.id")
    # ---- re-entrancy lock
    T["lock.basic"] = "x: uint256\n\n" + _fn("v: uint256", "uint256", "self.x = v\nreturn self.x", deco="@external\n@nonreentrant")
    T["lock.view"] = "x: uint256\n\n" + _fn("", "uint256", "return self.x", deco="@external\n@view\n@nonreentrant")
    T["lock.branch"] = "x: uint256\n\n" + _fn("v: uint256", "uint256", "if v == 1:\n    return 1\nself.x = v\nif v == 2:\n    raise\nreturn 2", deco="@external\n@nonreentrant")
    T["lock.pragma"] = "#pragma nonreentrancy on\nx: uint256\n\n" + _fn("v: uint256", "", "self.x = v") + "\n@external\n@view\ndef g() -> uint256:\n    return self.x\n"
    # ---- external calls
    IF = "interface I:\n    def get(a: uint256) -> uint256: view\n    def set(a: uint256): nonpayable\n    def pay(a: uint256) -> bool: payable\n    def bs(a: uint256) -> Bytes[40]: view\n    def pair() -> (uint128, bool): view\n\n"
    T["extcall.view"] = IF + _fn("t: address, x: uint256", "uint256", "return staticcall I(t).get(x)")
    T["extcall.set"] = IF + _fn("t: address, x: uint256", "", "extcall I(t).set(x)")
    T["extcall.value"] = IF + _fn("t: address, x: uint256", "bool", "return extcall I(t).pay(x, value=msg.value, gas=50000)", deco="@external\n@payable")
    T["extcall.default"] = IF + _fn("t: address, x: uint256", "uint256", "return staticcall I(t).get(x, default_return_value=42)")
    T["extcall.skipcheck"] = IF + _fn("t: address, x: uint256", "", "extcall I(t).set(x, skip_contract_check=True)")
    T["extcall.bytes"] = IF + _fn("t: address, x: uint256", "Bytes[40]", "return staticcall I(t).bs(x)")
    T["extcall.tuple"] = IF + _fn("t: address", "uint128", "a: uint128 = 0\nb: bool = False\na, b = staticcall I(t).pair()\nreturn a if b else 1")
    T["extcall.state"] = "x: uint256\n\n" + IF + _fn("t: address", "uint256", "self.x = 1\nr: uint256 = staticcall I(t).get(self.x)\nself.x = 2\nreturn r")
    T["rawcall.basic"] = _fn("t: address, d: Bytes[36]", "Bytes[32]", "return raw_call(t, d, max_outsize=32)")
    T["rawcall.nofail"] = _fn("t: address, d: Bytes[36]", "bool", "ok: bool = False\nr: Bytes[32] = b''\nok, r = raw_call(t, d, max_outsize=32, revert_on_failure=False)\nreturn ok")
    T["rawcall.static"] = _fn("t: address, d: Bytes[4]", "Bytes[32]", "return raw_call(t, d, max_outsize=32, is_static_call=True)", deco="@external\n@view")
    # save a state variable, make an outgoing call that may re-enter, write the saved value back (the restoring store must survive)
    T["saverestore.rawcall.transient"] = "t: transient(uint256)\n\n" + _fn("target: address", "bool", "saved: uint256 = self.t\nok: bool = raw_call(target, method_id(\"cb()\"), revert_on_failure=False)\nself.t = saved\nreturn ok")
    T["saverestore.rawcall.storage"] = "s: uint256\n\n" + _fn("target: address", "bool", "saved: uint256 = self.s\nok: bool = raw_call(target, method_id(\"cb()\"), revert_on_failure=False)\nself.s = saved\nreturn ok")
    T["send"] = _fn("t: address, v: uint256", "", "send(t, v)")
    T["rawrevert"] = _fn("d: Bytes[36]", "", "raw_revert(d)")
    T["create.minimal"] = _fn("t: address", "address", "return create_minimal_proxy_to(t)")
    T["create.blueprint"] = _fn("t: address, a: uint256", "address", "return create_from_blueprint(t, a)")
    T["create.copy"] = _fn("t: address", "address", "return create_copy_of(t)")
    T["selfcall.order"] = "arr: DynArray[uint256, 4]\n\n@internal\ndef a() -> uint256:\n    self.arr.append(1)\n    return 1\n\n@internal\ndef b() -> uint256:\n    self.arr.append(2)\n    return 2\n\n" + _fn("", "uint256", "return self.a() + self.b() * 2")
    return T


def tagged(T, *prefixes):
    return {k: v for k, v in T.items() if k.startswith(prefixes)}
