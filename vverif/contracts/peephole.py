"""C15 — contract on the assembly peephole optimiser (vyper/evm/assembler/optimizer.py:optimize_assembly).

    requires  W is a window of assembly items (length <= 5) over the quotient alphabet below
    ensures   for every initial operand stack, memory, storage and environment:
              running W and running optimize_assembly(W) from the window's start reach the same continuation
              (fall-through end of the window, or the same external label, or the same halt) with the same operand
              stack, memory, storage, and the same sequence of effects (calls, creates, stores).

The alphabet is the set of instruction classes the optimiser's code distinguishes, built from the optimiser's own
tables on every run (_RETURNS_ZERO_OR_ONE, _TERMINAL_OPS, COMMUTATIVE_OPS) plus the stack shufflers it matches literally,
two labels, and representatives of "any other" instruction (a constant push, a non-commutative binary operator, a unary
operator, a load, a store, and the create/call opcodes).  All windows over that alphabet up to the stated lengths are
enumerated (exhaustive, finite); the real function is run on each; every window it changes gives one equivalence
obligation, discharged by z3 on the bytecode denotation of both windows (assembled by the real assembler).
"""
import itertools

import z3

from vverif.jobutil import discharge, fact, number
from vverif.sem import bytecode as BC
from vverif.sem import machine as Mx
from vverif.sem.machine import BV, Unsupported
from vverif.smt import feasible

FUNCS = ["vyper.evm.assembler.optimizer:" + n for n in (
    "optimize_assembly", "_merge_iszero", "_stack_peephole_opts", "_prune_unreachable_code", "_prune_inefficient_jumps", "_optimize_inefficient_jumps",
    "_merge_jumpdests", "_prune_unused_jumpdests", "_RETURNS_ZERO_OR_ONE", "_TERMINAL_OPS")]

DEPTH = 40  # symbolic operand-stack entries below the window


def alphabet():
    from vyper.evm.assembler import optimizer as O
    from vyper.ir.optimizer import COMMUTATIVE_OPS

    from vyper.evm.opcodes import get_opcodes

    known = get_opcodes()
    ops = set(O._RETURNS_ZERO_OR_ONE) | set(O._TERMINAL_OPS) | {c.upper() for c in COMMUTATIVE_OPS if c.upper() in known}
    ops |= {"ISZERO", "DUP1", "DUP2", "SWAP1", "SWAP2", "SWAP3", "POP", "SUB", "NOT", "MLOAD", "MSTORE", "SSTORE", "CREATE", "CREATE2", "CALL", "STATICCALL", "JUMPI", "PUSH7"}
    return sorted(ops)


STACKY = ["ISZERO", "DUP1", "DUP2", "SWAP1", "SWAP2", "SWAP3", "POP", "SUB", "ADD", "EQ", "LT", "PUSH7", "MLOAD", "CREATE", "CALL"]
JUMPY = ["PUSHLABEL a", "PUSHLABEL b", "LABEL a", "LABEL b", "JUMP", "JUMPI", "ISZERO", "PUSH7", "STOP", "POP"]


def families(tier):
    """(name, alphabet, length) — every window of that length over that alphabet is enumerated"""
    full = alphabet() + ["PUSHLABEL a", "PUSHLABEL b", "LABEL a", "LABEL b"]
    fam = [("full", full, 1), ("full", full, 2), ("full", full, 3), ("stack", STACKY, 4), ("jump", JUMPY, 4), ("jump", JUMPY, 5)]
    if tier != "quick":
        fam += [("stack", STACKY, 5)]  # (39**4 windows over the full alphabet would take about an hour on 16 cores: not enumerated)
    return fam


def mk(sym):
    from vyper.evm.assembler.instructions import PUSHLABEL, Label

    if sym.startswith("PUSHLABEL "):
        return [PUSHLABEL(Label(sym.split()[1]))]
    if sym.startswith("LABEL "):
        return [Label(sym.split()[1])]
    if sym == "PUSH7":
        return ["PUSH1", 7]
    return [sym]


def build(window):
    out = []
    for s in window:
        out += mk(s)
    return out


def render(asm):
    return " ".join(str(x) for x in asm)


def harness(window):
    """the window in context: window ++ end marker, then a marker block for each label that the window references but does
    not define (real assemblies never end inside a peephole pattern; the optimiser is run on the whole harness program)"""
    from vyper.evm.assembler.instructions import PUSHLABEL, Label

    asm = build(window)
    defined = {x.label for x in asm if isinstance(x, Label)}
    used = {x.label.label for x in asm if isinstance(x, PUSHLABEL)}
    prog = ["JUMPDEST"] + list(asm) + ["PUSH1", 0xEE, "STOP"]
    for k, nm in enumerate(sorted(used - defined)):
        prog += [Label(nm), "PUSH1", 0xA0 + k, "STOP"]
    return prog


def assemble(prog):
    from vyper.evm.assembler.core import assembly_to_evm

    return assembly_to_evm(list(prog))[0]


def run_window(prog, env, aliases=None):
    from vverif.sem import asm as ASM

    stack = [z3.BitVec(f"s{i}", 256) for i in range(DEPTH)]
    return ASM.run(list(prog), env, stack=stack, max_steps=400, max_paths=64, aliases=aliases)


def equiv_goal(a, b, idx):
    if a.status != b.status:
        return z3.BoolVal(False)
    if a.stack is None or b.stack is None or len(a.stack) != len(b.stack):
        return z3.BoolVal(False)
    c = [x == y for x, y in zip(a.stack, b.stack)]
    c.append(a.world.mem.load8(idx) == b.world.mem.load8(idx))
    c.append(z3.Select(a.world.storage, idx) == z3.Select(b.world.storage, idx))
    ta, tb = a.world.trace, b.world.trace
    if len(ta) != len(tb):
        return z3.BoolVal(False)
    from vverif.contracts.relational import event_eq

    for ea, eb in zip(ta, tb):
        if ea[0] in ("sstore", "tstore"):
            c.append(z3.And(ea[1] == eb[1], ea[2] == eb[2]) if ea[0] == eb[0] else z3.BoolVal(False))
        else:
            c.append(event_eq(ea, eb, idx))
    return z3.And(*c)


def check_window(obs, window, timeout):
    from vyper.evm.assembler import optimizer as O

    labels = [w for w in window if w.startswith("LABEL ")]
    if len(labels) != len(set(labels)):
        return 0  # requires: a label is defined at most once (the assembler rejects duplicates)
    for k, wd in enumerate(window):
        if wd.startswith("LABEL ") and ("PUSHLABEL " + wd.split()[1]) in window[k + 1:]:
            return 0  # requires: no back edge inside the window (termination of the window is not decided here)
    before = harness(window)
    after = harness(window)
    try:
        O.optimize_assembly(after)
    except Exception:
        # no output: not a statement about results (the property speaks about the optimised form); e.g. the self-loop
        # `LABEL a PUSHLABEL a JUMP` makes optimize_assembly give up with CompilerPanic (recorded in DESIGN.md as an observation)
        return 0
    if render(before) == render(after):
        return 0
    replay = {"kind": "window", "window": list(window), "before": render(before), "after": render(after)}
    env = Mx.Env()
    try:
        from vverif.sem.asm import label_aliases

        al = label_aliases(before)
        A = run_window(before, env, al)
        B = run_window(after, env, al)
    except Unsupported as e:
        obs.append({"clause": "window-equivalent", "status": "unknown", "backend": "engine", "seconds": 0, "model": None, "note": f"{render(before)}: {e}", "replay": replay})
        return 1
    idx = z3.BitVec("idx!", 256)
    goals = []
    for a in A:
        for b in B:
            both = z3.And(a.pc, b.pc)
            if z3.is_false(z3.simplify(both)):
                continue
            goals.append(z3.Implies(both, equiv_goal(a, b, idx)))
    terms = {f"s{i}": z3.BitVec(f"s{i}", 256) for i in range(DEPTH)}
    discharge(obs, "window-equivalent", z3.And(*goals) if goals else z3.BoolVal(False), hyps=list(env.assumptions), timeout_ms=timeout, replay=replay,
              note=f"{render(before)}  =>  {render(after)}", eval_terms=terms)
    return 1


def job_windows(fam_name, alpha, length, lo, hi, scale=1):
    """windows number lo..hi (in itertools.product order) of the family"""
    obs = []
    timeout = 10000 * scale
    n_changed = 0
    for k, window in enumerate(itertools.islice(itertools.product(alpha, repeat=length), lo, hi)):
        n_changed += check_window(obs, window, timeout)
    fact(obs, "windows-enumerated", True, note=f"{hi - lo} windows, {n_changed} changed by optimize_assembly")
    return number(obs)


def n_windows(alpha, length):
    return len(alpha) ** length


def replay_window(o):
    """native replay in pyrevm: initial stack pushed from the model, window, then the top entries of the stack are returned"""
    import os
    import sys

    r, m = o["replay"], o.get("model") or {}
    if "before" not in r:
        return {"reproduced": True, "detail": o.get("note", "")}
    from vyper.evm.assembler.core import assembly_to_evm
    from vyper.evm.assembler.instructions import PUSHLABEL, Label

    res = {}
    cwd = os.getcwd()
    os.chdir(os.environ.get("VVERIF_REPO", "/repo"))
    try:
        from eth_keys import keys
        from tests.evm_backends.revm_env import RevmEnv
        from vyper.evm.assembler import optimizer as O

        for which in ("before", "after"):
            asm = harness(r["window"])
            if which == "after":
                O.optimize_assembly(asm)
            pre = []
            for i in range(DEPTH):
                pre += ["PUSH32"] + list(int(m.get(f"s{i}", 0)).to_bytes(32, "big"))
            NDUMP = 6
            dump = []
            for i in range(NDUMP):
                dump += ["PUSH1", 32 * i, "MSTORE"]
            dump += ["PUSH1", 32 * NDUMP, "PUSH0", "RETURN"]
            # every marker `PUSH1 m STOP` becomes `PUSH1 m <dump top entries and return>`
            prog = list(pre)
            for x in asm:
                if x == "STOP":
                    prog += dump
                else:
                    prog.append(x)
            runtime, _ = assembly_to_evm(prog)
            init = bytes([0x61]) + len(runtime).to_bytes(2, "big") + bytes([0x80, 0x60, 0x0C, 0x5F, 0x39, 0x5F, 0xF3])
            init = init.ljust(12, b"\x00") + runtime
            env = RevmEnv(gas_limit=10**9, account_keys=[keys.PrivateKey(b"\x01" * 32)], tracing=False, block_number=1, evm_version="cancun", exporter=None)
            env.set_balance(env.deployer, 10**30)
            try:
                addr = env._deploy(init, value=0)
                out = env.message_call(addr, data=b"")
                res[which] = ("return", bytes(out).hex())
            except Exception as e:
                res[which] = ("fail", repr(e)[:120])
    except Exception as e:
        return {"reproduced": None, "detail": f"native harness failed: {e!r}"}
    finally:
        os.chdir(cwd)
    differs = res["before"] != res["after"]
    return {"reproduced": True if differs else None, "detail": f"window [{r['before']}] vs optimised [{r['after']}] natively (top of stack dumped): before={res['before']} after={res['after']}"}


REPLAY = {"window": replay_window}
