"""C07 — dispatch contract on the compiler's run-time entry code (template route) and on the jump-table kernels (PyVC/FinEx).

For a contract shape (a list of external functions with chosen argument kinds, payability, default arguments, an optional
__default__) the real compiler's bytecode is denoted for ALL calldata (any length, any four-byte prefix) and call values:

   success          ==>  the function selected by the first four bytes ran (its result identifies it and is computed from the
                         decoded arguments / declared defaults), its entry conditions held
                         (calldatasize >= 4 + static head size, value = 0 unless payable);
                         if no selector matches (or calldatasize < 4): __default__ exists, accepts the value, and it ran
   failure          ==>  no entry whose conditions hold with canonical arguments, and not (no match /\\ __default__ would accept)
   paths exhaustive

The selectors, head sizes and payability the contract is stated over are read from the ABI output (so the same obligations
decide C19's "no method id listed that the bytecode does not serve, or vice versa" for these shapes).
"""
import z3

from vverif.jobutil import discharge, fact, number
from vverif.sem import bytecode as BC
from vverif.sem import machine as Mx
from vverif.sem import templates as T
from vverif.sem.machine import BV, Unsupported

FUNCS = [
    "vyper.codegen.module:_selector_section_dense", "vyper.codegen.module:_selector_section_sparse", "vyper.codegen.module:_selector_section_linear",
    "vyper.codegen.module:generate_ir_for_module",
    "vyper.codegen.function_definitions.external_function:_generate_kwarg_handlers",
    "vyper.codegen.function_definitions.external_function:generate_ir_for_external_function",
    "vyper.codegen.function_definitions.common:_ir_for_fallback_or_ctor" if False else "vyper.codegen.module:_ir_for_fallback_or_ctor",
    "vyper.codegen_venom.module:_generate_selector_section_linear", "vyper.codegen_venom.module:_generate_selector_section_sparse",
    "vyper.codegen_venom.module:_generate_selector_section_dense", "vyper.codegen_venom.module:generate_runtime_venom",
    "vyper.codegen.jumptable_utils:generate_sparse_jumptable_buckets", "vyper.codegen.jumptable_utils:generate_dense_jumptable_info",
    "vyper.semantics.types.function:ContractFunctionT.method_ids",
]

# argument kinds: (source parameter list, number of head words, kind)
KINDS = {
    "none": ("", 0),
    "word": ("x: uint256", 1),
    "two": ("x: uint256, y: uint256", 2),
    "dyn": ("b: Bytes[10], y: uint256", 2),
    "kw": ("x: uint256, y: uint256 = 7", 2),
}


def _keccak4(sig):
    from vyper.utils import keccak256

    return int.from_bytes(keccak256(sig.encode())[:4], "big")


def _name_with(pred, prefix, start=0):
    """a function name whose `name()` selector satisfies pred (brute force over a counter)"""
    i = start
    while True:
        nm = f"{prefix}{i}"
        if pred(nm):
            return nm
        i += 1


def shape(sid):
    """-> (source, description list).  Function k returns a word that identifies k:  k-th function's result is
       none: K_k;  word: x ^ K_k;  two: x ^ (y << 8) ^ K_k;  dyn: y ^ K_k;  kw: x ^ (y << 8) ^ K_k (y defaults to 7)"""
    kind, _, rest = sid.partition(":")
    fns = []  # (name, argkind, payable)
    default = None
    if kind == "n":
        # n functions, mixed payability and argument kinds; optional default
        parts = rest.split(",")
        n = int(parts[0])
        opts = set(parts[1:])
        kinds = ["word", "none", "two", "word", "none"] if "dyn" not in opts else ["word", "dyn", "none", "two", "dyn"]
        if "kw" in opts:
            kinds = ["kw", "word", "none"]
        for k in range(n):
            fns.append((f"fn{k}", kinds[k % len(kinds)], ("pay" in opts) and k % 2 == 1))
        if "default" in opts:
            default = "nonpayable"
        if "paydefault" in opts:
            default = "payable"
    elif kind == "zeros":
        # selectors with trailing zero bytes and one equal to 0x00000000-ish (low byte zero), mixed payability
        n = int(rest)
        names = []
        st = 0
        for k in range(n):
            nm = _name_with(lambda s: _keccak4(s + "(uint256)") & 0xFF == 0 and s not in names, "z", st)
            st = int(nm[1:]) + 1
            names.append(nm)
        fns = [(nm, "word", k % 2 == 0) for k, nm in enumerate(names)]
        fns.append(("plain", "none", False))
    elif kind == "collide":
        # several selectors congruent modulo small bucket counts (same low bits)
        n = int(rest)
        names = []
        st = 0
        for k in range(n):
            nm = _name_with(lambda s: _keccak4(s + "()") % 6 == 1 and s not in names, "c", st)
            st = int(nm[1:]) + 1
            names.append(nm)
        fns = [(nm, "none", k % 3 == 0) for k, nm in enumerate(names)]
    else:
        raise ValueError(sid)
    src = []
    desc = []
    for k, (nm, ak, pay) in enumerate(fns):
        K = 0x1000 + 17 * k
        params, nhead = KINDS[ak]
        body = {"none": f"{K}", "word": f"x ^ {K}", "two": f"x ^ (y << 8) ^ {K}", "dyn": f"y ^ {K}", "kw": f"x ^ (y << 8) ^ {K}"}[ak]
        src.append("@external\n" + ("@payable\n" if pay else "") + f"def {nm}({params}) -> uint256:\n    return {body}\n")
        desc.append({"name": nm, "kind": ak, "K": K, "payable": pay})
    if default:
        src.insert(0, "event D:\n    v: uint256\n")
        src.append("@external\n" + ("@payable\n" if default == "payable" else "") + "def __default__():\n    log D(v=" + ("msg.value" if default == "payable" else "0") + ")\n")
    return "\n".join(src), desc, default


def family(quick):
    ids = ["n:1", "n:2,pay", "n:3,pay,default", "n:4,pay", "n:5,pay,paydefault", "n:6,pay,dyn", "n:3,kw", "n:5,kw,pay,default", "zeros:5", "collide:6", "n:12,pay,dyn,default"]
    if not quick:
        ids += ["n:40,pay", "n:61,pay,dyn,paydefault", "zeros:9", "collide:12", "n:7,kw,pay"]
    return ids


def success(o):
    return o.status in ("return", "stop")


def _entries(src, desc, cfg, evm):
    full = T.compile_full(src, cfg, evm)
    abi = full["abi"]
    # `method_identifiers` also lists "__default__()"; a call carrying that id reaches __default__ like any unmatched selector
    mids = {k: int(v, 16) for k, v in full["method_identifiers"].items() if not k.startswith("__default__(")}
    by_name = {d["name"]: d for d in desc}
    entries = []
    for ent in abi:
        if ent.get("type") != "function":
            continue
        sig = ent["name"] + "(" + ",".join(i["type"] for i in ent["inputs"]) + ")"
        entries.append({"sig": sig, "id": mids.get(sig), "nin": len(ent["inputs"]), "payable": ent["stateMutability"] == "payable", "d": by_name[ent["name"]]})
    return entries, mids


class Spec:
    """the dispatch contract of the property, as formulas over the symbolic call (env)"""

    def __init__(self, env, entries, default):
        self.env, self.entries, self.default = env, entries, default
        self.sel = T.selector(env)
        self.has_sel = z3.UGE(env.calldatasize, BV(4))
        self.no_match = z3.Not(z3.Or(*[self.matches(e) for e in entries]))
        self.default_ok = z3.BoolVal(False)
        if default == "payable":
            self.default_ok = self.no_match
        elif default == "nonpayable":
            self.default_ok = z3.And(self.no_match, env.callvalue == 0)
        self.any_ok_canonical = z3.Or(*[z3.And(self.entry_ok(e), self.args_canonical(e)) for e in entries])
        self.any_ok = z3.Or(*[self.entry_ok(e) for e in entries])

    def matches(self, e):
        return z3.And(self.has_sel, self.sel == BV(e["id"]))

    def entry_ok(self, e):
        c = [self.matches(e), z3.UGE(self.env.calldatasize, BV(4 + 32 * e["nin"]))]
        if not e["payable"]:
            c.append(self.env.callvalue == 0)
        return z3.And(*c)

    def args_canonical(self, e):
        if e["d"]["kind"] == "dyn":
            off = T.arg(self.env, 0)
            ln = self.env.cd_word(BV(4) + off)
            return z3.And(off == 64, z3.ULE(ln, BV(10)))
        return z3.BoolVal(True)

    def expected(self, e):
        d = e["d"]
        K = BV(d["K"])
        x, y = T.arg(self.env, 0), T.arg(self.env, 1)
        if d["kind"] == "none":
            return K
        if d["kind"] == "word":
            return x ^ K
        if d["kind"] == "two":
            return x ^ (y << 8) ^ K
        if d["kind"] == "dyn":
            return y ^ K
        if d["kind"] == "kw":
            yy = y if e["nin"] == 2 else BV(7)
            return x ^ (yy << 8) ^ K


def job_dispatch(sid, cfg, evm="cancun", scale=1):
    obs = []
    timeout = 30000 * scale
    src, desc, default = shape(sid)
    replay = {"kind": "dispatch", "tid": sid, "src": src, "cfg": cfg, "evm": evm}
    entries, mids = _entries(src, desc, cfg, evm)
    try:
        env = Mx.Env()
        code, _ = T.compile_runtime(src, cfg, evm)
        outs = BC.run(code, env, evm_version=evm, max_paths=6000, max_steps=60000)
    except Unsupported as e:
        obs.append({"clause": "denote", "status": "unknown", "backend": "engine", "seconds": 0, "model": None, "note": "outside the bytecode denotation: " + str(e)})
        return number(obs)
    # ABI truthfulness prerequisites (C19): one ABI entry per listed method id and vice versa; ids are keccak4 of the signature
    fact(obs, "abi-entries-match-method-identifiers", sorted(e["sig"] for e in entries) == sorted(mids), replay=dict(replay, static=True))
    fact(obs, "method-ids-are-keccak4-of-signature", all(_keccak4(s) == i for s, i in mids.items()), replay=dict(replay, static=True))
    fact(obs, "abi-payability-matches-declaration", all(e["payable"] == e["d"]["payable"] for e in entries), replay=dict(replay, static=True))
    if any(e["id"] is None for e in entries):
        return number(obs)
    S = Spec(env, entries, default)
    terms = T.cd_eval_terms(env, 4)
    discharge(obs, "paths-exhaustive", z3.Or(*[o.pc for o in outs]), hyps=list(env.assumptions), timeout_ms=timeout, replay=replay)
    n_succ = 0
    for o in outs:
        logs = [ev for ev in o.world.trace if ev[0] == "log"]
        if success(o):
            n_succ += 1
            goal = []
            for e in entries:
                ran_e = z3.And(S.entry_ok(e), o.data["len"] == BV(32), T.ret_word(o, 0) == S.expected(e)) if (o.status == "return" and not logs) else z3.BoolVal(False)
                goal.append(z3.Implies(S.matches(e), ran_e))
            if o.status == "stop" and len(logs) == 1 and default:
                ran_default = z3.And(S.default_ok, Mx.data_word(logs[0][2], 0) == env.callvalue)
            else:
                ran_default = z3.BoolVal(False)
            goal.append(z3.Implies(S.no_match, ran_default))
            discharge(obs, "success-means-selected-entry-ran", z3.Implies(o.pc, z3.And(*goal)), timeout_ms=timeout, replay=replay, eval_terms=terms)
        else:
            discharge(obs, "failure-means-no-entry-accepts", z3.Implies(o.pc, z3.Not(z3.Or(S.any_ok_canonical, S.default_ok))), timeout_ms=timeout, replay=replay, eval_terms=terms)
    fact(obs, "some-successful-path", n_succ > 0, replay=dict(replay, static=True))
    return number(obs)


def replay_dispatch(o):
    """native replay: the calldata / value of the counter-model are run on the real compiler output in pyrevm; the dispatch
    contract is evaluated concretely on the same calldata; reproduced iff the native outcome contradicts the contract"""
    r, m = o["replay"], o.get("model") or {}
    if r.get("static"):
        return {"reproduced": True, "detail": "compile-time fact about the ABI / method_identifiers outputs: " + o["clause"]}
    if "cds" not in m:
        return {"reproduced": None, "detail": "no calldata in the solver model"}
    src, desc, default = shape(r["tid"])
    entries, mids = _entries(src, desc, r["cfg"], r["evm"])
    cd = T.calldata_from_model(m)
    val = m.get("callvalue", 0)
    env = Mx.Env()
    S = Spec(env, entries, default)
    sub = T.concrete_subst(env, cd, val)

    def ev(f):
        return z3.simplify(z3.substitute(f, *sub))

    must_succeed = z3.is_true(ev(z3.Or(S.any_ok_canonical, S.default_ok)))
    may_succeed = z3.is_true(ev(z3.Or(S.any_ok, S.default_ok)))
    exp_word = None
    for e in entries:
        if z3.is_true(ev(S.entry_ok(e))):
            exp_word = ev(S.expected(e)).as_long()
    st, data = T.native_call(src, r["cfg"], cd, value=val, evm_version=r["evm"])
    det = f"cfg={r['cfg']} calldata=0x{cd.hex()[:600]} value={val}: native -> {st} {data.hex() if st == 'return' else ''}; contract: must_succeed={must_succeed} may_succeed={may_succeed} expected_word={exp_word}"
    bad = (st == "return" and not may_succeed) or (st == "revert" and must_succeed) or (st == "return" and exp_word is not None and data != exp_word.to_bytes(32, "big"))
    return {"reproduced": bool(bad), "detail": det}


REPLAY = {"dispatch": replay_dispatch}


# ------------------------------------------------------------------------------------------------ jump-table kernels
def job_jumptable(seed, scale=1):
    """bounded stand-in (run-time contract evaluation, not a proof) for codegen/jumptable_utils.py on selector sets of the sizes
    the compiler sees:
       sparse: the returned buckets are exactly _mk_buckets(ids, n): every id lands in bucket id % n, nothing lost or duplicated;
       dense:  no empty bucket; per bucket the images under the returned magic are a permutation of range(len(bucket)), and
               method_ids_image_order lists the id with image k at position k"""
    import random

    from vyper.codegen import jumptable_utils as J
    from vyper.utils import method_id_int

    obs = []
    rnd = random.Random(seed)
    for n in (1, 2, 3, 5, 8, 13, 40, 80):
        for rep in range(3):
            sigs = [f"f{rnd.randrange(10**9)}(uint256)" for _ in range(n)]
            sigs = list(dict.fromkeys(sigs))
            ids = [method_id_int(s) for s in sigs]
            nb, buckets = J.generate_sparse_jumptable_buckets(sigs)
            flat = sorted(x for b in buckets.values() for x in b)
            ok = flat == sorted(ids) and all(all(x % nb == k for x in b) for k, b in buckets.items())
            fact(obs, f"sparse-buckets-partition[n={len(ids)};rep={rep}]", ok, bounded=True, note=f"n_buckets={nb}")
            if len(ids) >= 2:
                nbd, dn = J.generate_dense_jumptable_info(sigs)
                okd = len(dn) == nbd and sorted(dn) == list(range(nbd))
                seen = []
                for bid, b in dn.items():
                    img = [((x * b.magic) >> 24) % len(b.method_ids) for x in b.method_ids]
                    okd = okd and sorted(img) == list(range(len(b.method_ids)))
                    order = b.method_ids_image_order
                    okd = okd and all(((x * b.magic) >> 24) % len(order) == k for k, x in enumerate(order))
                    okd = okd and all(x % nbd == bid for x in b.method_ids) and 0 <= b.magic < 2**16
                    seen += b.method_ids
                okd = okd and sorted(seen) == sorted(ids)
                fact(obs, f"dense-buckets-perfect-hash[n={len(ids)};rep={rep}]", okd, bounded=True)
    return number(obs)
