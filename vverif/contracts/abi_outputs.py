"""C19 — ABI, method identifiers and interface outputs describe the deployed contract (narrow claim, per template).

  * the ABI json entries equal an independent derivation from the annotated source (names, canonical type strings with
    tuple components, the 1-tuple / n-tuple output rule, indexed flags, stateMutability), one entry per default-argument variant;
  * method_identifiers == {signature: keccak4(signature)} for exactly those entries;
  * behaviour matches the declared mutability on the real bytecode, for all calldata/state: no successful path of a view/pure
    entry performs a state-changing operation (so it succeeds under STATICCALL); no successful path of a non-payable entry
    carries value; a payable entry has a successful path with value;
  * the generated interface text is accepted by the compiler.
"""
import z3

from vverif.jobutil import discharge, fact, number
from vverif.sem import bytecode as BC
from vverif.sem import machine as Mx
from vverif.sem import templates as T
from vverif.sem.machine import BV
from vverif.smt import feasible

FUNCS = ["vyper.compiler.output:build_abi_output", "vyper.compiler.output:build_method_identifiers_output", "vyper.compiler.output:build_interface_output", "vyper.compiler.output:build_external_interface_output",
         "vyper.semantics.types.function:ContractFunctionT.to_toplevel_abi_dict", "vyper.semantics.types.user:EventT.to_toplevel_abi_dict", "vyper.semantics.types.base:VyperType.to_abi_arg"]


def type_json(t, name=None):
    """ABI json description of a type, from the ABI specification (independent of VyperType.to_abi_arg)"""
    from vyper.semantics.types import DArrayT, SArrayT, StructT, TupleT
    from vyper.semantics.types.bytestrings import BytesT, StringT
    from vverif.spec_source import tname

    d = {}
    if name is not None:
        d["name"] = name
    n = tname(t)
    if n is not None:
        if n == "decimal":
            d["type"] = "int168"
        elif n.startswith("flag"):
            d["type"] = "uint256"
        else:
            d["type"] = n
        return d
    if isinstance(t, BytesT):
        d["type"] = "bytes"
        return d
    if isinstance(t, StringT):
        d["type"] = "string"
        return d
    if isinstance(t, (SArrayT, DArrayT)):
        inner = type_json(t.value_type)
        d["type"] = inner["type"] + (f"[{t.count}]" if isinstance(t, SArrayT) else "[]")
        if "components" in inner:
            d["components"] = inner["components"]
        return d
    if isinstance(t, StructT):
        d["type"] = "tuple"
        d["components"] = [type_json(mt, mn) for mn, mt in t.member_types.items()]
        return d
    if isinstance(t, TupleT):
        d["type"] = "tuple"
        d["components"] = [type_json(mt, "") for mt in t.member_types]
        return d
    raise ValueError(f"type {t}")


def sig_type(j):
    if j["type"].startswith("tuple"):
        return "(" + ",".join(sig_type(c) for c in j["components"]) + ")" + j["type"][5:]
    return j["type"]


def _strip(j):
    """compare type structure only: name of nested components is kept, internalType etc. are ignored"""
    out = {"type": j["type"]}
    if "name" in j:
        out["name"] = j["name"]
    if "components" in j:
        out["components"] = [_strip(c) for c in j["components"]]
    if "indexed" in j:
        out["indexed"] = j["indexed"]
    return out


def expected_abi(src, settings):
    from vyper import ast as vy_ast
    from vyper.compiler.phases import CompilerData
    from vyper.semantics.types import TupleT

    cd = CompilerData(src, settings=settings)
    mod = cd.annotated_vyper_module
    entries = []
    fdefs = []
    for n in mod.body:
        if isinstance(n, vy_ast.FunctionDef):
            fdefs.append(n)
        elif isinstance(n, vy_ast.VariableDecl) and getattr(n, "_expanded_getter", None) is not None:
            fdefs.append(n._expanded_getter)
        elif isinstance(n, vy_ast.EventDef):
            et = n._metadata["event_type"]
            entries.append({"type": "event", "name": et.name, "inputs": [dict(type_json(t, nm), indexed=bool(ix)) for (nm, t), ix in zip(et.arguments.items(), et.indexed)]})
    for f in fdefs:
        ft = f._metadata["func_type"]
        mut = ft.mutability.value
        if ft.is_constructor:
            entries.append({"type": "constructor", "stateMutability": mut, "inputs": [type_json(a.typ, a.name) for a in ft.positional_args]})
            continue
        if not ft.is_external:
            continue
        if ft.is_fallback:
            entries.append({"type": "fallback", "stateMutability": mut})
            continue
        rt = ft.return_type
        if rt is None:
            outs = []
        elif isinstance(rt, TupleT) and len(rt.member_types) > 1:
            outs = [type_json(m, "") for m in rt.member_types]
        else:
            outs = [type_json(rt, "")]
        for k in range(len(ft.keyword_args) + 1):
            args = list(ft.positional_args) + list(ft.keyword_args[:k])
            entries.append({"type": "function", "name": ft.name, "stateMutability": mut, "inputs": [type_json(a.typ, a.name) for a in args], "outputs": outs})
    return entries


def _norm(e):
    d = {"type": e.get("type")}
    for k in ("name", "stateMutability"):
        if k in e:
            d[k] = e[k]
    if "inputs" in e:
        d["inputs"] = [_strip(i) for i in e["inputs"]]
    if "outputs" in e and not (e.get("type") == "constructor" and not e["outputs"]):
        d["outputs"] = [_strip(i) for i in e["outputs"]]
    return d


STATE_CHANGING = ("sstore", "tstore", "log", "call", "callcode", "delegatecall", "create", "create2", "selfdestruct")


def job_abi(tid, src, cfg, evm="cancun", scale=1):
    import json
    import vyper
    from vverif.contracts.dispatch import _keccak4

    obs = []
    timeout = 20000 * scale
    replay = {"kind": "abi", "tid": tid, "src": src, "cfg": cfg, "evm": evm}
    st = T.settings_for(cfg, evm)
    out = vyper.compile_code(src, output_formats=["abi", "method_identifiers", "bytecode_runtime", "interface"], settings=st)
    abi = out["abi"]
    exp = expected_abi(src, st)
    key = lambda e: json.dumps(_norm(e), sort_keys=True)
    got_set, exp_set = sorted(key(e) for e in abi), sorted(key(e) for e in exp)
    fact(obs, "abi-json-equals-independent-derivation", got_set == exp_set, replay=dict(replay, static=True),
         note="" if got_set == exp_set else "only in output: " + str([x for x in got_set if x not in exp_set])[:300] + " | only expected: " + str([x for x in exp_set if x not in got_set])[:300])
    sigs = {}
    for e in exp:
        if e["type"] == "function":
            s = e["name"] + "(" + ",".join(sig_type(i) for i in e["inputs"]) + ")"
            sigs[s] = e
    mids = {k: int(v, 16) for k, v in out["method_identifiers"].items() if not k.startswith("__default__(")}
    fact(obs, "method-identifiers-are-exactly-keccak4-of-the-abi-signatures", mids == {s: _keccak4(s) for s in sigs}, replay=dict(replay, static=True), note=str(sorted(mids))[:200])
    # the generated interface text is itself accepted by the compiler
    try:
        vyper.compile_code(out["interface"], contract_path="iface.vyi", output_formats=["abi"], settings=st)
        ok_if = True
        note = ""
    except Exception as e:
        ok_if = False
        note = f"{type(e).__name__}: {e}"[:300]
    fact(obs, "interface-output-is-valid-compiler-input", ok_if, replay=dict(replay, static=True), note=note)
    # behaviour vs declared mutability
    env = Mx.Env()
    try:
        code = bytes.fromhex(out["bytecode_runtime"][2:])
        outs = BC.run(code, env, evm_version=evm, max_paths=3000)
    except Mx.Unsupported as e:
        obs.append({"clause": "denote", "status": "unknown", "backend": "engine", "seconds": 0, "model": None, "note": str(e), "replay": replay})
        return number(obs)
    sel = T.selector(env)
    terms = T.cd_eval_terms(env, 3)
    for s, e in sigs.items():
        here = z3.And(z3.UGE(env.calldatasize, BV(4)), sel == BV(_keccak4(s)))
        mut = e["stateMutability"]
        n_ok = 0
        for o in outs:
            if o.status not in ("return", "stop") or not feasible(z3.And(o.pc, here), 2000):
                continue
            n_ok += 1
            if mut in ("view", "pure"):
                bad = [ev[0] for ev in o.world.trace if ev[0] in STATE_CHANGING]
                fact(obs, f"view-or-pure-entry-has-no-state-changing-operation[{s}]", not bad, replay=dict(replay, static=True), note=f"{mut} {s}: " + ",".join(bad))
            if mut != "payable":
                discharge(obs, f"non-payable-entry-refuses-value[{s}]", z3.Not(z3.And(o.pc, here, env.callvalue != 0)), timeout_ms=timeout, replay=replay, eval_terms=terms)
        if mut == "payable":
            fact(obs, f"payable-entry-accepts-value[{s}]", any(o.status in ("return", "stop") and feasible(z3.And(o.pc, here, env.callvalue != 0), 2000) for o in outs), replay=dict(replay, static=True))
        fact(obs, f"listed-entry-is-served[{s}]", n_ok > 0, replay=dict(replay, static=True))
    return number(obs)


def replay_abi(o):
    r = o["replay"]
    if r.get("static"):
        return {"reproduced": True, "detail": "deterministic fact about the compiler outputs for this template: " + (o.get("note") or o["clause"])}
    from vverif.contracts.template_specs import replay_tmpl

    return replay_tmpl(o)


REPLAY = {"abi": replay_abi}


def family():
    from vverif.contracts import abi_family as F
    from vverif.contracts import dispatch as D
    from vverif.contracts.templates_lib import build

    Tl = build(True)
    fam = {}
    for sid in ("n:3,pay,default", "n:5,kw,pay,default", "n:6,pay,dyn"):
        fam["dispatch." + sid] = D.shape(sid)[0]
    for k in ("storage.getter", "lock.view", "lock.pragma", "echo.struct", "echo.tuple", "event.static", "event.bytes", "dispatch.kwargs", "env.value", "immutable", "extcall.view", "echo.flag", "echo.dynarray"):
        fam[k] = Tl[k]
    c6 = F.c06_family(True)
    for k in ("ret.tuple1.bytes", "ret.tuple1.word", "ret.tuple.word-bytes", "ret.struct", "event.dynarray", "event.bytes-and-word"):
        fam["c06." + k] = c6[k]
    c5 = F.c05_family(True)
    for k in ("arg.dynarray.struct.mixed", "arg.sarray2.int8", "arg.decimal", "arg.kw.bytes"):
        fam["c05." + k] = c5[k]
    fam["getters.nested"] = "struct S:\n    a: uint8\n    b: address\n\nm: public(HashMap[address, HashMap[uint256, S]])\narr: public(DynArray[S, 3])\nc: public(constant(uint256)) = 5\n"
    return fam
