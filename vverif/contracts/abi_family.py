"""Template families for C04 (container bounds / write frames), C05 (strict ABI decoding) and C06 (canonical ABI encoding),
all decided by the contract `bytecode == reference semantics` (source_sem.job_src) with the ABI specification in spec_abi.py."""


def _fn(params, ret, body, deco="@external", pre=""):
    r = f" -> {ret}" if ret else ""
    return f"{pre}{deco}\ndef f({params}){r}:\n" + "".join("    " + l + "\n" for l in body.split("\n"))


S_MIX = "struct S:\n    w: uint256\n    b: bool\n\n"
S_NARROW = "struct S:\n    a: uint8\n    c: address\n    d: bytes3\n\n"
FLAG = "flag F:\n    A\n    B\n    C\n\n"


def c05_family(quick=True):
    """inputs: every class of argument word, byte strings and dynamic arrays (small bounds), structs, nested static arrays"""
    T = {}
    for t in ("bool", "address", "bytes1", "bytes20", "bytes32", "uint8", "int8", "uint160", "int168", "uint256", "int256", "decimal"):
        T[f"arg.{t}"] = _fn(f"x: {t}", t, "return x")
    T["arg.flag"] = _fn("x: F", "F", "return x", pre=FLAG)
    T["arg.struct.narrow"] = _fn("x: S", "S", "return x", pre=S_NARROW)
    T["arg.struct.mixed"] = _fn("x: S", "S", "return x", pre=S_MIX)
    T["arg.sarray.bool"] = _fn("x: bool[3]", "bool[3]", "return x")
    T["arg.sarray2.int8"] = _fn("x: int8[2][2]", "int8", "return x[1][0]")
    T["arg.bytes5"] = _fn("x: Bytes[5]", "Bytes[5]", "return x")
    T["arg.bytes33"] = _fn("x: Bytes[33]", "Bytes[33]", "return x")
    T["arg.string4"] = _fn("x: String[4]", "String[4]", "return x")
    T["arg.word-then-bytes"] = _fn("n: uint8, x: Bytes[5]", "uint256", "return convert(n, uint256) ^ len(x)")
    T["arg.two-bytes"] = _fn("a: Bytes[4], b: Bytes[3]", "uint256", "return (len(a) << 8) ^ len(b)")
    T["arg.dynarray.uint8"] = _fn("x: DynArray[uint8, 2]", "DynArray[uint8, 2]", "return x")
    T["arg.dynarray.bool"] = _fn("x: DynArray[bool, 2]", "uint256", "return len(x)")
    T["arg.dynarray.int128.elem"] = _fn("x: DynArray[int128, 2]", "int128", "return x[0]")
    T["arg.dynarray.struct.mixed"] = _fn("x: DynArray[S, 2]", "DynArray[S, 2]", "return x", pre=S_MIX)
    T["arg.dynarray.struct.mixed.len"] = _fn("x: DynArray[S, 2]", "uint256", "return len(x)", pre=S_MIX)
    IFD = "interface I:\n    def bs(a: uint256) -> Bytes[5]: view\n    def tag(a: uint256, b: uint256) -> String[4]: view\n    def arr(a: uint256) -> DynArray[uint8, 2]: view\n    def setb(a: uint256) -> Bytes[5]: nonpayable\n\n"
    T["extcall.ret.bytes"] = IFD + _fn("t: address, a: uint256", "Bytes[5]", "return staticcall I(t).bs(a)")
    T["extcall.ret.string.two-args"] = IFD + _fn("t: address, a: uint256, b: uint256", "String[4]", "return staticcall I(t).tag(a, b)")
    if not quick:
        T["extcall.ret.dynarray"] = IFD + _fn("t: address, a: uint256", "DynArray[uint8, 2]", "return staticcall I(t).arr(a)")
    T["extcall.ret.bytes.default"] = IFD + _fn("t: address, a: uint256", "Bytes[5]", "return extcall I(t).setb(a, default_return_value=b\"dflt\")")
    T["arg.kw.bytes"] = "@external\ndef f(x: uint256, b: Bytes[4] = b\"ab\", y: uint256 = 7) -> uint256:\n    return x ^ (y << 8) ^ (len(b) << 16)\n"
    return T


def c06_family(quick=True):
    """outputs: return data, event topics/data, revert payloads, built in memory that held other data before"""
    T = {}
    T["ret.tuple.static"] = _fn("x: uint8, y: int16", "(int16, uint8)", "return y, x")
    T["ret.tuple.word-bytes"] = _fn("n: uint256, x: Bytes[5]", "(uint256, Bytes[5])", "return n, x")
    T["ret.tuple1.bytes"] = _fn("x: Bytes[5]", "(Bytes[5],)", "return (x,)")
    T["ret.tuple1.word"] = _fn("x: uint256", "(uint256,)", "return (x,)")
    T["ret.struct"] = _fn("x: S", "S", "return x", pre=S_NARROW)
    T["ret.dynarray.uint8"] = _fn("a: uint8, b: uint8", "DynArray[uint8, 3]", "return [a, b]")
    T["ret.int8.signext"] = _fn("x: int8", "int8", "return x")
    T["ret.bytes.literal"] = _fn("", "Bytes[5]", "return b\"hello\"")
    T["dirty.overwrite-shorter"] = _fn("a: Bytes[9], b: Bytes[9]", "Bytes[9]", "x: Bytes[9] = a\nx = b\nreturn x")
    T["dirty.two-events"] = "event E:\n    v: Bytes[9]\n\n" + _fn("a: Bytes[9], b: Bytes[9]", "", "log E(v=a)\nlog E(v=b)")
    T["dirty.event-then-return"] = "event E:\n    v: Bytes[9]\n\n" + _fn("a: Bytes[9], b: Bytes[9]", "Bytes[9]", "log E(v=a)\nreturn b")
    T["dirty.abi_encode-loop"] = "event E:\n    v: Bytes[9]\n\n" + _fn("a: Bytes[9], b: Bytes[9]", "", "for i: uint256 in range(2):\n    log E(v=a if i == 0 else b)")
    if not quick:
        T["dirty.overwrite-shorter.33"] = _fn("a: Bytes[33], b: Bytes[33]", "Bytes[33]", "x: Bytes[33] = a\nx = b\nreturn x")
        T["dirty.two-events.33"] = "event E:\n    v: Bytes[33]\n\n" + _fn("a: Bytes[33], b: Bytes[33]", "", "log E(v=a)\nlog E(v=b)")
    T["event.indexed-and-data"] = "event E:\n    a: indexed(uint256)\n    b: int128\n    c: bool\n\n" + _fn("x: uint256, y: int128", "", "log E(a=x, b=y, c=x > 3)")
    T["event.bytes-and-word"] = "event E:\n    a: indexed(address)\n    b: Bytes[5]\n    n: uint8\n\n" + _fn("y: Bytes[5], n: uint8", "", "log E(a=msg.sender, b=y, n=n)")
    T["event.dynarray"] = "event E:\n    v: DynArray[uint8, 2]\n\n" + _fn("y: DynArray[uint8, 2]", "", "log E(v=y)")
    T["revert.reason"] = _fn("x: uint256", "uint256", 'assert x != 7, "seven"\nreturn x')
    T["revert.raise-reason"] = _fn("x: uint256", "uint256", 'if x == 1:\n    raise "a reason of more than thirty-two bytes!!"\nreturn x')
    if not quick:
        T["storage.bytes.echo"] = "b: Bytes[33]\n\n" + _fn("x: Bytes[33]", "Bytes[33]", "self.b = x\nreturn self.b")
    return T


def c04_family(quick=True):
    """container accesses: bounds, and the frame of writes (whole final state compared)"""
    T = {}
    for it in ("uint256", "int128", "uint8", "int256"):
        T[f"sarray.read.{it}"] = _fn(f"x: uint128[4], i: {it}", "uint128", "return x[i]")
    T["sarray.nested.read"] = _fn("x: uint8[2][3], i: uint256, j: uint256", "uint8", "return x[i][j]")
    T["sarray.local.write"] = _fn("i: uint256, v: uint256", "uint256[3]", "t: uint256[3] = [1, 2, 3]\nt[i] = v\nreturn t")
    T["storage.sarray.write"] = "a: uint256\narr: uint128[3]\nz: uint256\n\n" + _fn("i: uint256, v: uint128", "", "self.arr[i] = v")
    T["storage.sarray.write.signed"] = "a: uint256\narr: uint128[3]\nz: uint256\n\n" + _fn("i: int128, v: uint128", "", "self.arr[i] = v")
    T["storage.struct-array.write"] = "struct P:\n    u: uint256\n    f: bool\n\na: uint256\nps: P[2]\nz: uint256\n\n" + _fn("i: uint256, v: uint256", "", "self.ps[i].u = v\nself.ps[i].f = True")
    T["storage.nested.write"] = "a: uint256\ng: uint64[2][2]\nz: uint256\n\n" + _fn("i: uint256, j: uint256, v: uint64", "", "self.g[i][j] = v")
    T["storage.dynarray.append"] = "a: uint256\nd: DynArray[uint256, 2]\nz: uint256\n\n" + _fn("v: uint256", "uint256", "self.d.append(v)\nreturn len(self.d)")
    T["storage.dynarray.pop"] = "a: uint256\nd: DynArray[uint256, 2]\nz: uint256\n\n" + _fn("", "uint256", "return self.d.pop()")
    T["storage.dynarray.write"] = "a: uint256\nd: DynArray[uint256, 2]\nz: uint256\n\n" + _fn("i: uint256, v: uint256", "", "self.d[i] = v")
    T["storage.dynarray.struct.append"] = "struct P:\n    u: uint256\n    v: uint256\n\na: uint256\nd: DynArray[P, 2]\nz: uint256\n\n" + _fn("v: uint256", "", "self.d.append(P(u=v, v=v ^ 1))")
    T["transient.dynarray.struct.append"] = "struct P:\n    u: uint256\n    v: uint256\n\na: uint256\nz: uint256\nt: transient(DynArray[P, 2])\n\n" + _fn("v: uint256", "", "self.t.append(P(u=v, v=v ^ 1))")
    T["memory.dynarray.append-pop"] = _fn("x: DynArray[uint8, 2], v: uint8", "DynArray[uint8, 2]", "t: DynArray[uint8, 2] = x\nt.append(v)\nt.pop()\nt.append(v)\nreturn t")
    T["dynarray.read"] = _fn("x: DynArray[uint256, 2], i: uint256", "uint256", "return x[i]")
    T["dynarray.loop"] = _fn("x: DynArray[uint8, 3]", "uint256", "s: uint256 = 0\nfor v: uint8 in x:\n    s = (s << 8) ^ convert(v, uint256)\nreturn s")
    T["sarray.loop"] = _fn("x: uint8[3]", "uint256", "s: uint256 = 0\nfor v: uint8 in x:\n    s = (s << 8) ^ convert(v, uint256)\nreturn s")
    T["bytes.slice"] = _fn("x: Bytes[8], s: uint256, n: uint256", "Bytes[8]", "return slice(x, s, n)")
    T["bytes.slice.const-len"] = _fn("x: Bytes[8], s: uint256", "Bytes[2]", "return slice(x, s, 2)")
    T["bytes.extract32"] = _fn("x: Bytes[40], s: uint256", "bytes32", "return extract32(x, s)")
    T["bytes.concat"] = _fn("a: Bytes[4], b: bytes2, c: Bytes[3]", "Bytes[9]", "return concat(a, b, c)")
    T["bytes.concat.bm"] = _fn("a: bytes16, b: bytes12", "Bytes[28]", "return concat(a, b)")
    # the concat buffer is the last allocation of an internal frame; the caller's variables live right behind it
    T["bytes.concat.callee-frame.16-16"] = ("@internal\ndef _key(hi: bytes16, lo: bytes16) -> bytes32:\n    return keccak256(concat(hi, lo))\n\n"
                                            + _fn("hi: bytes16, lo: bytes16", "(bytes16, bytes32)", "k: bytes32 = self._key(hi, lo)\nreturn hi, k"))
    T["bytes.concat.callee-frame.20-12"] = ("@internal\ndef _key2(a: bytes20, b: bytes12) -> bytes32:\n    return keccak256(concat(a, b))\n\n"
                                            + _fn("a: bytes20, b: bytes12", "(bytes20, bytes32)", "k: bytes32 = self._key2(a, b)\nreturn a, k"))
    T["bytes.len-dependent-copy"] = "b: Bytes[8]\n\n" + _fn("x: Bytes[8]", "uint256", "self.b = x\nt: Bytes[8] = self.b\nreturn len(t)")
    return T
