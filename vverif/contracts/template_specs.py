"""Spec contracts on the compiler restricted to template families (GenVC, template route): the run-time bytecode produced by
the real compiler for a template under one configuration is denoted for ALL calldata / call value / prior state and
checked against the source-level meaning of the template (not against another configuration — that is relational.py).

   job_echo      C05/C06   `def f(x: T) -> T: return x`  : returns iff calldata long enough, selector, no value, and every
                           argument word canonical for T; the returned bytes are the canonical encoding of the value
   job_binop     C01/C03   `return x op y`               : exact-or-revert (operators whose template-level proof is cheap)
   job_dispatch  C07       several functions             : control reaches exactly the function selected, entry conditions
   job_lock      C09       protected functions           : re-entry at every outgoing call reverts; lock free after success
   job_order     C08       effects in source order       : sequence of observable effects of a path is the source order
   job_extcall   C12       interface calls               : opcode, value, calldata, failure propagation, return-data checks
"""
import z3

from vverif import spec_vyper as V
from vverif.jobutil import discharge, fact, number
from vverif.sem import bytecode as BC
from vverif.sem import machine as Mx
from vverif.sem import templates as T
from vverif.sem.machine import BV, Unsupported, conc
from vverif.smt import feasible

FUNCS = [
    "vyper.compiler.phases:CompilerData.bytecode_runtime",
    "vyper.codegen.module:generate_ir_for_module",
    "vyper.codegen.function_definitions.external_function:generate_ir_for_external_function",
    "vyper.codegen_venom.module:generate_runtime_venom",
    "vyper.ir.compile_ir:compile_to_assembly",
    "vyper.venom:generate_assembly_experimental",
    "vyper.evm.assembler.core:assembly_to_evm",
]


def _run(src, cfg, evm="cancun", env=None, **kw):
    code, mids = T.compile_runtime(src, cfg, evm)
    env = env or Mx.Env()
    outs = BC.run(code, env, evm_version=evm, **kw)
    return code, outs, env, {k: int(v, 16) for k, v in mids.items()}


def _unsupported(obs, e):
    obs.append({"clause": "denote", "status": "unknown", "backend": "engine", "seconds": 0, "model": None, "note": "outside the bytecode denotation: " + str(e)})
    return number(obs)


def success(o):
    return o.status in ("return", "stop")


# ------------------------------------------------------------------------------------------------ echo (decode + encode)
def words_of(tname):
    """leaf word types of a static ABI type description used by the echo templates"""
    if tname == "struct":
        return ["uint128", "bool", "address"]
    if tname == "tuple":
        return ["uint8", "int16"]
    if tname == "sarray":
        return ["uint8"] * 3
    if tname == "flag":
        return ["flag3"]
    return [tname]


def canonical(tn, w):
    if tn.startswith("flag"):
        return z3.LShR(w, int(tn[4:])) == 0
    return V.T(tn).canonical(w)


def job_echo(tid, src, tname, cfg, evm="cancun", scale=1):
    obs = []
    timeout = 20000 * scale
    replay = {"kind": "tmpl", "tid": tid, "src": src, "cfg": cfg, "evm": evm}
    try:
        code, outs, env, mids = _run(src, cfg, evm)
    except Unsupported as e:
        return _unsupported(obs, e)
    (mid,) = mids.values()
    leaves = words_of(tname)
    n = len(leaves)
    args = [T.arg(env, i) for i in range(n)]
    should = z3.And(z3.UGE(env.calldatasize, BV(4 + 32 * n)), T.selector(env) == BV(mid), env.callvalue == 0, *[canonical(t, a) for t, a in zip(leaves, args)])
    ret = list(args)
    if tname == "tuple":
        ret = [args[1], args[0]]
    terms = T.cd_eval_terms(env, n + 1)
    T.check_function(obs, outs, env, should, ret, timeout_ms=timeout, replay=replay)
    for o in obs:
        o.setdefault("replay", replay)
    return number(obs)


# ------------------------------------------------------------------------------------------------ binary operators
BINOPS = {"add": "+", "sub": "-", "fdiv": "//", "mod": "%", "div": "/"}


def job_binop(tid, src, tname, opname, cfg, evm="cancun", scale=1):
    obs = []
    timeout = 30000 * scale
    replay = {"kind": "tmpl", "tid": tid, "src": src, "cfg": cfg, "evm": evm}
    try:
        code, outs, env, mids = _run(src, cfg, evm)
    except Unsupported as e:
        return _unsupported(obs, e)
    (mid,) = mids.values()
    t = V.T(tname)
    X, Y = T.arg(env, 0), T.arg(env, 1)
    c = V.binop_contract(BINOPS[opname], t, X, Y)
    should = z3.And(z3.UGE(env.calldatasize, BV(68)), T.selector(env) == BV(mid), env.callvalue == 0, t.canonical(X), t.canonical(Y), c["ok"])
    terms = T.cd_eval_terms(env, 3)
    discharge(obs, "paths-exhaustive", z3.Or(*[o.pc for o in outs]), hyps=list(env.assumptions), timeout_ms=timeout, replay=replay)
    for o in outs:
        if o.status == "return":
            goal = z3.And(should, o.data["len"] == BV(32), c["value_ok"](T.ret_word(o, 0)), t.canonical(T.ret_word(o, 0)))
            discharge(obs, "return-path-sound", z3.Implies(o.pc, goal), timeout_ms=timeout, replay=replay, eval_terms=terms)
        elif o.status in ("revert", "invalid"):
            discharge(obs, "revert-path-sound", z3.Implies(o.pc, z3.Not(should)), timeout_ms=timeout, replay=replay, eval_terms=terms)
        else:
            discharge(obs, "no-silent-stop", z3.Not(o.pc), timeout_ms=timeout, replay=replay, eval_terms=terms)
    return number(obs)


# ------------------------------------------------------------------------------------------------ dispatch
def job_dispatch(tid, src, cfg, evm="cancun", scale=1):
    """templates whose i-th function `fn{i}(x: uint256) -> uint256` returns x ^ i (or, without argument, i), some payable.
    Contract over all calldata / value:   success  <=>  exists k. selector = id_k /\\ calldatasize >= 4 + 32*nargs_k /\\ (payable_k \\/ value = 0)
                                           and then the returned word identifies function k."""
    import json

    obs = []
    timeout = 20000 * scale
    replay = {"kind": "tmpl", "tid": tid, "src": src, "cfg": cfg, "evm": evm}
    full = T.compile_full(src, cfg, evm)
    abi = full["abi"]
    try:
        code, outs, env, mids = _run(src, cfg, evm, max_paths=3000)
    except Unsupported as e:
        return _unsupported(obs, e)
    fns = []
    for ent in abi:
        if ent.get("type") != "function":
            continue
        sig = ent["name"] + "(" + ",".join(i["type"] for i in ent["inputs"]) + ")"
        fns.append({"name": ent["name"], "id": mids[sig], "nargs": len(ent["inputs"]), "payable": ent["stateMutability"] == "payable"})
    sel = T.selector(env)
    has_sel = z3.UGE(env.calldatasize, BV(4))
    x = T.arg(env, 0)

    def entry_ok(f):
        c = [has_sel, sel == BV(f["id"]), z3.UGE(env.calldatasize, BV(4 + 32 * f["nargs"]))]
        if not f["payable"]:
            c.append(env.callvalue == 0)
        return z3.And(*c)

    def expected(f):
        k = int("".join(ch for ch in f["name"] if ch.isdigit()) or 0)
        return (x ^ BV(k)) if f["nargs"] else BV(k)

    any_ok = z3.Or(*[entry_ok(f) for f in fns])
    discharge(obs, "paths-exhaustive", z3.Or(*[o.pc for o in outs]), hyps=list(env.assumptions), timeout_ms=timeout, replay=replay)
    terms = T.cd_eval_terms(env, 2)
    for o in outs:
        if success(o):
            goal = [any_ok, o.data["len"] == BV(32) if o.data is not None else z3.BoolVal(False)]
            for f in fns:
                goal.append(z3.Implies(entry_ok(f), T.ret_word(o, 0) == expected(f)))
            discharge(obs, "success-means-selected-function-ran", z3.Implies(o.pc, z3.And(*goal)), timeout_ms=timeout, replay=replay, eval_terms=terms)
        else:
            discharge(obs, "failure-means-no-entry-condition-holds", z3.Implies(o.pc, z3.Not(any_ok)), timeout_ms=timeout, replay=replay, eval_terms=terms)
    return number(obs)


# ------------------------------------------------------------------------------------------------ re-entrancy lock
LOCK_SRC = {
    "lock.call": """
interface I:
    def ping(a: uint256): nonpayable

x: uint256

@external
@nonreentrant
def f(t: address, v: uint256):
    self.x = v
    extcall I(t).ping(v)
    self.x = v + 1

@external
@nonreentrant
def g(v: uint256) -> uint256:
    self.x = v
    return 7

@external
@view
@nonreentrant
def peek() -> uint256:
    return self.x

@external
def free(v: uint256) -> uint256:
    return v
""",
    "lock.paths": """
interface I:
    def ping(a: uint256): nonpayable

x: uint256

@external
@nonreentrant
def f(t: address, v: uint256) -> uint256:
    if v == 1:
        return 1
    for i: uint256 in range(3):
        if i == v:
            return i + 10
    if v == 9:
        extcall I(t).ping(v)
        return 9
    self.x = v
    return 0

@external
@nonreentrant
def g() -> uint256:
    return 7
""",
    "lock.default": """
#pragma nonreentrancy on
interface I:
    def ping(a: uint256): nonpayable

x: uint256

@external
def f(t: address):
    extcall I(t).ping(1)

@external
@payable
def __default__():
    self.x = 1
""",
    "lock.rawreturn": """
interface I:
    def ping(a: uint256): nonpayable

x: uint256

@external
@nonreentrant
@raw_return
def f(v: uint256) -> Bytes[32]:
    self.x = v
    return b"hello"

@external
@nonreentrant
def g() -> uint256:
    return 7
""",
    "lock.create": """
x: uint256

@external
@nonreentrant
def f(t: address) -> address:
    self.x = 1
    return create_from_blueprint(t)

@external
@nonreentrant
def g() -> uint256:
    self.x = 5
    return 7
""",
}


def protected_ids(src, cfg, evm):
    """method ids of lock-protected entry points and whether a protected __default__ exists, from the real front end"""
    from vyper.compiler.phases import CompilerData

    cd = CompilerData(src, settings=T.settings_for(cfg, evm))
    ids, mutating, default_protected = [], [], False
    for fn_t in cd.global_ctx.exposed_functions if hasattr(cd.global_ctx, "exposed_functions") else []:
        pass
    from vyper.semantics.types.function import ContractFunctionT

    for f in cd.annotated_vyper_module.get_children():
        ft = f._metadata.get("func_type") if hasattr(f, "_metadata") else None
        if not isinstance(ft, ContractFunctionT) or not ft.is_external:
            continue
        if ft.is_fallback:
            default_protected = bool(ft.nonreentrant)
            continue
        if ft.is_constructor:
            continue
        for sig, mid in ft.method_ids.items():
            if ft.nonreentrant:
                ids.append(mid)
    return ids, default_protected


def job_lock(tid, cfg, evm="cancun", scale=1):
    """two-run composition.  Run 1: any call.  For every path of run 1 and every outgoing call/create on it, run 2 starts from
    the persistent state at that moment with fresh calldata: if run 2 enters a protected entry point it must fail.
    For every successful path of run 1, run 2 from its final state must not be blocked: it behaves as run 2 from the
    initial state does whenever run 1's own lock acquisition succeeded (compared on the halting class)."""
    src = LOCK_SRC[tid]
    obs = []
    timeout = 20000 * scale
    replay = {"kind": "tmpl", "tid": tid, "src": src, "cfg": cfg, "evm": evm}
    try:
        code, _ = T.compile_runtime(src, cfg, evm)
        pids, default_prot = protected_ids(src, cfg, evm)
        env1 = Mx.Env(tag="")
        env1.snapshot_at_calls = True
        outs1 = BC.run(code, env1, evm_version=evm)
    except Unsupported as e:
        return _unsupported(obs, e)
    fact(obs, "template-has-protected-entry-points", bool(pids) or default_prot, replay=replay)
    n_reentry = 0
    for p1 in outs1:
        # --- re-entry at each outgoing call
        for ev in p1.world.trace:
            if ev[0] not in ("call", "delegatecall", "callcode", "create", "create2"):
                continue
            snap = ev[-1] if isinstance(ev[-1], dict) and "storage" in ev[-1] else None
            if snap is None:
                continue
            env2 = Mx.Env(tag="'")
            w2 = env2.initial_world().replace(storage=snap["storage"], transient=snap["transient"], pc=z3.And(p1.pc, snap["pc"]))
            try:
                outs2 = BC.run(code, env2, world=w2, evm_version=evm)
            except Unsupported as e:
                return _unsupported(obs, e)
            sel2 = T.selector(env2)
            is_prot = z3.Or(*([z3.And(z3.UGE(env2.calldatasize, BV(4)), sel2 == BV(i)) for i in pids] or [z3.BoolVal(False)]))
            if default_prot:
                all_ids = [int(v, 16) for v in T.compile_runtime(src, cfg, evm)[1].values()]
                no_match = z3.Or(z3.ULT(env2.calldatasize, BV(4)), z3.And(*[sel2 != BV(i) for i in all_ids]))
                is_prot = z3.Or(is_prot, no_match)
            for p2 in outs2:
                if success(p2):
                    n_reentry += 1
                    discharge(obs, f"re-entry-into-protected-entry-reverts[{ev[0]}]", z3.Implies(p2.pc, z3.Not(is_prot)), timeout_ms=timeout, replay=replay)
        # --- lock free after a successful outermost call
        if success(p1) and not any(e[0] in ("call", "delegatecall", "callcode", "create", "create2") for e in p1.world.trace):
            env3 = Mx.Env(tag="''")
            w_after = env3.initial_world().replace(storage=p1.world.storage, transient=p1.world.transient, pc=p1.pc)
            w_before = env3.initial_world().replace(storage=env1.storage0, transient=env1.transient0, pc=p1.pc)
            try:
                o_after = BC.run(code, env3, world=w_after, evm_version=evm)
                o_before = BC.run(code, env3, world=w_before, evm_version=evm)
            except Unsupported as e:
                return _unsupported(obs, e)
            sel3 = T.selector(env3)
            is_prot3 = z3.Or(*([z3.And(z3.UGE(env3.calldatasize, BV(4)), sel3 == BV(i)) for i in pids] or [z3.BoolVal(False)]))
            # if the lock was free before (run 1 entered a protected function successfully, or was not protected at all) a
            # protected call that would have succeeded before is not rejected afterwards because of the lock:
            # we demand: for the *same* second call, "fails after" implies "fails before or depends on changed state x";
            # the templates' protected functions do not branch on storage, so halting classes must agree.
            for a in o_after:
                for b in o_before:
                    both = z3.And(a.pc, b.pc, is_prot3)
                    if success(a) == success(b) or not feasible(both, 2000):
                        continue
                    sel1 = T.selector(env1)
                    ran_protected = z3.Or(*([z3.And(z3.UGE(env1.calldatasize, BV(4)), sel1 == BV(i)) for i in pids] or [z3.BoolVal(False)]))
                    discharge(obs, "lock-free-after-successful-call", z3.Not(z3.And(both, ran_protected)), timeout_ms=timeout, replay=replay)
            fact(obs, "lock-release-checked", True, replay=replay)
    fact(obs, "re-entry-points-explored", True, replay=replay, note=f"{n_reentry} successful second-run paths examined")
    return number(obs)


# ------------------------------------------------------------------------------------------------ native replay
def replay_tmpl(o):
    from vverif.sem import templates as TT

    r, m = o["replay"], o.get("model") or {}
    cd = TT.calldata_from_model(m)
    val = m.get("callvalue", 0)
    try:
        st, data = TT.native_call(r["src"], r["cfg"], cd, value=val, evm_version=r["evm"])
    except Exception as e:
        return {"reproduced": None, "detail": f"native run failed: {e!r}"}
    return {"reproduced": None, "detail": f"native run under {r['cfg']}: calldata=0x{cd.hex()[:600]} value={val} -> {st} {data[:64].hex() if st == 'return' else ''} (the failed clause is {o['clause']}; compare with the template's source meaning)"}


REPLAY = {"tmpl": replay_tmpl}


# ------------------------------------------------------------------------------------------------ storage layout (C10)
LAYOUT_SRC = {
    "layout.mixed": """
struct S:
    p: uint128
    q: bool
    r: address

a: uint256
b: int128[3]
s: S
m: HashMap[address, uint256]
d: DynArray[uint64, 4]
y: Bytes[40]
t: transient(uint256)
z: uint8

@external
def set_a(v: uint256):
    self.a = v

@external
def set_b(i: uint256, v: int128):
    self.b[i] = v

@external
def set_s(v: S):
    self.s = v

@external
def set_m(k: address, v: uint256):
    self.m[k] = v

@external
def set_d(v: uint64):
    self.d.append(v)

@external
def set_y(v: Bytes[40]):
    self.y = v

@external
def set_t(v: uint256):
    self.t = v

@external
def set_z(v: uint8):
    self.z = v
""",
    "layout.transient": """
struct P:
    u: uint256
    v: uint256

s1: uint256
s2: uint256
s3: uint256
t0: transient(uint256)
t: transient(DynArray[P, 2])
tw: transient(DynArray[uint256, 2])
ts: transient(P)

@external
def set_t(u: uint256, v: uint256):
    self.t.append(P(u=u, v=v))

@external
def set_tw(u: uint256):
    self.tw.append(u)

@external
def set_ts(u: uint256):
    self.ts = P(u=u, v=u)

@external
def set_s2(u: uint256):
    self.s2 = u

@external
def set_t0(u: uint256):
    self.t0 = u
""",
    "layout.nested": """
struct Q:
    w: uint128[2]
    f: bool

n0: uint8
q: Q[2]
dd: DynArray[Q, 2]
n1: int256

@external
def set_q(i: uint256, j: uint256, v: uint128):
    self.q[i].w[j] = v
    self.q[i].f = True

@external
def set_dd(v: uint128):
    self.dd.append(Q(w=[v, v], f=False))

@external
def set_n1(v: int256):
    self.n1 = v

@external
def set_n0(v: uint8):
    self.n0 = v
""",
    "layout.lock": """
a: uint256
b: uint256

@external
@nonreentrant
def set_a(v: uint256):
    self.a = v

@external
def set_b(v: uint256):
    self.b = v
""",
}


def _is_hash_slot(e):
    """the slot expression is keccak-derived (a mapping entry): keccak application, possibly plus a constant offset"""
    e = z3.simplify(e)
    if z3.is_app(e):
        if e.decl().name().startswith("keccak_"):
            return True
        if e.decl().kind() == z3.Z3_OP_BADD:
            return any(_is_hash_slot(c) for c in e.children())
    return False


def job_layout(tid, cfg, evm="cancun", scale=1):
    """for every setter `set_<v>` of the template and every path on which it runs: each storage / transient write hits a slot
    inside the range the `layout` output reports for <v> (mapping entries: a keccak-derived slot); the reported ranges
    are pairwise disjoint and disjoint from the re-entrancy key."""
    src = LAYOUT_SRC[tid]
    obs = []
    timeout = 20000 * scale
    replay = {"kind": "tmpl", "tid": tid, "src": src, "cfg": cfg, "evm": evm}
    full = T.compile_full(src, cfg, evm)
    layout = full["layout"]
    mids = {k: int(v, 16) for k, v in full["method_identifiers"].items()}
    ranges = {}
    for space, key in (("storage", "storage_layout"), ("transient", "transient_storage_layout")):
        for name, d in (layout.get(key) or {}).items():
            ranges[(space, name)] = (d["slot"], d["slot"] + d["n_slots"], d.get("type", ""))
    # disjointness of the reported ranges (per address space)
    for space in ("storage", "transient"):
        rs = sorted((v[0], v[1], k[1]) for k, v in ranges.items() if k[0] == space)
        ok = all(rs[i][1] <= rs[i + 1][0] for i in range(len(rs) - 1))
        fact(obs, f"reported-ranges-disjoint[{space}]", ok, replay=replay, note=str(rs))
    try:
        env = Mx.Env()
        code, _ = T.compile_runtime(src, cfg, evm)
        outs = BC.run(code, env, evm_version=evm, max_paths=3000)
    except Unsupported as e:
        return _unsupported(obs, e)
    sel = T.selector(env)
    lock_key = "$.nonreentrant_key"
    for sig, mid in mids.items():
        var = sig.split("(")[0][len("set_"):]
        space = "transient" if ("transient", var) in ranges else "storage"
        lo, hi, typ = ranges[(space, var)]
        is_map = typ.startswith("HashMap")
        for o in outs:
            if not success(o):
                continue
            here = z3.And(o.pc, z3.UGE(env.calldatasize, BV(4)), sel == BV(mid))
            if not feasible(here, 2000):
                continue
            n = 0
            for ev in o.world.trace:
                if ev[0] not in ("sstore", "tstore"):
                    continue
                ev_space = "storage" if ev[0] == "sstore" else "transient"
                slot = ev[1]
                n += 1
                # the lock key may be written by protected functions
                lk = ranges.get((ev_space, lock_key))
                in_lock = z3.And(z3.UGE(slot, BV(lk[0])), z3.ULT(slot, BV(lk[1]))) if lk else z3.BoolVal(False)
                if ev_space != space:
                    discharge(obs, f"write-confined[{var}]", z3.Implies(here, in_lock), timeout_ms=timeout, replay=replay)
                elif is_map:
                    fact(obs, f"write-confined[{var}]", _is_hash_slot(slot) or z3.is_true(z3.simplify(in_lock)), replay=replay, note="mapping entry slot must be keccak-derived: " + str(z3.simplify(slot))[:120])
                else:
                    inside = z3.And(z3.UGE(slot, BV(lo)), z3.ULT(slot, BV(hi)))
                    discharge(obs, f"write-confined[{var}]", z3.Implies(here, z3.Or(inside, in_lock)), timeout_ms=timeout, replay=replay)
            fact(obs, f"setter-writes-something[{var}]", n > 0, replay=replay)
    return number(obs)
