"""Relational contracts (C02 and, by transitivity with the spec contracts, C01/C14/C15): for a template source and two
compiler configurations c1, c2 the run-time bytecodes produced by the real compiler are observationally equivalent

    for all calldata, call value, caller, prior storage / transient storage, and all behaviours of called contracts:
      same halting class (success / failure), same return or revert data, same sequence and payload of logs and
      outgoing calls / creates (target, value, calldata), same final storage and transient storage on success.

Gas, code size and memory contents are not observable.  Both programs run against one shared symbolic environment.
"""
import itertools

import z3

from vverif.jobutil import discharge, fact, number
from vverif.sem import bytecode as BC
from vverif.sem import machine as Mx
from vverif.sem import templates as T
from vverif.sem.machine import BV, Unsupported
from vverif.smt import feasible

FUNCS = [
    "vyper.compiler.phases:CompilerData.bytecode_runtime",
    "vyper.ir.compile_ir:compile_to_assembly",
    "vyper.ir.optimizer:optimize",
    "vyper.evm.assembler.optimizer:optimize_assembly",
    "vyper.evm.assembler.core:assembly_to_evm",
    "vyper.venom:generate_assembly_experimental",
    "vyper.venom:run_passes_on",
    "vyper.codegen.module:generate_ir_for_module",
    "vyper.codegen_venom.module:generate_runtime_venom",
]


def success(o):
    return o.status in ("return", "stop")


def data_of(o):
    """(length word, byte function i -> BV8) of the return / revert payload"""
    if o.data is None:
        return BV(0), (lambda i: z3.BitVecVal(0, 8))
    return o.data["len"], (lambda i, d=o.data: Mx.data_byte(d, i))


PAYLOAD_ENUM_BOUND = [0]  # when > 0: payloads are known to be shorter than this many bytes, compare them byte by byte at concrete positions


def payload_eq(da, db, idx):
    la, fa = da
    lb, fb = db
    n = PAYLOAD_ENUM_BOUND[0]
    if n:
        # concrete positions make every memory read a direct lookup (no symbolic address): far easier for the solver
        c = [la == lb, z3.ULE(la, BV(n))]
        for i in range(n):
            c.append(z3.Implies(z3.ULT(BV(i), la), fa(BV(i)) == fb(BV(i))))
        return z3.And(*c)
    return z3.And(la == lb, z3.Implies(z3.ULT(idx, la), fa(idx) == fb(idx)))


def visible(trace):
    return [e for e in trace if e[0] not in ("sstore", "tstore")]


def event_eq(ea, eb, idx):
    if ea[0] != eb[0]:
        return z3.BoolVal(False)
    k = ea[0]
    if k == "log":
        if len(ea[1]) != len(eb[1]):
            return z3.BoolVal(False)
        c = [x == y for x, y in zip(ea[1], eb[1])]
        da = (ea[2]["len"], lambda i, d=ea[2]: Mx.data_byte(d, i))
        db = (eb[2]["len"], lambda i, d=eb[2]: Mx.data_byte(d, i))
        return z3.And(*c, payload_eq(da, db, idx))
    if k in ("call", "staticcall", "delegatecall", "callcode"):
        _, gas_a, to_a, val_a, cd_a = ea[:5]
        _, gas_b, to_b, val_b, cd_b = eb[:5]
        da = (cd_a["len"], lambda i, d=cd_a: Mx.data_byte(d, i))
        db = (cd_b["len"], lambda i, d=cd_b: Mx.data_byte(d, i))
        c = [to_a == to_b, val_a == val_b, payload_eq(da, db, idx)]
        if isinstance(gas_b, tuple) and gas_b[0] == "requested-gas":  # the reference semantics names an explicitly requested gas amount
            c.append(gas_a == gas_b[1])
        return z3.And(*c)
    if k in ("create", "create2"):
        da = (ea[2]["len"], lambda i, d=ea[2]: Mx.data_byte(d, i))
        db = (eb[2]["len"], lambda i, d=eb[2]: Mx.data_byte(d, i))
        c = [ea[1] == eb[1], payload_eq(da, db, idx)]
        if k == "create2":
            c.append(ea[3] == eb[3])
        return z3.And(*c)
    if k == "selfdestruct":
        return ea[1] == eb[1]
    return z3.BoolVal(False)


def slack_regions(layout):
    """top-level Bytes[N] / String[N] / DynArray[<one-word type>, N] variables of the storage layout: (slot, n_slots, kind).
    Bytes beyond the stored length (resp. elements beyond the stored count) are not observable at source level."""
    out = {"storage": [], "transient": []}
    for space, key in (("storage", "storage_layout"), ("transient", "transient_storage_layout")):
        for name, d in (layout.get(key) or {}).items():
            t = d.get("type", "")
            if not isinstance(d.get("slot"), int):
                continue
            if t.startswith(("Bytes[", "String[")):
                out[space].append((d["slot"], d["n_slots"], "bytes"))
            elif t.startswith("DynArray[") and d["n_slots"] >= 2:
                inner = t[len("DynArray["):].rsplit(",", 1)[0].strip()
                n = int(t.rsplit(",", 1)[1].strip(" ]"))
                if d["n_slots"] == 1 + n:  # one-word elements
                    out[space].append((d["slot"], d["n_slots"], "dynarray"))
    return out


def state_equiv(sa, sb, regions, sidx):
    """alpha-equality of two storage maps: equal outside the slack regions; inside, equal length word and equal
    observable content (sidx: free slot index, universally quantified by validity)"""
    if not regions:
        return sa == sb
    inside_any = z3.BoolVal(False)
    c = []
    for (slot, n, kind) in regions:
        base = BV(slot)
        inside = z3.And(z3.UGE(sidx, base), z3.ULT(sidx, BV(slot + n)))
        inside_any = z3.Or(inside_any, inside)
        la, lb = z3.Select(sa, base), z3.Select(sb, base)
        c.append(la == lb)
        j = sidx - base - 1  # data word number
        wa, wb = z3.Select(sa, sidx), z3.Select(sb, sidx)
        is_data = z3.And(z3.UGT(sidx, base), z3.ULT(sidx, BV(slot + n)))
        if kind == "dynarray":
            c.append(z3.Implies(z3.And(is_data, z3.ULT(j, la)), wa == wb))
        else:
            # byte k of data word j is observable iff 32*j + k < len
            full = z3.ULE(j * 32 + 32, la)
            c.append(z3.Implies(z3.And(is_data, full), wa == wb))
            part = z3.And(is_data, z3.ULT(j * 32, la), z3.Not(full))
            rem = la - j * 32  # 1..31 observable leading bytes
            shift = (BV(32) - rem) * 8
            c.append(z3.Implies(part, z3.LShR(wa, shift) == z3.LShR(wb, shift)))
    c.append(z3.Implies(z3.Not(inside_any), z3.Select(sa, sidx) == z3.Select(sb, sidx)))
    return z3.And(*c)


def same_outcome(a, b, idx, regions=None):
    """formula: outcomes a and b are observationally equal (idx: a free byte/slot index, universally quantified by validity)"""
    if success(a) != success(b):
        return z3.BoolVal(False)
    c = [payload_eq(data_of(a), data_of(b), idx)]
    if success(a):
        ta, tb = visible(a.world.trace), visible(b.world.trace)
        if len(ta) != len(tb):
            return z3.BoolVal(False)
        for ea, eb in zip(ta, tb):
            c.append(event_eq(ea, eb, idx))
        regions = regions or {"storage": [], "transient": []}
        c.append(state_equiv(a.world.storage, b.world.storage, regions["storage"], idx))
        c.append(state_equiv(a.world.transient, b.world.transient, regions["transient"], idx))
    return z3.And(*c)


def payload_parts(name, da, db, idx, short):
    """[(clause, formula)] : equality of two payloads, split into independently dischargeable parts"""
    la, fa = da
    lb, fb = db
    parts = [(name + ":length", la == lb)]
    if short:
        parts.append((name + ":length-bounded", z3.ULE(la, BV(short))))
        for w in range(0, short, 32):
            parts.append((f"{name}:bytes[{w}:{w + 32}]", z3.And(*[z3.Implies(z3.ULT(BV(i), la), fa(BV(i)) == fb(BV(i))) for i in range(w, min(short, w + 32))])))
    else:
        parts.append((name + ":bytes", z3.Implies(z3.ULT(idx, la), fa(idx) == fb(idx))))
    return parts


def outcome_parts(a, b, idx, regions=None, short=0):
    """same_outcome(a, b) as a list of (clause, formula) whose conjunction it is; None when the outcomes differ in shape
    (status class, number or kind of events)"""
    if success(a) != success(b):
        return None
    parts = payload_parts("data", data_of(a), data_of(b), idx, short)
    if success(a):
        ta, tb = visible(a.world.trace), visible(b.world.trace)
        if len(ta) != len(tb) or any(x[0] != y[0] for x, y in zip(ta, tb)):
            return None
        for n, (ea, eb) in enumerate(zip(ta, tb)):
            k = ea[0]
            if k == "log":
                if len(ea[1]) != len(eb[1]):
                    return None
                parts.append((f"event{n}:topics", z3.And(*[x == y for x, y in zip(ea[1], eb[1])]) if ea[1] else z3.BoolVal(True)))
                parts += payload_parts(f"event{n}:data", (ea[2]["len"], lambda i, d=ea[2]: Mx.data_byte(d, i)), (eb[2]["len"], lambda i, d=eb[2]: Mx.data_byte(d, i)), idx, short)
            elif k in ("call", "staticcall", "delegatecall", "callcode"):
                c = [ea[2] == eb[2], ea[3] == eb[3]]
                if isinstance(eb[1], tuple) and eb[1][0] == "requested-gas":
                    c.append(ea[1] == eb[1][1])
                parts.append((f"event{n}:target-value-gas", z3.And(*c)))
                parts += payload_parts(f"event{n}:calldata", (ea[4]["len"], lambda i, d=ea[4]: Mx.data_byte(d, i)), (eb[4]["len"], lambda i, d=eb[4]: Mx.data_byte(d, i)), idx, short)
                if len(ea) > 5 and len(eb) > 5 and isinstance(ea[5], dict) and isinstance(eb[5], dict):
                    rg = regions or {"storage": [], "transient": []}
                    parts.append((f"event{n}:storage-visible-to-the-callee", state_equiv(ea[5]["storage"], eb[5]["storage"], rg["storage"], idx)))
                    parts.append((f"event{n}:transient-storage-visible-to-the-callee", state_equiv(ea[5]["transient"], eb[5]["transient"], rg["transient"], idx)))
            else:
                parts.append((f"event{n}", event_eq(ea, eb, idx)))
        regions = regions or {"storage": [], "transient": []}
        parts.append(("final-storage", state_equiv(a.world.storage, b.world.storage, regions["storage"], idx)))
        parts.append(("final-transient-storage", state_equiv(a.world.transient, b.world.transient, regions["transient"], idx)))
    return parts


def describe(o):
    return {"status": o.status, "events": [e[0] for e in visible(o.world.trace)]}


def run_cfg(src, cfg, evm, env, budget):
    code, _ = T.compile_runtime(src, cfg, evm)
    return BC.run(code, env, evm_version=evm, **budget)


def job_rel(tid, src, cfg_a, cfg_b, evm="cancun", scale=1, havoc=True):
    from vyper.exceptions import VyperException

    obs = []
    timeout = 20000 * scale
    replay = {"kind": "rel", "tid": tid, "src": src, "cfg_a": cfg_a, "cfg_b": cfg_b, "evm": evm}
    comp = {}
    for cfg in (cfg_a, cfg_b):
        try:
            T.compile_runtime(src, cfg, evm)
            comp[cfg] = "ok"
        except VyperException as e:
            comp[cfg] = type(e).__name__
    fact(obs, "same-admissibility", (comp[cfg_a] == "ok") == (comp[cfg_b] == "ok"), replay=dict(replay, which="admissible"), note=str(comp))
    if comp[cfg_a] != "ok" or comp[cfg_b] != "ok":
        return number(obs)
    env = Mx.Env()
    env.reentrancy_havoc = havoc
    budget = {"max_steps": 40000, "max_paths": 600}
    try:
        A = run_cfg(src, cfg_a, evm, env, budget)
        B = run_cfg(src, cfg_b, evm, env, budget)
    except Unsupported as e:
        obs.append({"clause": "denote", "status": "unknown", "backend": "engine", "seconds": 0, "model": None, "note": "outside the bytecode denotation: " + str(e)})
        return number(obs)
    idx = z3.BitVec("idx!", 256)
    terms = T.cd_eval_terms(env, 8)
    regions = slack_regions(T.compile_full(src, cfg_a, evm)["layout"])
    for name, outs in ((cfg_a, A), (cfg_b, B)):
        discharge(obs, f"paths-exhaustive[{name}]", z3.Or(*[o.pc for o in outs]), hyps=list(env.assumptions), timeout_ms=timeout, replay=replay)
    compare_pairs(obs, A, B, env, idx, regions, timeout, replay, terms)
    return number(obs)


def _payload_lens(o):
    return [data_of(o)[0]] + [e[2]["len"] for e in visible(o.world.trace) if e[0] == "log"] + [e[4]["len"] for e in visible(o.world.trace) if e[0] in ("call", "staticcall", "delegatecall")]


def compare_pairs(obs, A, B, env, idx, regions, timeout, replay, terms, bound=192):
    """every feasible pair of paths is observationally equal; the equality is discharged part by part (status/shape, payload
    lengths, payload bytes - at concrete positions when both payloads are provably short -, each event, final state)"""
    from vverif.smt import prove

    hyps = list(env.assumptions)
    short_cache = {}

    def is_short(o):
        k = id(o)
        if k not in short_cache:
            short_cache[k] = all(prove(z3.Implies(o.pc, z3.ULE(l, BV(bound))), hyps, timeout_ms=25000, use_cvc5=False, nl_abstraction=False)["status"] == "proved" for l in _payload_lens(o))
        return short_cache[k]

    for a in A:
        for b in B:
            both = z3.And(a.pc, b.pc)
            if not feasible(both, 2000):
                continue
            rp = dict(replay, a=describe(a), b=describe(b))
            parts = outcome_parts(a, b, idx, regions, bound if (is_short(a) and is_short(b)) else 0)
            if parts is None:
                discharge(obs, "same-observable-outcome", z3.Not(both), hyps=hyps, timeout_ms=timeout, replay=rp, eval_terms=terms)
                continue
            for nm, f in parts:
                f = z3.simplify(f)
                if z3.is_true(f):
                    continue
                discharge(obs, "same-observable-outcome:" + nm, z3.Implies(both, f), hyps=hyps, timeout_ms=timeout, replay=rp, eval_terms=terms)


def job_rel_evm(tid, src, cfg, evm_a, evm_b, scale=1):
    """the same configuration on two EVM targets"""
    from vyper.exceptions import VyperException

    obs = []
    timeout = 20000 * scale
    replay = {"kind": "rel", "tid": tid, "src": src, "cfg_a": cfg, "cfg_b": cfg, "evm": evm_a, "evm_b": evm_b}
    try:
        T.compile_runtime(src, cfg, evm_a)
        T.compile_runtime(src, cfg, evm_b)
    except VyperException as e:
        fact(obs, "feature-exists-on-both-targets", True, note=f"not compared: {type(e).__name__}")
        return number(obs)
    env = Mx.Env()
    env.reentrancy_havoc = True
    budget = {"max_steps": 40000, "max_paths": 600}
    try:
        A = run_cfg(src, cfg, evm_a, env, budget)
        B = run_cfg(src, cfg, evm_b, env, budget)
    except Unsupported as e:
        obs.append({"clause": "denote", "status": "unknown", "backend": "engine", "seconds": 0, "model": None, "note": "outside the bytecode denotation: " + str(e)})
        return number(obs)
    idx = z3.BitVec("idx!", 256)
    terms = T.cd_eval_terms(env, 8)
    regions = slack_regions(T.compile_full(src, cfg, evm_a)["layout"])
    for name, outs in ((evm_a, A), (evm_b, B)):
        discharge(obs, f"paths-exhaustive[{name}]", z3.Or(*[o.pc for o in outs]), hyps=list(env.assumptions), timeout_ms=timeout, replay=replay)
    compare_pairs(obs, A, B, env, idx, regions, timeout, replay, terms)
    return number(obs)


def replay_rel(o):
    """native replay: run both configurations in pyrevm on the calldata of the counter-model and compare"""
    r, m = o["replay"], o.get("model") or {}
    if r.get("which") == "admissible":
        return {"reproduced": True, "detail": "configurations disagree on whether the program compiles: " + (o.get("note") or "")}
    cd = T.calldata_from_model(m)
    val = m.get("callvalue", 0)
    res = {}
    runs = [(r["cfg_a"], r["evm"]), (r["cfg_b"], r.get("evm_b", r["evm"]))]
    for cfg, evm in runs:
        try:
            res[cfg + "@" + evm] = T.native_call(r["src"], cfg, cd, value=val, evm_version=evm)
        except Exception as e:
            res[cfg + "@" + evm] = ("error", repr(e)[:200].encode())
    a, b = [res[c + "@" + e] for c, e in runs]
    differs = a[0] != b[0] or (a[0] == "return" and a[1] != b[1])
    det = f"calldata=0x{cd.hex()[:600]} value={val}: " + "; ".join(f"{k}: {v[0]} {v[1][:64].hex() if v[0] == 'return' else ''}" for k, v in res.items())
    # a difference in storage/events only is not visible through this simple replay: report as not decided by replay
    return {"reproduced": True if differs else None, "detail": det + ("" if differs else " (status and return data agree natively; the model may differ in logs/state/outgoing calls only, or depends on prior state)")}


REPLAY = {"rel": replay_rel}
