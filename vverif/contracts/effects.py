"""C08 — side effects exactly once and in source order: the template family.  Each template makes two (or three) internal
functions with observable effects (a log each, plus a storage write where by-value semantics is probed) meet in one
syntactic position; the reference semantics (spec_source.py) evaluates left to right, operands before the operation, the
right-hand side of an assignment before its target, short-circuits and/or and conditional expressions, and evaluates a
loop iterable once — so agreement of the bytecode with it on the *sequence of logs* and the result is the property.
Arguments of builtins and of `log` are specified as unordered by the property: those templates carry at most one effectful
argument (exactly-once is still decided)."""

PRE = """
event A:
    v: uint256

event B:
    v: uint256

event C:
    v: uint256

x: uint256
arr: uint256[4]
tv: transient(uint256)

@internal
def a(v: uint256) -> uint256:
    log A(v=v)
    return v ^ 3

@internal
def b(v: uint256) -> uint256:
    log B(v=v)
    return (v >> 1) ^ 7

@internal
def c(v: uint256) -> bool:
    log C(v=v)
    return v > 5

@internal
def bump(d: uint256) -> uint256:
    log B(v=self.x)
    self.x += d
    return self.x

@internal
def bump2(n: uint256) -> uint256:
    # a loop and two call sites keep this function from being inlined
    for i: uint256 in range(n, bound=3):
        log B(v=self.x ^ i)
    self.x = self.x ^ (n << 4)
    self.tv = self.tv ^ (n << 8)
    return self.x

@internal
def two(p: uint256, q: uint256) -> uint256:
    return (p << 128) ^ q

@internal
def first(q: uint256[4], r: uint256) -> uint256:
    return (q[0] << 128) ^ r

@internal
def bumparr(d: uint256) -> uint256:
    log B(v=self.arr[0])
    self.arr[0] = self.arr[0] ^ d
    return self.arr[0]

@internal
def pair(v: uint256) -> uint256[2]:
    log A(v=v)
    return [v, v + 1]

"""


def _f(params, ret, body):
    r = f" -> {ret}" if ret else ""
    return PRE + f"@external\ndef f({params}){r}:\n" + "".join("    " + l + "\n" for l in body.split("\n"))


def family(quick=True):
    T = {}
    ops = (("add", "+"), ("sub", "-"), ("and", "&"), ("or", "|"), ("xor", "^"), ("shl", "<<"), ("shr", ">>"))
    if not quick:
        ops += (("mul", "*"), ("fdiv", "//"), ("mod", "%"))
    for nm, op in ops:
        T[f"binop.{nm}"] = _f("x: uint256, y: uint256", "uint256", f"return self.a(x) {op} self.b(y)")
    for nm, op in (("lt", "<"), ("le", "<="), ("gt", ">"), ("ge", ">="), ("eq", "=="), ("ne", "!=")):
        T[f"cmp.{nm}"] = _f("x: uint256, y: uint256", "bool", f"return self.a(x) {op} self.b(y)")
    T["bool.and"] = _f("x: uint256, y: uint256", "bool", "return self.c(x) and self.c(y)")
    T["bool.or"] = _f("x: uint256, y: uint256", "bool", "return self.c(x) or self.c(y)")
    T["bool.and3"] = _f("x: uint256, y: uint256", "bool", "return (self.c(x) and self.c(y)) or self.c(x + 1)")
    T["ifexp"] = _f("x: uint256, y: uint256", "uint256", "return self.a(x) if self.c(y) else self.b(x)")
    T["call.args"] = _f("x: uint256, y: uint256", "uint256", "return self.two(self.a(x), self.b(y))")
    T["call.nested"] = _f("x: uint256, y: uint256", "uint256", "return self.two(self.a(self.b(x)), self.two(self.b(y), self.a(y)))")
    T["assign.rhs-first"] = _f("x: uint256, y: uint256", "uint256", "self.arr[self.a(x) & 3] = self.b(y)\nreturn self.arr[x & 3]")
    T["assign.local"] = _f("x: uint256, y: uint256", "uint256", "t: uint256[4] = [0, 0, 0, 0]\nt[self.a(x) & 3] = self.b(y)\nreturn t[x & 3]")
    T["tuple.literal"] = _f("x: uint256, y: uint256", "(uint256, uint256)", "return self.a(x), self.b(y)")
    T["list.literal"] = _f("x: uint256, y: uint256", "uint256[2]", "return [self.a(x), self.b(y)]")
    T["subscript.order"] = _f("x: uint256, y: uint256", "uint256", "t: uint256[2][2] = [[1, 2], [3, 4]]\nreturn t[self.a(x) & 1][self.b(y) & 1]")
    # (a loop over the result of a call, or a range() bound with an effectful call, is rejected by the front end)
    T["stmt.expr-once"] = _f("x: uint256", "uint256", "self.a(x)\nself.b(x)\nreturn 1")
    T["builtin.one-effect.min"] = _f("x: uint256, y: uint256", "uint256", "return min(self.a(x) & 255, y & 255)")
    T["builtin.one-effect.unsafe"] = _f("x: uint256, y: uint256", "uint256", "return unsafe_add(y, self.b(x))")
    T["convert.once"] = _f("x: uint256", "uint128", "return convert(self.a(x), uint128)")
    T["log.one-effect"] = _f("x: uint256", "", "log C(v=self.a(x))")
    T["aug.local"] = _f("x: uint256, y: uint256", "uint256", "t: uint256 = self.a(x)\nt += self.b(y)\nreturn t")
    T["aug.state"] = _f("x: uint256, y: uint256", "uint256", "self.x = x\nself.x += self.bump(y)\nreturn self.x")
    # by value
    T["byvalue.arg-read-before-effect"] = _f("x: uint256, y: uint256", "uint256", "self.x = x % 100\nreturn self.two(self.x, self.bump(y % 100))")
    T["byvalue.array-arg-read-before-effect"] = _f("x: uint256, y: uint256", "uint256", "self.arr[0] = x & 65535\nreturn self.first(self.arr, self.bumparr((y & 255) | 256))")
    T["byvalue.local-copy"] = _f("x: uint256, y: uint256", "uint256", "self.x = x\nt: uint256 = self.x\nself.bump(y)\nreturn t")
    T["byvalue.array-copy"] = _f("x: uint256", "uint256", "self.arr = [x, 1, 2, 3]\nt: uint256[4] = self.arr\nself.arr[0] = 77\nreturn t[0]")
    T["byvalue.binop-read-before-effect"] = _f("x: uint256, y: uint256", "uint256", "self.x = x % 100\nreturn (self.x << 128) ^ self.bump(y % 100)")
    T["byvalue.save-restore-around-call"] = _f("x: uint256, y: uint256", "uint256", "self.x = x\nsaved: uint256 = self.x\nr: uint256 = self.bump2(y & 3)\nself.x = saved\nreturn r ^ self.bump2(1)")
    T["byvalue.save-restore-transient"] = _f("x: uint256, y: uint256", "uint256", "self.tv = x\nsaved: uint256 = self.tv\nr: uint256 = self.bump2(y & 3)\nself.tv = saved\nreturn r ^ self.bump2(1) ^ self.tv")
    # the shape of a seeded change (C08-1): a non-inlined callee (loop, two call sites) between reading a state variable and
    # writing the saved value back, all in one basic block
    T["byvalue.save-restore.demo-shape"] = ("x: uint256\nhist: DynArray[uint256, 4]\n\n@internal\ndef bump(n: uint256) -> uint256:\n    for i: uint256 in range(n, bound=3):\n        self.hist.append(self.x ^ i)\n"
                                            "    self.x = self.x ^ (n << 8)\n    return self.x\n\n@external\ndef other(n: uint256) -> uint256:\n    return self.bump(n & 1) ^ self.bump(1)\n\n"
                                            "@external\ndef f() -> uint256:\n    saved: uint256 = self.x\n    r: uint256 = self.bump(2)\n    self.x = saved\n    return r\n")
    T["byvalue.save-restore.demo-shape.transient"] = ("tv: transient(uint256)\nhist: DynArray[uint256, 4]\n\n@internal\ndef bump(n: uint256) -> uint256:\n    for i: uint256 in range(n, bound=3):\n        self.hist.append(self.tv ^ i)\n"
                                                      "    self.tv = self.tv ^ (n << 8)\n    return self.tv\n\n@external\ndef other(n: uint256) -> uint256:\n    return self.bump(n & 1) ^ self.bump(1)\n\n"
                                                      "@external\ndef f() -> uint256:\n    saved: uint256 = self.tv\n    r: uint256 = self.bump(2)\n    self.tv = saved\n    return r ^ self.tv\n")
    T["assert.once"] = _f("x: uint256", "uint256", "assert self.c(x)\nreturn 1")
    T["return.once"] = _f("x: uint256", "uint256", "if self.c(x):\n    return self.a(x)\nreturn self.b(x)")
    return T
