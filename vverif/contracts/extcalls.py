"""C12 — outgoing calls fail closed: template family for interface calls (spec: vverif/spec_source.py:Interp.extcall)."""

IF = """
interface I:
    def none_(a: uint256): nonpayable
    def u256(a: uint256) -> uint256: view
    def i128(a: uint256) -> int128: view
    def b(a: uint256) -> bool: nonpayable
    def addr(a: uint256) -> address: view
    def b4(a: uint256) -> bytes4: pure
    def pair() -> (uint128, bool): view
    def arr(a: int8, c: bool) -> uint8[2]: view
    def pay(a: uint256) -> bool: payable
    def ix() -> uint256: nonpayable

x: uint256
b3: uint256[3]
m: HashMap[uint256, uint256[3]]

"""


def _f(params, ret, body, deco="@external"):
    r = f" -> {ret}" if ret else ""
    return IF + f"{deco}\ndef f({params}){r}:\n" + "".join("    " + l + "\n" for l in body.split("\n"))


def ordering_family():
    """positions where an external call meets the evaluation-order rules of C08"""
    T = {}
    T["extcall.assign.rhs-before-target-call"] = _f("t: address", "uint256[3]", "self.b3 = [1, 2, 3]\nself.m[extcall I(t).ix()] = self.b3\nreturn self.m[1]")
    T["extcall.arg.order"] = _f("t: address, u: address", "uint256", "return staticcall I(t).u256(extcall I(u).ix())")
    T["extcall.binop.order"] = _f("t: address, u: address", "uint256", "return (extcall I(t).ix() << 8) ^ extcall I(u).ix()")
    T["extcall.read-before-call"] = _f("t: address, a: uint256", "uint256", "self.x = a\nreturn (self.x << 8) ^ extcall I(t).ix()")
    return T


def family():
    T = {}
    T["ret.none"] = _f("t: address, a: uint256", "", "extcall I(t).none_(a)")
    T["ret.none.skip"] = _f("t: address, a: uint256", "", "extcall I(t).none_(a, skip_contract_check=True)")
    T["ret.uint256"] = _f("t: address, a: uint256", "uint256", "return staticcall I(t).u256(a)")
    T["ret.int128"] = _f("t: address, a: uint256", "int128", "return staticcall I(t).i128(a)")
    T["ret.bool"] = _f("t: address, a: uint256", "bool", "return extcall I(t).b(a)")
    T["ret.address"] = _f("t: address, a: uint256", "address", "return staticcall I(t).addr(a)")
    T["ret.bytes4"] = _f("t: address, a: uint256", "bytes4", "return staticcall I(t).b4(a)")
    T["ret.pair"] = _f("t: address", "uint128", "p: uint128 = 0\nq: bool = False\np, q = staticcall I(t).pair()\nreturn p if q else 1")
    T["ret.sarray"] = _f("t: address, a: int8, c: bool", "uint8[2]", "return staticcall I(t).arr(a, c)")
    T["value.gas"] = _f("t: address, a: uint256, g: uint256", "bool", "return extcall I(t).pay(a, value=msg.value, gas=g)", deco="@external\n@payable")
    T["value.only"] = _f("t: address, a: uint256, v: uint256", "bool", "return extcall I(t).pay(a, value=v)")
    T["default.bool"] = _f("t: address, a: uint256", "bool", "return extcall I(t).b(a, default_return_value=True)")
    T["default.skip"] = _f("t: address, a: uint256", "bool", "return extcall I(t).b(a, default_return_value=True, skip_contract_check=True)")
    T["default.uint"] = _f("t: address, a: uint256, d: uint256", "uint256", "return staticcall I(t).u256(a, default_return_value=d)")
    T["two.calls"] = _f("t: address, u: address, a: uint256", "uint256", "p: uint256 = staticcall I(t).u256(a)\nq: uint256 = staticcall I(u).u256(p)\nreturn p ^ q")
    T["two.calls.mixed"] = _f("t: address, u: address, a: uint256", "bool", "p: uint256 = staticcall I(t).u256(a)\nreturn extcall I(u).b(p)")
    T["state.around"] = _f("t: address", "uint256", "self.x = 1\nr: uint256 = staticcall I(t).u256(self.x)\nself.x = 2\nreturn r")
    T["state.reentrant"] = _f("t: address, a: uint256", "uint256", "self.x = a\nextcall I(t).none_(a)\nreturn self.x")
    T["in.view"] = _f("t: address, a: uint256", "uint256", "return staticcall I(t).u256(a) ^ 1", deco="@external\n@view")
    return T
