"""Contracts on the assembler (C16).

PyVC (all values, by bounded unrolling with unwinding assertions — the loops run at most 33 times for values < 2**256):
   instructions.py  num_to_bytearray / PUSH(x)  : big-endian digits of x, no leading zero byte, PUSH0 only from shanghai
                    PUSH_N(x, n)                : exactly n immediate bytes whose big-endian value is x; asserts x < 256**n
                    calc_push_size(x)           : == len(PUSH(x))  (opcode byte + immediates)
Per-instance (exhaustive per assembly, over the real assemblies of the template family and a synthetic family covering
every item kind): the bytes produced by `assembly_to_evm` are walked in lock step with an independent decoder:
   every label resolves to the offset of a JUMPDEST byte; PUSHLABEL / PUSH_OFST carry the resolved value in a PUSH wide
   enough; data sections verbatim at their resolved offset; code_end == len(bytecode); pc accounting of pass 1 == bytes of pass 2.
"""
import z3

from vverif.jobutil import discharge, fact, number
from vverif.pyvc import Engine, St, as_int, is_sym

M = 2**256
FUNCS = ["vyper.evm.assembler.instructions:" + n for n in ("num_to_bytearray", "PUSH", "PUSH_N", "calc_push_size")] + [
    "vyper.evm.assembler.symbols:resolve_symbols", "vyper.evm.assembler.core:_assembly_to_evm", "vyper.evm.assembler.core:assembly_to_evm",
    "vyper.evm.assembler.core:_compile_push_instruction", "vyper.evm.assembler.core:_compile_data_item", "vyper.evm.assembler.core:get_data_segment_lengths",
]


def _settings(evm):
    from vyper.compiler.settings import OptimizationLevel, Settings

    return Settings(optimize=OptimizationLevel.GAS, evm_version=evm)


def _value(bs):
    acc = z3.IntVal(0)
    for b in bs:
        acc = acc * 256 + as_int(b)
    return acc


def job_push(evm, scale=1):
    from vyper.compiler.settings import anchor_settings
    from vyper.evm.assembler import instructions as ins

    obs = []
    timeout = 20000 * scale
    x = z3.Int("x")
    pre = z3.And(x >= 0, x < M)
    post_shanghai = evm in ("shanghai", "cancun", "prague")
    replay = {"kind": "push", "evm": evm}
    with anchor_settings(_settings(evm)):
        eng = Engine(asserts="prove")
        out = eng.run(ins.PUSH, [x], pre=pre)
        for (clause, f) in eng.obligations:
            discharge(obs, "PUSH:" + clause, f, timeout_ms=timeout, replay=replay)
        discharge(obs, "PUSH:paths-exhaustive", z3.Implies(pre, z3.Or(*[s.pc for s, _ in out.returns])), timeout_ms=timeout, replay=replay)
        for (s_, r) in out.returns:
            mn, bs = r[0], list(r[1:])
            n = len(bs)
            ok_mn = isinstance(mn, str) and mn == f"PUSH{n}" and 0 <= n <= 32 and (n > 0 or post_shanghai)
            fact(obs, "PUSH:mnemonic-matches-immediates", ok_mn, replay=replay, note=f"{mn} with {n} immediates")
            conds = [_value(bs) == x] + [z3.And(as_int(b) >= 0, as_int(b) < 256) for b in bs]
            if n > 1 or (n == 1 and post_shanghai):
                conds.append(as_int(bs[0]) != 0)  # minimal width
            if n == 1 and not post_shanghai:
                pass  # PUSH1 0 stands for zero before shanghai
            discharge(obs, "PUSH:immediates-are-the-value", z3.Implies(s_.pc, z3.And(*conds)), timeout_ms=timeout, replay=replay)
        # calc_push_size == len(PUSH)
        eng2 = Engine(asserts="prove")
        out2 = eng2.run(ins.calc_push_size, [x], pre=pre)
        for (clause, f) in eng2.obligations:
            discharge(obs, "calc_push_size:" + clause, f, timeout_ms=timeout, replay=replay)
        discharge(obs, "calc_push_size:paths-exhaustive", z3.Implies(pre, z3.Or(*[s.pc for s, _ in out2.returns])), timeout_ms=timeout, replay=replay)
        for (s2, size) in out2.returns:
            if is_sym(size):
                discharge(obs, "calc_push_size:result-concrete-per-path", z3.Not(s2.pc), timeout_ms=timeout, replay=replay)
                continue
            k = size - 1  # immediates
            spec = z3.Or(
                z3.And(x == 0, z3.BoolVal(k == (0 if post_shanghai else 1))),
                z3.And(x > 0, z3.BoolVal(k >= 1), x >= 256 ** (max(k, 1) - 1), x < 256 ** max(k, 1)),
            )
            discharge(obs, "calc_push_size:is-one-plus-minimal-byte-length", z3.Implies(s2.pc, spec), timeout_ms=timeout, replay=replay)
    return number(obs)


def job_push_n(n, scale=1):
    from vyper.compiler.settings import anchor_settings
    from vyper.evm.assembler import instructions as ins

    obs = []
    timeout = 20000 * scale
    x = z3.Int("x")
    pre = x >= 0
    replay = {"kind": "push_n", "n": n}
    with anchor_settings(_settings("cancun")):
        eng = Engine(asserts="raise")
        out = eng.run(ins.PUSH_N, [x, n], pre=pre)
        for (s_, r) in out.returns:
            mn, bs = r[0], list(r[1:])
            fact(obs, "PUSH_N:exactly-n-immediates", mn == f"PUSH{n}" and len(bs) == n, replay=replay)
            discharge(obs, "PUSH_N:immediates-are-the-value", z3.Implies(s_.pc, z3.And(_value(bs) == x, *[z3.And(as_int(b) >= 0, as_int(b) < 256) for b in bs])), timeout_ms=timeout, replay=replay)
        # it raises exactly when the value does not fit
        ret_c = z3.Or(*[s.pc for s, _ in out.returns]) if out.returns else z3.BoolVal(False)
        discharge(obs, "PUSH_N:returns-iff-fits", z3.Implies(pre, ret_c == (x < 256**n)), timeout_ms=timeout, replay=replay)
    return number(obs)


def replay_push(o):
    from vyper.compiler.settings import anchor_settings
    from vyper.evm.assembler import instructions as ins

    r, m = o["replay"], o.get("model") or {}
    x = m.get("x", 0)
    if r["kind"] == "push":
        with anchor_settings(_settings(r["evm"])):
            p = ins.PUSH(x)
            sz = ins.calc_push_size(x)
        val = int.from_bytes(bytes(p[1:]), "big") if len(p) > 1 else 0
        bad = val != x or sz != len(p) or p[0] != f"PUSH{len(p) - 1}" or (len(p) == 1 and r["evm"] in ("london", "paris"))
        return {"reproduced": bool(bad), "detail": f"evm={r['evm']} PUSH({x}) = {p}, calc_push_size = {sz}"}
    with anchor_settings(_settings("cancun")):
        try:
            p = ins.PUSH_N(x, r["n"])
        except AssertionError:
            return {"reproduced": x < 256 ** r["n"], "detail": f"PUSH_N({x}, {r['n']}) asserted"}
    val = int.from_bytes(bytes(p[1:]), "big")
    return {"reproduced": val != x or len(p) != r["n"] + 1, "detail": f"PUSH_N({x}, {r['n']}) = {p}"}


# ------------------------------------------------------------------------------------------------ lock-step decoding
def decode_check(assembly, bytecode, symbol_map, const_map, evm):
    """independent walk over (assembly, bytes).  returns list of problems (empty = faithful)"""
    from vyper.evm.assembler.instructions import CONST, CONSTREF, DATA_ITEM, PUSH_OFST, PUSHLABEL, DataHeader, Label

    from vverif.sem.bytecode import OP

    names = {v[0].upper(): k for k, v in OP.items()}
    names.update({"SHA3": 0x20, "KECCAK256": 0x20, "DIFFICULTY": 0x44, "PREVRANDAO": 0x44})
    problems = []
    pc = 0
    seen_labels = {}
    i = 0
    in_data = False
    while i < len(assembly):
        it = assembly[i]
        if isinstance(it, CONST) or it == "DEBUG":
            i += 1
            continue
        if isinstance(it, DataHeader):
            in_data = True
            if symbol_map.get(it.label) != pc:
                problems.append(f"data header {it.label} resolved to {symbol_map.get(it.label)} but data starts at {pc}")
            i += 1
            continue
        if isinstance(it, Label):
            if pc >= len(bytecode) or bytecode[pc] != 0x5B:
                problems.append(f"label {it} at {pc}: byte is not JUMPDEST")
            if symbol_map.get(it) != pc:
                problems.append(f"label {it} resolved to {symbol_map.get(it)} but its JUMPDEST is at {pc}")
            pc += 1
        elif isinstance(it, PUSHLABEL):
            want = symbol_map.get(it.label)
            if bytecode[pc] != 0x61 or int.from_bytes(bytecode[pc + 1: pc + 3], "big") != want:
                problems.append(f"PUSHLABEL {it.label} at {pc}: bytes {bytecode[pc:pc+3].hex()} do not push {want}")
            pc += 3
        elif isinstance(it, PUSH_OFST):
            if isinstance(it.label, Label):
                want = symbol_map.get(it.label) + it.ofst
                if bytecode[pc] != 0x61 or int.from_bytes(bytecode[pc + 1: pc + 3], "big") != want:
                    problems.append(f"PUSH_OFST {it.label}+{it.ofst} at {pc}: bytes {bytecode[pc:pc+3].hex()} do not push {want}")
                pc += 3
            else:
                want = const_map[it.label] + it.ofst
                op = bytecode[pc]
                if op == 0x5F:
                    n, got = 0, 0
                    if evm in ("london", "paris"):
                        problems.append(f"PUSH0 emitted at {pc} for evm version {evm}")
                elif 0x60 <= op <= 0x7F:
                    n = op - 0x5F
                    got = int.from_bytes(bytecode[pc + 1: pc + 1 + n], "big")
                else:
                    problems.append(f"PUSH_OFST const at {pc}: opcode {op:#x} is not a PUSH")
                    n, got = 0, None
                if got != want:
                    problems.append(f"PUSH_OFST {it.label}+{it.ofst} at {pc}: pushes {got}, want {want}")
                pc += 1 + n
        elif isinstance(it, DATA_ITEM):
            if isinstance(it.data, bytes):
                if bytecode[pc: pc + len(it.data)] != it.data:
                    problems.append(f"data bytes at {pc} not verbatim")
                pc += len(it.data)
            else:
                want = symbol_map.get(it.data)
                if int.from_bytes(bytecode[pc: pc + 2], "big") != want:
                    problems.append(f"data label {it.data} at {pc}: {bytecode[pc:pc+2].hex()} != {want}")
                pc += 2
        elif isinstance(it, int):
            if bytecode[pc] != it:
                problems.append(f"immediate byte at {pc}: {bytecode[pc]} != {it}")
            pc += 1
        elif isinstance(it, str):
            u = it.upper()
            if u.startswith("PUSH") and u[4:].isdigit():
                want = 0x5F + int(u[4:])
            elif u.startswith("DUP") and u[3:].isdigit():
                want = 0x7F + int(u[3:])
            elif u.startswith("SWAP") and u[4:].isdigit():
                want = 0x8F + int(u[4:])
            elif u.startswith("LOG") and u[3:].isdigit():
                want = 0xA0 + int(u[3:])
            else:
                want = names.get(u)
            if want is None or bytecode[pc] != want:
                problems.append(f"opcode {it} at {pc}: byte {bytecode[pc]:#x}, expected {want}")
            pc += 1
        else:
            problems.append(f"unknown item {it!r}")
        i += 1
    if pc != len(bytecode):
        problems.append(f"walk ended at {pc} but bytecode has {len(bytecode)} bytes")
    ce = symbol_map.get(Label("code_end"))
    if ce != len(bytecode):
        problems.append(f"code_end = {ce} but len(bytecode) = {len(bytecode)}")
    return problems


def _assemblies_of(src, cfg, evm):
    from vyper.compiler.phases import CompilerData
    from vyper.compiler.settings import anchor_settings

    from vverif.sem.templates import settings_for

    cd = CompilerData(src, settings=settings_for(cfg, evm))
    with anchor_settings(cd.settings):
        return {"deploy": cd.assembly, "runtime": cd.assembly_runtime}, {"deploy": cd.bytecode, "runtime": cd.bytecode_runtime}


def job_lockstep(tid, src, cfg, evm, scale=1):
    from vyper.compiler.settings import anchor_settings
    from vyper.evm.assembler.core import assembly_to_evm, _assembly_to_evm
    from vyper.evm.assembler.symbols import resolve_symbols

    from vverif.sem.templates import settings_for

    obs = []
    replay = {"kind": "lockstep", "tid": tid, "src": src, "cfg": cfg, "evm": evm}
    asms, codes = _assemblies_of(src, cfg, evm)
    with anchor_settings(settings_for(cfg, evm)):
        for which, asm in asms.items():
            symbol_map, const_map, _ = resolve_symbols(asm)
            code = _assembly_to_evm(asm, symbol_map, const_map)
            probs = decode_check(asm, code, symbol_map, const_map, evm)
            fact(obs, f"{which}:bytes-faithful-to-assembly", not probs, replay=dict(replay, which=which), note="; ".join(probs[:3]), model={"problems": probs[:5]})
            fact(obs, f"{which}:phase-output-is-assembled-bytes", code == codes[which], replay=dict(replay, which=which), note="CompilerData bytecode differs from assembling its own assembly output" if code != codes[which] else "")
            if which == "deploy":
                # the runtime code embedded in the init code (what gets deployed) is the `bytecode_runtime` output
                from vyper.evm.assembler.instructions import Label

                rb = symbol_map.get(Label("runtime_begin"))
                rt = codes["runtime"]
                emb = code[rb: rb + len(rt)] if rb is not None else None
                fact(obs, "deploy:embedded-runtime-is-bytecode_runtime-output", emb == rt, replay=dict(replay, which="embedded"),
                     note="" if emb == rt else f"runtime_begin={rb}: embedded runtime differs from the bytecode_runtime output ({len(rt)} bytes)")
    return number(obs)


def synthetic_assemblies(evm):
    """one small assembly per item kind and payload class (labels before/after, constants of every push width, data)"""
    from vyper.evm.assembler.instructions import CONST, CONSTREF, DATA_ITEM, PUSH, PUSH_OFST, PUSHLABEL, DataHeader, Label

    out = {}
    vals = [0, 1, 255, 256, 65535, 65536, 2**64, 2**255, 2**256 - 1]
    for v in vals:
        for ofst in (0, 1, 32):
            if v + ofst >= 2**256:
                continue
            L1, L2, D = Label("a"), Label("b"), Label("d")
            out[f"const[{v if v < 10**6 else hex(v)[:12]};+{ofst}]"] = [
                CONST("c", v), "JUMPDEST", PUSH_OFST(CONSTREF("c"), ofst), "POP", PUSHLABEL(L2), "JUMP", L1, "STOP", L2, PUSHLABEL(L1), "JUMP",
                PUSH_OFST(D, ofst), "POP", *PUSH(v), "POP", DataHeader(D), DATA_ITEM(b"\x01\x02\x03"), DATA_ITEM(L1), DATA_ITEM(b""),
            ]
    return out


def job_synthetic(evm, scale=1):
    from vyper.compiler.settings import anchor_settings
    from vyper.evm.assembler.core import _assembly_to_evm
    from vyper.evm.assembler.symbols import resolve_symbols

    obs = []
    with anchor_settings(_settings(evm)):
        for name, asm in synthetic_assemblies(evm).items():
            symbol_map, const_map, _ = resolve_symbols(asm)
            code = _assembly_to_evm(asm, symbol_map, const_map)
            probs = decode_check(asm, code, symbol_map, const_map, evm)
            fact(obs, f"synthetic[{name}]", not probs, replay={"kind": "synthetic", "evm": evm, "name": name}, note="; ".join(probs[:3]), model={"problems": probs[:5]})
    return number(obs)


def replay_lockstep(o):
    r = o["replay"]
    if r["kind"] == "synthetic":
        res = job_synthetic(r["evm"])
        bad = [x for x in res if x["status"] != "proved" and r["name"] in x["clause"]]
        return {"reproduced": bool(bad), "detail": bad[0]["note"] if bad else "faithful"}
    res = job_lockstep(r["tid"], r["src"], r["cfg"], r["evm"])
    bad = [x for x in res if x["status"] != "proved"]
    return {"reproduced": bool(bad), "detail": "; ".join((x.get("note") or "") for x in bad)[:600] if bad else "faithful"}


REPLAY = {"push": replay_push, "push_n": replay_push, "lockstep": replay_lockstep, "synthetic": replay_lockstep}
