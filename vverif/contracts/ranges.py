"""Contracts (PyVC) on vyper/venom/analysis/variable_range: ValueRange lattice operations, the range
evaluators (`eval_op` and the 20 `eval_*` it dispatches to) and the branch-refinement functions of
`VariableRangeAnalysis`.

Concretisation  γ : ValueRange -> set of 256-bit words
    γ(TOP) = all words,  γ(BOT) = {},  γ([lo,hi]) = { w | u(w) in [lo,hi]  or  s(w) in [lo,hi] }
(u = unsigned reading, s = two's-complement reading; ranges hold bounds in [-2**255, 2**256) ).

Soundness contract of an evaluator:   a in γ(L) /\\ b in γ(R)  ==>  evm_op(a, b) in γ(eval_op(op, L, R)).
Refinement contract of a branch rule:  w in γ(current) /\\ cond(w) == taken  ==>  w in γ(state'[var]).
"""
import z3

from vverif import spec_evm as S
from vverif.jobutil import discharge, number
from vverif.pyvc import Engine, SymObj, as_int, bit_lemmas, BITAND, BITOR, BITXOR, POWMOD256, is_sym

M, H = S.M, S.H

FUNCS_EVAL = [
    "vyper.venom.analysis.variable_range.evaluators:eval_op",
    "vyper.venom.analysis.variable_range.value_range:ValueRange",
    "vyper.utils:wrap256",
    "vyper.utils:unsigned_to_signed",
] + [
    "vyper.venom.analysis.variable_range.evaluators:eval_" + n
    for n in "add sub mul and byte signextend mod div shr shl sar sdiv smod compare eq iszero or xor not".split()
] + ["vyper.venom.analysis.variable_range.evaluators:_range_spans_sign_boundary"]

_AM = [0, 1, 7, 8, 31, 32, 128, 255, 256, 257, 2**256 - 1]
SAMPLE_AMOUNTS = {"shl": _AM, "shr": _AM, "sar": _AM, "signextend": [0, 1, 15, 30, 31, 32, 2**256 - 1], "byte": [0, 1, 15, 30, 31, 32, 2**256 - 1]}
UF = {"and": BITAND, "or": BITOR, "xor": BITXOR, "exp": POWMOD256}


def _vr():
    from vyper.venom.analysis.variable_range import value_range as vr

    return vr


def mk_range(eng, st, kind, tag):
    """returns (SymObj ValueRange, st', invariant formula, description)"""
    vr = _vr()
    K = vr.VRangeKind
    if kind == "TOP":
        o, st = eng.new_obj(vr.ValueRange, {"_kind": K.TOP, "_lo": None, "_hi": None}, st)
        return o, st, z3.BoolVal(True)
    if kind == "BOT":
        o, st = eng.new_obj(vr.ValueRange, {"_kind": K.BOT, "_lo": None, "_hi": None}, st)
        return o, st, z3.BoolVal(True)
    lo, hi = z3.Int(tag + "_lo"), z3.Int(tag + "_hi")
    inv = z3.And(lo > -M, hi < M)  # the domain that is closed under every evaluator (proved as `result-in-domain`)
    if kind == "IV":
        inv = z3.And(inv, lo <= hi)
    elif kind == "IVNC":  # interval that is not a constant
        inv = z3.And(inv, lo < hi)
    elif isinstance(kind, tuple) and kind[0] == "CONST":
        inv = z3.And(lo == kind[1], hi == kind[1])
        lo = hi = kind[1]
    o, st = eng.new_obj(vr.ValueRange, {"_kind": K.IV, "_lo": lo, "_hi": hi}, st)
    return o, st, inv


def vr_fields(eng, st, r):
    """field map of a ValueRange given either as a symbolic record or as a real (concrete) instance"""
    if isinstance(r, SymObj):
        return eng.fields(r, st)
    if isinstance(r, _vr().ValueRange):
        return {"_kind": r._kind, "_lo": r._lo, "_hi": r._hi}
    return None


def gamma(eng, st, r, w):
    K = _vr().VRangeKind
    f = vr_fields(eng, st, r)
    k = f["_kind"]
    if k == K.TOP:
        return z3.BoolVal(True)
    if k == K.BOT:
        return z3.BoolVal(False)
    lo, hi = as_int(f["_lo"]), as_int(f["_hi"])
    return z3.Or(z3.And(lo <= w, w <= hi), z3.And(lo <= S.zs(w), S.zs(w) <= hi))


def describe(eng, st, r):
    K = _vr().VRangeKind
    f = eng.fields(r, st)
    return f["_kind"].name


def mul_mono(x1, y1, x2, y2):
    return z3.Implies(z3.And(0 <= x1, x1 <= x2, 0 <= y1, y1 <= y2), x1 * y1 <= x2 * y2)


def zsafe(w):
    return S.zs(w)


def job_lemmas(scale=1):
    """the schematic lemmas used as hypotheses elsewhere, proved once in general form"""
    obs = []
    x1, y1, x2, y2 = z3.Ints("x1 y1 x2 y2")
    discharge(obs, "lemma-mul-mono", mul_mono(x1, y1, x2, y2), timeout_ms=60000 * scale)
    return number(obs)


def reading_cases(eng, st, L, a, R, b):
    """lemma step: split γ by the reading under which each word lies in its range (unsigned, or negative two's complement)"""

    def rd(r, w):
        f = vr_fields(eng, st, r)
        if f["_kind"].name != "IV":
            return [z3.BoolVal(True)]
        lo, hi = as_int(f["_lo"]), as_int(f["_hi"])
        # (the implications are logically redundant; they hand the solver the substitution it needs for constants)
        return [z3.And(lo <= w, w <= hi, z3.Implies(lo == hi, w == lo)),
                z3.And(w >= H, lo <= w - M, w - M <= hi, z3.Implies(lo == hi, w == lo + M))]

    ca = rd(L, a)
    cb = rd(R, b) if R is not None else [z3.BoolVal(True)]
    out = [z3.And(x, y) for x in ca for y in cb]
    return out if len(out) > 1 else None


def kind_name(k):
    return k if isinstance(k, str) else f"CONST({k[1]})"


def py_gamma(r, w):
    if r.is_top:
        return True
    if r.is_empty:
        return False
    return r.lo <= w <= r.hi or r.lo <= S.s(w) <= r.hi


def py_mk(kind, lo, hi):
    vr = _vr()
    if kind == "TOP":
        return vr.ValueRange.top()
    if kind == "BOT":
        return vr.ValueRange.empty()
    if isinstance(kind, (tuple, list)):
        return vr.ValueRange.constant(kind[1])
    return vr.ValueRange(vr.VRangeKind.IV, lo, hi)


# --------------------------------------------------------------------------------------------- evaluators
def job_eval(op, kl, kr, scale=1):
    from vyper.venom.analysis.variable_range import evaluators as ev

    eng = Engine(asserts="raise")
    from vverif.pyvc import St

    st = St(z3.BoolVal(True))
    L, st, invL = mk_range(eng, st, kl if isinstance(kl, str) else tuple(kl), "l")
    R, st, invR = mk_range(eng, st, kr if isinstance(kr, str) else tuple(kr), "r")
    pre = z3.And(invL, invR)
    out = eng.run(ev.eval_op, [op, L, R], pre=pre, heap=st.heap)
    a, b = z3.Ints("a b")
    inw = lambda w: z3.And(w >= 0, w < M)
    unary = S.ARITY[op] == 1
    first_const = op in ("shl", "shr", "sar", "signextend", "byte")
    if first_const and not isinstance(kl, str):
        # the first operand is the concrete word  kl[1] mod 2**256
        res_word = S.zi_op(op, kl[1] % M, b)
        a_fix = a == kl[1] % M
    elif first_const:
        res_word = None  # result unconstrained: only TOP / full byte range can be sound; checked via bounds below
        a_fix = z3.BoolVal(True)
    else:
        res_word = S.zi_op(op, a, b, uf=UF) if not unary else S.zi_op(op, a)
        a_fix = z3.BoolVal(True)
    obs = []
    timeout = 20000 * scale
    replay = {"kind": "eval", "op": op, "kl": kl, "kr": kr}
    for (clause, f) in eng.obligations:
        discharge(obs, clause, f, hyps=bit_lemmas(eng.bitop_apps), timeout_ms=timeout, replay=replay)
    conds = [s_.pc for s_, _ in out.returns] + [s_.pc for s_, _ in out.raises]
    discharge(obs, "paths-exhaustive", z3.Implies(pre, z3.Or(*conds) if conds else z3.BoolVal(False)), timeout_ms=timeout, replay=replay)
    K = _vr().VRangeKind
    for (s_, res) in out.returns:
        f = vr_fields(eng, s_, res)
        if f is None:
            discharge(obs, "returns-ValueRange", z3.Not(s_.pc), timeout_ms=timeout, replay=replay)
            continue
        if f["_kind"] == K.IV:
            discharge(obs, "result-in-domain", z3.Implies(s_.pc, z3.And(as_int(f["_lo"]) <= as_int(f["_hi"]), as_int(f["_lo"]) > -M, as_int(f["_hi"]) < M)),
                      timeout_ms=timeout, replay=replay)
        if res_word is None:
            # first operand (shift amount / byte index) not a known constant: the true contract instantiated at sample
            # amounts a_c (never stricter than the contract itself): a_c in γ(L) /\ b in γ(R) ==> op(a_c, b) in γ(res)
            for a_c in SAMPLE_AMOUNTS[op]:
                goal = z3.Implies(z3.And(s_.pc, inw(b), gamma(eng, st, L, z3.IntVal(a_c)), gamma(eng, st, R, b)),
                                  gamma(eng, s_, res, S.zi_op(op, a_c, b)))
                discharge(obs, f"sound[amount={a_c if a_c < 1000 else 'max'}]", goal, timeout_ms=timeout, replay=dict(replay, amount=a_c))
            continue
        hyp = [s_.pc, inw(a), inw(b), a_fix, gamma(eng, st, L, a)]
        if not unary:
            hyp.append(gamma(eng, st, R, b))
        lem = bit_lemmas(eng.bitop_apps + [(n, a, b) for n in ("BITAND", "BITOR", "BITXOR")])
        if op == "mul" and kl == "IV" and kr == "IV":
            # lemma step (each instance is itself discharged below as `lemma-mul-mono`): products are monotone on naturals
            fl, fr = vr_fields(eng, st, L), vr_fields(eng, st, R)
            for (x1, y1, x2, y2) in ((a, b, fl["_hi"], fr["_hi"]), (fl["_lo"], fr["_lo"], a, b), (zsafe(a), zsafe(b), fl["_hi"], fr["_hi"]), (fl["_lo"], fr["_lo"], zsafe(a), zsafe(b))):
                lem.append(mul_mono(as_int(x1), as_int(y1), as_int(x2), as_int(y2)))
        goal = z3.Implies(z3.And(*hyp), gamma(eng, s_, res, res_word))
        cases = None
        if op in ("mul", "sdiv", "smod", "div", "mod"):
            cases = reading_cases(eng, st, L, a, R if not unary else None, b)
        discharge(obs, "sound", goal, hyps=lem, timeout_ms=timeout, replay=replay, cases=cases,
                  eval_terms={"spec_result": res_word})
    for o in obs:
        o["sources"] = eng.sources
    return number(obs)


def replay_eval(o):
    """native replay of a refuted evaluator obligation: call the real eval_op on concrete ranges"""
    from vyper.venom.analysis.variable_range import evaluators as ev

    r, m = o["replay"], o.get("model") or {}
    op = r["op"]
    try:
        L = py_mk(r["kl"], m.get("l_lo"), m.get("l_hi"))
        R = py_mk(r["kr"], m.get("r_lo"), m.get("r_hi"))
    except Exception as e:
        return {"reproduced": False, "detail": f"cannot build input ranges from model: {e!r}"}
    a, b = m.get("a", 0), m.get("b", 0)
    if not isinstance(r["kl"], str) and op in ("shl", "shr", "sar", "signextend", "byte"):
        a = r["kl"][1] % M
    if "amount" in r:
        a = r["amount"]
    try:
        res = ev.eval_op(op, L, R)
    except Exception as e:
        clause = o["clause"]
        if clause.startswith("no-raise") or clause.startswith("assert"):
            return {"reproduced": True, "detail": f"eval_op({op!r}, {L!r}, {R!r}) raised {type(e).__name__}: {e}"}
        return {"reproduced": False, "detail": f"raised {e!r} but the failed clause was {clause}"}
    if o["clause"].startswith("result-in-domain"):
        bad = (not res.is_top and not res.is_empty) and not (-M < res.lo <= res.hi < M)
        return {"reproduced": bad, "detail": f"eval_op({op!r}, {L!r}, {R!r}) = {res!r}"}
    ina = py_gamma(L, a)
    inb = S.ARITY[op] == 1 or py_gamma(R, b)
    if not (ina and inb):
        return {"reproduced": False, "detail": f"model words not in the input ranges: a={a} L={L!r} b={b} R={R!r}"}
    w = S.py_op(op, a) if S.ARITY[op] == 1 else S.py_op(op, a, b)
    ok = py_gamma(res, w)
    return {
        "reproduced": not ok,
        "detail": f"eval_op({op!r}, {L!r}, {R!r}) = {res!r} but {op}({a}, {b}) = {w} (signed {S.s(w)}) with a in γ(L), b in γ(R)",
        "native_call": f"vyper.venom.analysis.variable_range.evaluators.eval_op({op!r}, {L!r}, {R!r})",
    }


# --------------------------------------------------------------------------------------------- lattice
FUNCS_LATTICE = ["vyper.venom.analysis.variable_range.value_range:ValueRange." + n for n in ("union", "intersect", "clamp", "iv")] + [
    "vyper.venom.analysis.variable_range.analysis:VariableRangeAnalysis._widen_range"
]


def job_lattice(which, kl, kr, scale=1):
    from vyper.venom.analysis.variable_range import analysis as an
    from vverif.pyvc import St

    vr = _vr()
    eng = Engine(asserts="raise")
    st = St(z3.BoolVal(True))
    L, st, invL = mk_range(eng, st, kl, "l")
    w = z3.Int("w")
    inw = z3.And(w >= 0, w < M)
    timeout = 20000 * scale
    obs = []
    replay = {"kind": "lattice", "which": which, "kl": kl, "kr": kr}
    if which == "clamp":
        # kr in {"none","lo","hi","both"}: which bounds are given
        lo, hi = z3.Int("c_lo"), z3.Int("c_hi")
        args = [L, lo if kr in ("lo", "both") else None, hi if kr in ("hi", "both") else None]
        pre = invL
        out = eng.run(vr.ValueRange.clamp, args, pre=pre, heap=st.heap)
        # contract as used by the branch rules: a word whose *chosen reading* lies in [lo,hi] and that is in γ(self)
        # by the same reading stays in γ(result).   Stated for both readings separately.
        for (s_, res) in out.returns:
            for rd, val in (("u", w), ("s", S.zs(w))):
                f = vr_fields(eng, st, L)
                inL = z3.BoolVal(True) if kl == "TOP" else (z3.BoolVal(False) if kl == "BOT" else z3.And(as_int(f["_lo"]) <= val, val <= as_int(f["_hi"])))
                cond = z3.And(inw, inL)
                if args[1] is not None:
                    cond = z3.And(cond, val >= lo)
                if args[2] is not None:
                    cond = z3.And(cond, val <= hi)
                discharge(obs, f"clamp-keeps[{rd}]", z3.Implies(z3.And(s_.pc, cond), gamma(eng, s_, res, w)), timeout_ms=timeout, replay=replay)
    else:
        R, st, invR = mk_range(eng, st, kr, "r")
        pre = z3.And(invL, invR)
        if which == "union":
            out = eng.run(vr.ValueRange.union, [L, R], pre=pre, heap=st.heap)
            hyp = z3.Or(gamma(eng, st, L, w), gamma(eng, st, R, w))
        elif which == "intersect":
            out = eng.run(vr.ValueRange.intersect, [L, R], pre=pre, heap=st.heap)
            # same-reading intersection (what the callers rely on): a word in both by the same reading
            f1, f2 = vr_fields(eng, st, L), vr_fields(eng, st, R)

            def inr(f, k, val):
                if k == "TOP":
                    return z3.BoolVal(True)
                if k == "BOT":
                    return z3.BoolVal(False)
                return z3.And(as_int(f["_lo"]) <= val, val <= as_int(f["_hi"]))

            hyp = z3.Or(z3.And(inr(f1, kl, w), inr(f2, kr, w)), z3.And(inr(f1, kl, S.zs(w)), inr(f2, kr, S.zs(w))))
        elif which == "widen":
            self_, st2 = eng.new_obj(an.VariableRangeAnalysis, {}, st)
            out = eng.run(an.VariableRangeAnalysis._widen_range, [self_, L, R], pre=pre, heap=st2.heap)
            hyp = gamma(eng, st, R, w)  # the widened range must contain the new range
        for (s_, res) in out.returns:
            discharge(obs, f"{which}-contains", z3.Implies(z3.And(s_.pc, inw, hyp), gamma(eng, s_, res, w)), timeout_ms=timeout, replay=replay)
    for (clause, f) in eng.obligations:
        discharge(obs, clause, f, timeout_ms=timeout, replay=replay)
    conds = [s_.pc for s_, _ in out.returns] + [s_.pc for s_, _ in out.raises]
    discharge(obs, "paths-exhaustive", z3.Implies(pre, z3.Or(*conds) if conds else z3.BoolVal(False)), timeout_ms=timeout, replay=replay)
    for o in obs:
        o["sources"] = eng.sources
    return number(obs)


def replay_lattice(o):
    from vyper.venom.analysis.variable_range import analysis as an

    vr = _vr()
    r, m = o["replay"], o.get("model") or {}
    L = py_mk(r["kl"], m.get("l_lo"), m.get("l_hi"))
    w = m.get("w", 0)
    if r["which"] == "clamp":
        lo = m.get("c_lo") if r["kr"] in ("lo", "both") else None
        hi = m.get("c_hi") if r["kr"] in ("hi", "both") else None
        res = L.clamp(lo, hi)
        for val in (w, S.s(w)):
            inL = L.is_top or (not L.is_empty and L.lo <= val <= L.hi)
            if inL and (lo is None or val >= lo) and (hi is None or val <= hi) and not py_gamma(res, w):
                return {"reproduced": True, "detail": f"{L!r}.clamp({lo},{hi}) = {res!r} loses word {w} (reading {val})"}
        return {"reproduced": False, "detail": f"{L!r}.clamp({lo},{hi}) = {res!r}; word {w} not a witness"}
    R = py_mk(r["kr"], m.get("r_lo"), m.get("r_hi"))
    if r["which"] == "union":
        res = L.union(R)
        bad = (py_gamma(L, w) or py_gamma(R, w)) and not py_gamma(res, w)
    elif r["which"] == "intersect":
        res = L.intersect(R)

        def inr(x, v):
            return x.is_top or (not x.is_empty and x.lo <= v <= x.hi)

        bad = ((inr(L, w) and inr(R, w)) or (inr(L, S.s(w)) and inr(R, S.s(w)))) and not py_gamma(res, w)
    else:
        res = an.VariableRangeAnalysis._widen_range(None, L, R)
        bad = py_gamma(R, w) and not py_gamma(res, w)
    return {"reproduced": bool(bad), "detail": f"{r['which']}({L!r}, {R!r}) = {res!r}, word {w}"}


# --------------------------------------------------------------------------------------------- branch refinement
FUNCS_NARROW = ["vyper.venom.analysis.variable_range.analysis:VariableRangeAnalysis." + n for n in ("_apply_compare", "_narrow_var", "_apply_iszero", "_apply_eq", "_write_range")] + [
    "vyper.venom.analysis.variable_range.value_range:ValueRange.clamp",
    "vyper.venom.analysis.variable_range.value_range:ValueRange.intersect",
]


def _mk_inst(eng, st, opcode, operands):
    from vyper.venom.basicblock import IRInstruction

    return eng.new_obj(IRInstruction, {"opcode": opcode, "operands": operands}, st)


def job_narrow(rule, opcode, kcur, is_true, var_left, scale=1):
    """rule in {compare, iszero, eq-lit, eq-var}.  var_left: the variable is the *first* EVM operand (operands[-1])."""
    from vyper.venom.analysis.variable_range import analysis as an
    from vyper.venom.basicblock import IRLiteral, IRVariable
    from vverif.pyvc import St

    eng = Engine(asserts="raise")
    st = St(z3.BoolVal(True))
    x = IRVariable("%x")
    y = IRVariable("%y")
    cur, st, inv = mk_range(eng, st, kcur, "l")
    lit_v = z3.Int("lit")
    lit, st = eng.new_obj(IRLiteral, {"value": lit_v}, st)
    pre = z3.And(inv, lit_v >= -H, lit_v < M)
    state0 = {} if kcur == "TOP" else {x: cur}
    self_, st = eng.new_obj(an.VariableRangeAnalysis, {}, st)
    w = z3.Int("w")  # the run-time word of %x
    inw = lambda v: z3.And(v >= 0, v < M)
    lw = lit_v % M  # the run-time word of the literal
    cur2 = None
    if rule != "eq-var":
        state, st = eng.new_cont(state0, st)
    if rule == "compare":
        # operands are stored reversed: operands[-1] is the first EVM operand
        ops = [lit, x] if var_left else [x, lit]
        inst, st = _mk_inst(eng, st, opcode, ops)
        a0, a1 = (w, lw) if var_left else (lw, w)
        cond_val = S.zi_op(opcode, a0, a1)
        out = eng.run(an.VariableRangeAnalysis._apply_compare, [self_, inst, is_true, state], pre=pre, heap=st.heap)
    elif rule == "iszero":
        inst, st = _mk_inst(eng, st, "iszero", [x])
        cond_val = S.zi_op("iszero", w)
        out = eng.run(an.VariableRangeAnalysis._apply_iszero, [self_, inst, is_true, state], pre=pre, heap=st.heap)
    elif rule == "eq-lit":
        ops = [lit, x] if var_left else [x, lit]
        inst, st = _mk_inst(eng, st, "eq", ops)
        cond_val = S.zi_op("eq", w, lw)
        out = eng.run(an.VariableRangeAnalysis._apply_eq, [self_, inst, is_true, state], pre=pre, heap=st.heap)
    elif rule == "eq-var":
        kc2 = opcode  # second range kind passed in the opcode slot
        cur2, st, inv2 = mk_range(eng, st, kc2, "r")
        pre = z3.And(pre, inv2)
        if kc2 != "TOP":
            state0[y] = cur2
        state, st = eng.new_cont(state0, st)
        inst, st = _mk_inst(eng, st, "eq", [y, x])
        w2 = z3.Int("w2")
        cond_val = S.zi_op("eq", w, w2)
        out = eng.run(an.VariableRangeAnalysis._apply_eq, [self_, inst, is_true, state], pre=pre, heap=st.heap)
    timeout = 20000 * scale
    replay = {"kind": "narrow", "rule": rule, "opcode": opcode, "kcur": kcur, "is_true": is_true, "var_left": var_left}
    obs = []
    for (clause, f) in eng.obligations:
        discharge(obs, clause, f, timeout_ms=timeout, replay=replay)
    conds = [s_.pc for s_, _ in out.returns] + [s_.pc for s_, _ in out.raises]
    discharge(obs, "paths-exhaustive", z3.Implies(pre, z3.Or(*conds) if conds else z3.BoolVal(False)), timeout_ms=timeout, replay=replay)
    for (s_, res) in out.returns:
        from vverif.pyvc import HCont

        if not isinstance(res, HCont):
            discharge(obs, "returns-state", z3.Not(s_.pc), timeout_ms=timeout, replay=replay)
            continue
        res = eng.data(res, s_)
        taken = (cond_val != 0) if is_true else (cond_val == 0)
        hyp = [s_.pc, inw(w), gamma(eng, st, cur, w), taken]
        if rule == "eq-var":
            hyp += [inw(w2), gamma(eng, st, cur2, w2)]
        newx = res.get(x)
        goal = z3.BoolVal(True) if newx is None else gamma(eng, s_, newx, w)
        discharge(obs, "refined-contains[x]", z3.Implies(z3.And(*hyp), goal), timeout_ms=timeout, replay=replay)
        if rule == "eq-var":
            newy = res.get(y)
            goal = z3.BoolVal(True) if newy is None else gamma(eng, s_, newy, w2)
            discharge(obs, "refined-contains[y]", z3.Implies(z3.And(*hyp), goal), timeout_ms=timeout, replay=replay)
    for o in obs:
        o["sources"] = eng.sources
    return number(obs)


def replay_narrow(o):
    from vyper.venom.analysis.variable_range import analysis as an
    from vyper.venom.basicblock import IRInstruction, IRLiteral, IRVariable

    r, m = o["replay"], o.get("model") or {}
    x, y = IRVariable("%x"), IRVariable("%y")
    cur = py_mk(r["kcur"], m.get("l_lo"), m.get("l_hi"))
    state = {} if cur.is_top else {x: cur}
    w = m.get("w", 0)
    lit = m.get("lit", 0)
    A = an.VariableRangeAnalysis.__new__(an.VariableRangeAnalysis)
    rule, opcode = r["rule"], r["opcode"]
    try:
        if rule == "compare":
            ops = [IRLiteral(lit), x] if r["var_left"] else [x, IRLiteral(lit)]
            inst = IRInstruction(opcode, ops)
            a0, a1 = (w, lit % M) if r["var_left"] else (lit % M, w)
            c = S.py_op(opcode, a0, a1)
            new = A._apply_compare(inst, r["is_true"], state)
        elif rule == "iszero":
            inst = IRInstruction("iszero", [x])
            c = S.py_op("iszero", w)
            new = A._apply_iszero(inst, r["is_true"], state)
        elif rule == "eq-lit":
            ops = [IRLiteral(lit), x] if r["var_left"] else [x, IRLiteral(lit)]
            inst = IRInstruction("eq", ops)
            c = S.py_op("eq", w, lit % M)
            new = A._apply_eq(inst, r["is_true"], state)
        else:
            cur2 = py_mk(opcode, m.get("r_lo"), m.get("r_hi"))
            if not cur2.is_top:
                state[y] = cur2
            w2 = m.get("w2", 0)
            inst = IRInstruction("eq", [y, x])
            c = S.py_op("eq", w, w2)
            new = A._apply_eq(inst, r["is_true"], state)
            if py_gamma(cur2, w2) and py_gamma(cur, w) and bool(c) == r["is_true"]:
                ny = new.get(y)
                if ny is not None and not py_gamma(ny, w2):
                    return {"reproduced": True, "detail": f"_apply_eq narrowed %y from {cur2!r} to {ny!r} although word {w2} is consistent with the branch"}
    except Exception as e:
        cl = o["clause"]
        return {"reproduced": cl.startswith("no-raise") or cl.startswith("assert"), "detail": f"raised {type(e).__name__}: {e}"}
    if not (py_gamma(cur, w) and bool(c) == r["is_true"]):
        return {"reproduced": False, "detail": f"model word {w} not consistent with branch (cond={c}) or not in {cur!r}"}
    nx = new.get(x)
    bad = nx is not None and not py_gamma(nx, w)
    return {"reproduced": bool(bad), "detail": f"{rule} {opcode} taken={r['is_true']} literal={lit}: range of %x narrowed from {cur!r} to {nx!r}, but the word {w} (signed {S.s(w)}) takes this branch"}


REPLAY = {"eval": replay_eval, "lattice": replay_lattice, "narrow": replay_narrow}
