"""Function-level contracts (FinEx over a type family closed under two levels of composition) on the ABI kernels both code
generators rely on:

  needs_clamp (legacy `codegen.core.needs_clamp(t, Encoding.ABI)` and Venom `codegen_venom.abi.abi_decoder.needs_clamp(t)`):
        if a value of type t read from an ABI payload can be out of range (a leaf narrower than a word, a bool/address/
        bytesM/decimal/flag leaf, or any length word), then needs_clamp(t) is True   [soundness direction only]
  vyper.abi_types:  is_dynamic / static_size / embedded_static_size / size_bound  agree with the ABI specification
        (vverif/spec_abi.py): is_dynamic as specified; static types: static_size = 32 * words; head slot = 32 for dynamic
        types; size_bound = the length of the longest canonical encoding
"""
import itertools

from vverif.jobutil import fact, number

FUNCS = ["vyper.codegen.core:needs_clamp", "vyper.codegen_venom.abi.abi_decoder:needs_clamp", "vyper.abi_types:ABI_Tuple.size_bound", "vyper.abi_types:ABI_DynamicArray.size_bound",
         "vyper.abi_types:ABI_Bytes.size_bound", "vyper.abi_types:ABI_StaticArray.static_size", "vyper.abi_types:ABI_Tuple.static_size", "vyper.abi_types:ABI_Tuple.is_dynamic"]


def type_family(depth=2):
    from vyper.semantics.types import AddressT, BoolT, BytesM_T, BytesT, DArrayT, DecimalT, IntegerT, SArrayT, StringT, StructT, TupleT
    from vyper.semantics.types.user import FlagT

    prims = [IntegerT(False, 256), IntegerT(True, 256), BytesM_T(32), IntegerT(False, 8), IntegerT(True, 128), IntegerT(False, 248), BoolT(), AddressT(), BytesM_T(1), BytesM_T(31), DecimalT()]
    try:
        prims.append(FlagT("F", {"A": 0, "B": 1, "C": 2}))
    except Exception:
        pass
    dyn0 = [BytesT(1), BytesT(33), StringT(5)]
    level = prims + dyn0
    allt = list(level)
    for _ in range(depth):
        nxt = []
        for t in level:
            nxt.append(SArrayT(t, 2))
            nxt.append(DArrayT(t, 3))
        for a, b in itertools.product(level[:8] + dyn0[:1], repeat=2):
            nxt.append(TupleT((a, b)))
        for a in level[:12]:
            nxt.append(StructT("S", {"x": IntegerT(False, 256), "y": a}))
        allt += nxt
        level = nxt[:40]
    return allt


def needs_validation(t):
    """spec: can a payload word of this type be non-canonical, or does the type carry a length word?"""
    from vverif.spec_abi import kind_of
    from vverif.spec_source import members, tname

    k = kind_of(t)
    if k == "word":
        return tname(t) not in ("uint256", "int256", "bytes32")
    if k in ("bytes", "array"):
        return True
    return any(needs_validation(m) for m in members(t))


def spec_bound(t):
    """length in bytes of the longest canonical encoding of a value of type t as a tuple member's *tail or inline part*"""
    from vverif.spec_abi import bound, is_dynamic, kind_of, static_words
    from vverif.spec_source import members

    k = kind_of(t)
    if k in ("word", "static"):
        return 32 * static_words(t)
    if k == "bytes":
        return 32 + ((bound(t) + 31) // 32) * 32
    if k == "array":
        et = t.value_type
        per = spec_bound(et) + (32 if is_dynamic(et) else 0)
        return 32 + bound(t) * per
    return sum(spec_bound(m) + (32 if is_dynamic(m) else 0) for m in members(t))


def job_needs_clamp(scale=1):
    from vyper.codegen import core
    from vyper.codegen.ir_node import Encoding
    from vyper.codegen_venom.abi import abi_decoder as VD

    obs = []
    fam = type_family()
    bad_l, bad_v = [], []
    for t in fam:
        try:
            nv = needs_validation(t)
        except Exception:
            continue
        if nv and not core.needs_clamp(t, Encoding.ABI):
            bad_l.append(str(t))
        if nv and not VD.needs_clamp(t):
            bad_v.append(str(t))
    fact(obs, "legacy.needs_clamp:true-whenever-a-payload-can-be-out-of-range", not bad_l, replay={"kind": "abik"}, note=f"{len(fam)} types; missed: {bad_l[:5]}")
    fact(obs, "venom.needs_clamp:true-whenever-a-payload-can-be-out-of-range", not bad_v, replay={"kind": "abik"}, note=f"{len(fam)} types; missed: {bad_v[:5]}")
    return number(obs)


def job_abi_sizes(scale=1):
    from vverif.spec_abi import is_dynamic, static_words

    obs = []
    fam = type_family()
    bad = {"is_dynamic": [], "static_size": [], "embedded_static_size": [], "size_bound": []}
    n = 0
    for t in fam:
        try:
            a = t.abi_type
            dyn = is_dynamic(t)
        except Exception:
            continue
        n += 1
        if a.is_dynamic() != dyn:
            bad["is_dynamic"].append(str(t))
        if not dyn and a.static_size() != 32 * static_words(t):
            bad["static_size"].append(str(t))
        if a.embedded_static_size() != (32 if dyn else 32 * static_words(t)):
            bad["embedded_static_size"].append(str(t))
        if a.size_bound() != spec_bound(t):
            bad["size_bound"].append(f"{t}: {a.size_bound()} vs {spec_bound(t)}")
    for k, v in bad.items():
        fact(obs, f"abi_types.{k}:agrees-with-the-ABI-specification", not v, replay={"kind": "abik"}, note=f"{n} types; disagreements: {v[:4]}")
    return number(obs)


REPLAY = {"abik": lambda o: {"reproduced": True, "detail": "deterministic fact about the real functions on the type family: " + (o.get("note") or "")}}
