"""GenVC contracts on convert() between one-word types, both front ends (C03, C02):

   legacy  vyper/builtins/_convert.py        to_int to_decimal to_bool to_address to_bytes_m to_flag (+ helpers)
   Venom   vyper/codegen_venom/builtins/convert.py  _to_int _to_decimal _to_bool _to_address _to_bytes_m _to_flag

(1) spec contract: for every admissible pair (T_in, T_out) and every canonical input word,
        not reverted  <=>  the input is in bounds for T_out (docs/types.rst "Type Conversions"), and then the result word is
        the canonical word of the converted value;
(2) relational contract: legacy and Venom generators agree on the revert condition and on the value.
"""
import itertools
import types as pytypes

import z3

from vverif import spec_evm as S
from vverif import spec_vyper as V
from vverif.jobutil import discharge, number
from vverif.sem.irterm import BVDom, denote_ir, denote_venom_block
from vverif.sem.machine import Unsupported

M = S.M
BV = S.BV
DEC = 10**10

FUNCS_LEGACY = ["vyper.builtins._convert:" + n for n in (
    "to_int", "_to_int", "to_decimal", "to_bool", "to_address", "to_bytes_m", "to_flag", "_int_to_int", "_fixed_to_int", "_int_to_fixed",
    "_bytes_to_num", "_clamp_numeric_convert")] + ["vyper.codegen.core:" + n for n in ("int_clamp", "bytes_clamp", "clamp_basetype", "clamp", "clamp_le", "promote_signed_int", "shr", "shl", "sar")]
FUNCS_VENOM = ["vyper.codegen_venom.builtins.convert:" + n for n in (
    "_to_int", "_to_decimal", "_to_bool", "_to_address", "_to_bytes_m", "_to_flag", "_int_to_int", "_clamp_numeric_convert", "_int_clamp", "_clamp_basetype")]


def mk(name):
    from vyper.semantics.types import AddressT, BoolT, BytesM_T, DecimalT, IntegerT
    from vyper.semantics.types.user import FlagT

    if name == "decimal":
        return DecimalT()
    if name == "bool":
        return BoolT()
    if name == "address":
        return AddressT()
    if name.startswith("bytes"):
        return BytesM_T(int(name[5:]))
    if name.startswith("flag"):
        n = int(name[4:])
        import vyper.ast as vy_ast

        src = "flag F:\n" + "".join(f"    M{i}\n" for i in range(n))
        node = vy_ast.parse_to_ast(src).body[0]
        return FlagT.from_FlagDef(node)
    return IntegerT(name.startswith("int"), int(name.lstrip("uint")))


def canonical(name, w):
    if name.startswith("flag"):
        n = int(name[4:])
        return z3.BoolVal(True) if n == 256 else z3.LShR(w, n) == 0
    return V.T(name).canonical(w)


def type_names(quick):
    widths = [8, 16, 128, 160, 168, 248, 256] if quick else list(range(8, 257, 8))
    ms = [1, 2, 16, 20, 21, 31, 32] if quick else list(range(1, 33))
    return [f"{p}{b}" for p in ("uint", "int") for b in widths] + ["decimal", "address", "bool"] + [f"bytes{m}" for m in ms] + ["flag3", "flag256"]


WIDE = V.WIDE


def spec_convert(tin, tout, X):
    """(ok: Bool, value word) per docs/types.rst; None when the docs do not determine the pair (left to the relational contract)"""
    ti = V.T(tin) if not tin.startswith("flag") else None
    to = V.T(tout) if not tout.startswith("flag") else None
    wv = V.wv
    ext = lambda w, signed: (z3.SignExt(WIDE - 256, w) if signed else z3.ZeroExt(WIDE - 256, w))
    numeric_in = tin.startswith(("uint", "int", "bool", "address", "flag"))
    if tout == "bool":
        return z3.BoolVal(True), z3.If(X != 0, BV(1), BV(0))
    if tout.startswith("flag"):
        n = int(tout[4:])
        if tin != "uint256":
            return None
        return (z3.BoolVal(True) if n == 256 else z3.LShR(X, n) == 0), X
    if tin.startswith("flag"):
        if tout != "uint256":
            return None
        return z3.BoolVal(True), X
    if to.kind in ("int", "address"):
        if numeric_in:
            v = ext(X, ti.signed if ti else False)
            return to.in_range(v), to.word(v)
        if tin == "decimal":
            v = ext(X, True)
            ok = z3.And(v >= wv(to.lo * DEC), v <= wv(to.hi * DEC))
            return ok, X / BV(DEC)  # bvsdiv truncates toward zero
        if ti.kind == "bytesM":
            u = z3.LShR(X, 256 - ti.bits)
            if to.signed and ti.bits < 256:
                u = z3.SignExt(256 - ti.bits, z3.Extract(ti.bits - 1, 0, u))
            v = ext(u, to.signed)
            return to.in_range(v), u
    if tout == "decimal":
        if tin.startswith(("uint", "int", "bool")):
            v = ext(X, ti.signed) * wv(DEC)
            return to.in_range(v), to.word(v)
        return None
    if to.kind == "bytesM":
        if ti is not None and ti.kind == "bytesM":
            if to.m >= ti.m:
                return z3.BoolVal(True), X
            return z3.Extract(255 - to.bits, 0, X) == 0, X
        if tin.startswith(("uint", "int", "bool", "address", "decimal")):
            return z3.BoolVal(True), X << (256 - to.bits)
    return None


def _legacy(tin, tout):
    from vyper.builtins import _convert as LC
    from vyper.codegen.ir_node import IRnode
    from vyper.semantics.types import AddressT, BoolT, BytesM_T, DecimalT, IntegerT
    from vyper.semantics.types.user import FlagT

    t_in, t_out = mk(tin), mk(tout)
    fn = {IntegerT: LC.to_int, DecimalT: LC.to_decimal, BytesM_T: LC.to_bytes_m, AddressT: LC.to_address, BoolT: LC.to_bool, FlagT: LC.to_flag}[type(t_out)]
    return fn(pytypes.SimpleNamespace(), IRnode("x", typ=t_in), t_out)


def _venom(tin, tout):
    from vyper.codegen_venom.builtins import convert as VC
    from vyper.semantics.types import AddressT, BoolT, BytesM_T, DecimalT, IntegerT
    from vyper.semantics.types.user import FlagT
    from vyper.venom.builder import VenomBuilder
    from vyper.venom.context import IRContext

    t_in, t_out = mk(tin), mk(tout)
    ctx = IRContext()
    fn = ctx.create_function("p")
    b = VenomBuilder(ctx, fn)
    x = fn.get_next_variable()
    cx = pytypes.SimpleNamespace(builder=b)
    node = pytypes.SimpleNamespace(has_folded_value=False)
    if isinstance(t_out, IntegerT):
        res = VC._to_int(x, t_in, t_out, node, cx)
    elif isinstance(t_out, DecimalT):
        res = VC._to_decimal(x, t_in, t_out, node, cx)
    elif isinstance(t_out, BytesM_T):
        res = VC._to_bytes_m(x, t_in, t_out, node, cx)
    elif isinstance(t_out, AddressT):
        res = VC._to_address(x, t_in, node, cx)
    elif isinstance(t_out, FlagT):
        res = VC._to_flag(x, t_in, t_out, cx)
    else:
        res = VC._to_bool(x, t_in, t_out, node, cx)
    return fn, x, res


def job_pair(tin, tout, scale=1):
    from vyper.compiler.settings import OptimizationLevel, Settings, anchor_settings
    from vyper.exceptions import VyperException
    from vyper.venom.basicblock import IRVariable

    dom = BVDom()
    X = z3.BitVec("x", 256)
    obs = []
    timeout = 20000 * scale
    pre = canonical(tin, X)
    sp = spec_convert(tin, tout, X)
    res = {}
    with anchor_settings(Settings(optimize=OptimizationLevel.GAS, evm_version="cancun")):
        try:
            ir = _legacy(tin, tout)
            res["L"] = denote_ir(ir, {"x": X}, dom)
        except VyperException as e:
            res["L"] = type(e).__name__
        except Unsupported as e:
            res["L"] = "unsupported: " + str(e)
    with anchor_settings(Settings(optimize=OptimizationLevel.GAS, evm_version="cancun", experimental_codegen=True)):
        try:
            fn, xv, r = _venom(tin, tout)
            env = {xv.name: X}
            ok = denote_venom_block(fn.entry.instructions, env, dom)
            res["V"] = ((env[r.name] if isinstance(r, IRVariable) else dom.const(r.value)), ok)
        except VyperException as e:
            res["V"] = type(e).__name__
        except Unsupported as e:
            res["V"] = "unsupported: " + str(e)
    replay = {"kind": "convert", "tin": tin, "tout": tout}
    # Admissibility is decided by the real front door: compile the one-line template under both pipelines
    # (the Venom generators rely on lower_convert for input-type validation).
    from vverif.jobutil import fact
    import vyper
    from vverif.sem.templates import settings_for

    acc = {}
    for k, cfg in (("L", "L-gas"), ("V", "V-O2")):
        try:
            vyper.compile_code(_src(tin, tout), output_formats=["bytecode_runtime"], settings=settings_for(cfg))
            acc[k] = "accepts"
        except VyperException as e:
            acc[k] = type(e).__name__
    fact(obs, "same-admissibility", (acc["L"] == "accepts") == (acc["V"] == "accepts"), replay=dict(replay, which="admissible"),
         note=f"legacy={acc['L']} venom={acc['V']}")
    if acc["L"] != "accepts" or acc["V"] != "accepts":
        return number(obs)
    for k in ("L", "V"):
        if isinstance(res[k], str):
            if res[k].startswith("unsupported"):
                obs.append({"clause": f"denote[{k}]", "status": "unknown", "backend": "engine", "seconds": 0, "model": None, "note": res[k]})
            continue
        val, ok = res[k]
        if sp is not None:
            sok, sval = sp
            discharge(obs, f"{k}:ok-iff-in-bounds", z3.Implies(pre, ok == sok), timeout_ms=timeout, replay=dict(replay, pipeline=k))
            discharge(obs, f"{k}:value", z3.Implies(z3.And(pre, ok), z3.And(val == sval, canonical(tout, val))), timeout_ms=timeout, replay=dict(replay, pipeline=k))
        else:
            discharge(obs, f"{k}:result-canonical", z3.Implies(z3.And(pre, ok), canonical(tout, val)), timeout_ms=timeout, replay=dict(replay, pipeline=k))
    if not isinstance(res["L"], str) and not isinstance(res["V"], str):
        (lv, lok), (vv, vok) = res["L"], res["V"]
        discharge(obs, "LV:same-revert-condition", z3.Implies(pre, lok == vok), timeout_ms=timeout, replay=dict(replay, pipeline="LV"))
        discharge(obs, "LV:same-value", z3.Implies(z3.And(pre, lok, vok), lv == vv), timeout_ms=timeout, replay=dict(replay, pipeline="LV"))
    return number(obs)


# ------------------------------------------------------------------------------------------------ native replay
def _src(tin, tout):
    decl = ""
    ti, to = tin, tout
    if tin.startswith("flag") or tout.startswith("flag"):
        n = int((tin if tin.startswith("flag") else tout)[4:])
        decl = "flag F:\n" + "".join(f"    M{i}\n" for i in range(n)) + "\n"
        ti = "F" if tin.startswith("flag") else tin
        to = "F" if tout.startswith("flag") else tout
    return f"{decl}@external\ndef f(x: {ti}) -> {to}:\n    return convert(x, {to})\n"


def abi_name(t):
    if t == "decimal":
        return "int168"
    if t.startswith("flag"):
        return "uint256"
    return t


def replay_convert(o):
    from vverif.sem import templates as T
    from vyper.utils import method_id_int

    r, m = o["replay"], o.get("model") or {}
    tin, tout = r["tin"], r["tout"]
    if r.get("which") == "admissible":
        return {"reproduced": True, "detail": "front ends disagree on admissibility: " + (o.get("note") or "")}
    x = m.get("x", 0)
    src = _src(tin, tout)
    cd = method_id_int(f"f({abi_name(tin)})").to_bytes(4, "big") + (x % M).to_bytes(32, "big")
    results = {}
    for cfg in ("L-gas", "V-O2"):
        try:
            results[cfg] = T.native_call(src, cfg, cd)
        except Exception as e:
            results[cfg] = ("error", repr(e)[:200])
    X = BV(x)
    sp = spec_convert(tin, tout, X)
    detail = f"{src!r} x=0x{x % M:x}: " + ", ".join(f"{k}: {v[0]} {v[1][:32].hex() if isinstance(v[1], bytes) else v[1]}" for k, v in results.items())
    pl = r.get("pipeline")
    if pl == "LV":
        a, b = results["L-gas"], results["V-O2"]
        bad = a[0] != b[0] or (a[0] == "return" and a[1] != b[1])
        return {"reproduced": bool(bad), "detail": detail}
    cfg = "L-gas" if pl == "L" else "V-O2"
    st, data = results[cfg]
    if sp is None:
        return {"reproduced": None, "detail": detail}
    sok = z3.is_true(z3.simplify(sp[0]))
    sval = z3.simplify(sp[1]).as_long()
    if st == "return":
        got = int.from_bytes(data[:32], "big")
        bad = (not sok) or got != sval
    else:
        bad = sok
    return {"reproduced": bool(bad), "detail": detail + f"; spec: {'value 0x%x' % sval if sok else 'must revert'}"}


REPLAY = {"convert": replay_convert}
