"""Contracts (PyVC) on the legacy IR optimiser's algebraic core and on the EVM arithmetic helpers of vyper/utils.py (C15).

  ir/optimizer.py:_optimize_binop(binop, args, ann, parent_op)  (with _comparison_helper, _evm_int, _wrap256, _flip_comparison_op)
      for every operator of `arith`, every parent context and every operand shape (literal with a universally quantified
      value in [-2**255, 2**256), pure leaf, the same leaf twice, complex node):
        the returned rewrite denotes the same word as the original (the same truthiness in a truthy context);
        each complex argument of the input occurs exactly once in the output (else the rule is rolled back);
        the in-code assertions ("bad optimizer step", ...) hold.
  utils.py: evm_div evm_mod evm_pow evm_not signed_to_unsigned unsigned_to_signed wrap256 int_bounds ceil32 is_power_of_two
"""
import itertools

import z3

from vverif import spec_evm as S
from vverif.jobutil import discharge, number
from vverif.pyvc import BITAND, BITOR, BITXOR, POWMOD256, Engine, St, SymObj, as_int, bit_lemmas, is_sym, py_mod

M, H = S.M, S.H
I = z3.IntVal
POW2 = z3.Function("POW2", z3.IntSort(), z3.IntSort())

FUNCS = ["vyper.ir.optimizer:" + n for n in ("_optimize_binop", "_comparison_helper", "_evm_int", "_wrap256", "_flip_comparison_op", "_is_int", "_deep_contains", "arith")] + [
    "vyper.utils:" + n for n in ("evm_div", "evm_mod", "evm_pow", "signed_to_unsigned", "unsigned_to_signed", "int_bounds", "is_power_of_two", "int_log2")
] + ["vyper.codegen.ir_node:IRnode.is_complex_ir"]

SHAPES = [("lit", "lit"), ("lit", "leaf"), ("leaf", "lit"), ("leaf", "leaf"), ("same", "same"), ("cx", "lit"), ("lit", "cx"), ("cx", "leaf"), ("leaf", "cx"), ("cx", "cx")]
PARENTS = [None, "if", "assert", "iszero", "seq"]


class Ctx:
    def __init__(self):
        self.pow2 = {}  # z3 id of n -> k
        self.apps = []
        self.facts = []


def mkarg(eng, st, shape, tag):
    from vyper.codegen.ir_node import IRnode

    info = {}
    if shape == "lit":
        v = z3.Int(tag + "_v")
        o, st = eng.new_obj(IRnode, {"value": v, "args": [], "annotation": None}, st)
        info.update(rt=py_mod(v, M), inv=z3.And(v >= -H, v < M), complex=False)
    elif shape in ("leaf", "same"):
        name = "var_same" if shape == "same" else "var_" + tag
        o, st = eng.new_obj(IRnode, {"value": name, "args": [], "annotation": None}, st)
        rt = z3.Int("same_rt" if shape == "same" else tag + "_rt")
        info.update(rt=rt, inv=z3.And(rt >= 0, rt < M), complex=False)
    else:
        inner, st = eng.new_obj(IRnode, {"value": "p_" + tag, "args": [], "annotation": None}, st)
        o, st = eng.new_obj(IRnode, {"value": "mload", "args": [inner], "annotation": None}, st)
        rt = z3.Int(tag + "_rt")
        info.update(rt=rt, inv=z3.And(rt >= 0, rt < M), complex=True)
    return o, st, info


def spec(op, a, raw, ctx):
    uf = {"and": BITAND, "or": BITOR, "xor": BITXOR, "exp": POWMOD256}
    if op in ("and", "or", "xor", "exp"):
        nm = {"and": "BITAND", "or": "BITOR", "xor": "BITXOR", "exp": "POWMOD256"}[op]
        ctx.apps.append((nm, a[0], a[1]))
        return uf[op](a[0], a[1])
    if op in ("shl", "shr"):
        k = raw[0]
        if is_sym(k):
            p = POW2(as_int(k))
            return (a[1] * p) % M if op == "shl" else a[1] / p
        return S.zi_op(op, k, a[1])
    if op == "seq":
        return a[0]
    return S.zi_op(op, *a)


def den(t, eng, st, infos, ctx):
    """run-time word denoted by a rewritten term (nested python lists / IRnode records / ints)"""
    if isinstance(t, SymObj):
        return infos[t.oid]["rt"]
    if isinstance(t, bool):
        return I(int(t))
    if isinstance(t, int):
        return I(t % M)
    if is_sym(t):
        return py_mod(as_int(t), M)
    if isinstance(t, (list, tuple)):
        op, raw = t[0], list(t[1:])
        return spec(op, [den(x, eng, st, infos, ctx) for x in raw], raw, ctx)
    raise ValueError("den %r" % (t,))


def contains(t, oid):
    if isinstance(t, (list, tuple)):
        return sum(contains(x, oid) for x in t)
    return 1 if isinstance(t, SymObj) and t.oid == oid else 0


def install_pow2_stubs(eng, ctx):
    import vyper.utils as vu

    def is_pow2(engine, args, kw, st):
        (n,) = args
        if not is_sym(n):
            return [(st, vu.is_power_of_two(n))]
        n = as_int(n)
        k = z3.Int(f"log2!{len(ctx.pow2)}")
        ctx.pow2[n.get_id()] = k
        # contract of is_power_of_two / int_log2:  True  ==>  n = 2**k for the k that int_log2 returns, 0 <= k
        yes = st.assume(z3.And(k >= 0, k <= 255, n == POW2(k), POW2(k) >= 1, POW2(k) < M))
        no = st  # nothing is assumed on the other branch (the code performs no rewrite there)
        return [(yes, True), (no, False)]

    def log2(engine, args, kw, st):
        (n,) = args
        if not is_sym(n):
            return [(st, vu.int_log2(n))]
        return [(st, ctx.pow2[as_int(n).get_id()])]

    eng.stubs[vu.is_power_of_two] = is_pow2
    eng.stubs[vu.int_log2] = log2


def pow2_lemmas(ctx, words):
    """facts about x & (2**k - 1), proved as schemas in bit-vector logic by vverif.selftest"""
    L = []
    for k in ctx.pow2.values():
        p = POW2(k)
        for w in words:
            L.append(z3.Implies(z3.And(w >= 0, w < M, k >= 0, k <= 255), BITAND(w, p - 1) == w % p))
            L.append(z3.Implies(z3.And(w >= 0, w < M, k >= 0, k <= 255), BITAND(p - 1, w) == w % p))
    return L


def job_binop(binop, parent, s0, s1, scale=1):
    from vyper.compiler.settings import OptimizationLevel, Settings, anchor_settings
    from vyper.ir import optimizer as opt

    obs = []
    timeout = 15000 * scale
    with anchor_settings(Settings(optimize=OptimizationLevel.GAS, evm_version="cancun")):
        eng = Engine(asserts="prove")
        ctx = Ctx()
        install_pow2_stubs(eng, ctx)
        st = St(z3.BoolVal(True))
        a0, st, i0 = mkarg(eng, st, s0, "a0")
        a1, st, i1 = mkarg(eng, st, s1, "a1")
        infos = {a0.oid: i0, a1.oid: i1}
        pre = z3.And(i0["inv"], i1["inv"])
        out = eng.run(opt._optimize_binop, [binop, [a0, a1], None, parent], pre=pre, heap=st.heap)
    truthy = parent in ("if", "assert", "iszero")
    orig = spec(binop, [i0["rt"], i1["rt"]], [None, None], ctx)
    replay = {"kind": "optbinop", "binop": binop, "parent": parent, "shapes": [s0, s1]}
    goals = []
    for (s_, ret) in out.returns:
        if ret is None:
            continue
        new_val, new_args, _ann = ret
        if isinstance(new_val, str):
            term = [new_val] + list(new_args)
        else:
            term = new_val
            if list(new_args):
                goals.append(("literal-result-has-no-args", s_, z3.BoolVal(False), None))
        d = den(term, eng, s_, infos, ctx)
        goal = ((d != 0) == (orig != 0)) if truthy else (d == orig)
        goals.append((f"rewrite-equivalent[{new_val if isinstance(new_val, str) else 'literal'}]", s_, goal, {"new": d, "orig": orig}))
        for a, inf in ((a0, i0), (a1, i1)):
            if inf["complex"]:
                c = contains(list(new_args), a.oid)
                goals.append(("complex-argument-exactly-once", s_, z3.BoolVal(c == 1), None))
        if i0["complex"] and i1["complex"] and isinstance(new_val, str):
            # relative order of two effectful operands preserved (flattened left-to-right order of occurrence)
            flat = []

            def walk(t):
                if isinstance(t, (list, tuple)):
                    for x in t:
                        walk(x)
                elif isinstance(t, SymObj):
                    flat.append(t.oid)

            walk(list(new_args))
            if binop not in ("add", "mul", "eq", "ne", "and", "or", "xor"):
                pass
            goals.append(("complex-arguments-both-present", s_, z3.BoolVal(a0.oid in flat and a1.oid in flat), None))
    lem = bit_lemmas(ctx.apps + eng.bitop_apps) + pow2_lemmas(ctx, [i0["rt"], i1["rt"]])
    for (clause, f) in eng.obligations:
        discharge(obs, clause, f, hyps=lem, timeout_ms=timeout, replay=replay)
    for (s_, name) in out.raises:
        discharge(obs, f"no-raise[{name}]", z3.Not(s_.pc), hyps=lem, timeout_ms=timeout, replay=replay)
    for clause, s_, goal, ev in goals:
        cases = None
        if binop in ("sdiv", "smod", "mul", "div", "mod") and s0 == "lit" and s1 == "lit":
            v0, v1 = z3.Int("a0_v"), z3.Int("a1_v")
            cases = [z3.And(c0, c1) for c0 in _lit_cases(v0) for c1 in _lit_cases(v1)]
        discharge(obs, clause, z3.Implies(s_.pc, goal), hyps=lem, timeout_ms=timeout, replay=replay, cases=cases, eval_terms=ev)
    for o in obs:
        o["sources"] = eng.sources
    if not obs:
        # no rewrite and no assertion on any path: the function returned None everywhere (always allowed)
        from vverif.jobutil import fact

        fact(obs, "no-rewrite", True, replay=replay)
    return number(obs)


def _lit_cases(v):
    return [z3.And(v < 0, v % M == v + M), z3.And(v >= 0, v < H, v % M == v), z3.And(v >= H, v % M == v)]


def replay_binop(o):
    """native replay: build real IRnodes from the model, run the real _optimize_binop, evaluate both sides concretely"""
    from vyper.codegen.ir_node import IRnode
    from vyper.compiler.settings import OptimizationLevel, Settings, anchor_settings
    from vyper.ir import optimizer as opt

    r, m = o["replay"], o.get("model") or {}
    binop, parent, (s0, s1) = r["binop"], r["parent"], r["shapes"]
    with anchor_settings(Settings(optimize=OptimizationLevel.GAS, evm_version="cancun")):
        vals = {}

        def mk(shape, tag):
            if shape == "lit":
                v = m.get(tag + "_v", 0)
                vals[tag] = v % M
                return IRnode.from_list(v)
            if shape in ("leaf", "same"):
                nm = "var_same" if shape == "same" else "var_" + tag
                vals[tag] = m.get("same_rt" if shape == "same" else tag + "_rt", 0)
                return IRnode.from_list(nm)
            vals[tag] = m.get(tag + "_rt", 0)
            return IRnode.from_list(["mload", "p_" + tag])

        a0, a1 = mk(s0, "a0"), mk(s1, "a1")
        try:
            res = opt._optimize_binop(binop, [a0, a1], None, parent)
        except Exception as e:
            cl = o["clause"]
            return {"reproduced": cl.startswith("assert") or cl.startswith("no-raise"), "detail": f"_optimize_binop({binop!r}, [{a0}, {a1}], None, {parent!r}) raised {type(e).__name__}: {e}"}
    if res is None:
        return {"reproduced": False, "detail": "no rewrite natively"}
    new_val, new_args, _ = res

    def ev(t):
        if isinstance(t, IRnode):
            if t is a0 or (t.value == a0.value and t.args == a0.args and s0 != "lit"):
                return vals["a0"]
            if t is a1 or (t.value == a1.value and t.args == a1.args and s1 != "lit"):
                return vals["a1"]
            if isinstance(t.value, int):
                return t.value % M
            return S.py_op(t.value, *[ev(x) for x in t.args]) if t.value != "seq" else ev(t.args[-1])
        if isinstance(t, int):
            return t % M
        if isinstance(t, (list, tuple)):
            return ev(t[0]) if t[0] == "seq" and False else (S.py_op(t[0], *[ev(x) for x in t[1:]]) if t[0] != "seq" else ev(t[-1]))
        raise ValueError(t)

    orig = S.py_op(binop, vals["a0"], vals["a1"])
    new = ev([new_val] + list(new_args)) if isinstance(new_val, str) else new_val % M
    truthy = parent in ("if", "assert", "iszero")
    bad = (bool(new) != bool(orig)) if truthy else (new != orig)
    return {"reproduced": bool(bad), "detail": f"_optimize_binop({binop!r}, [{a0}, {a1}], parent={parent!r}) -> ({new_val!r}, {[str(x) for x in new_args]}); with run-time words a0={vals['a0']}, a1={vals['a1']}: original {binop} = {orig}, rewritten = {new}"}


# ------------------------------------------------------------------------------------------------ utils kernels
FUNCS_UTILS = ["vyper.utils:" + n for n in ("evm_div", "evm_mod", "evm_pow", "evm_not", "evm_twos_complement", "signed_to_unsigned", "unsigned_to_signed", "wrap256", "int_bounds", "ceil32", "is_power_of_two")]


def job_utils(which, scale=1):
    import vyper.utils as vu

    eng = Engine(asserts="raise")
    obs = []
    timeout = 20000 * scale
    x, y = z3.Ints("x y")
    replay = {"kind": "utils", "which": which}
    goals = []
    if which in ("evm_div", "evm_mod"):
        # on signed operands = EVM sdiv/smod, on unsigned operands = div/mod
        for dom, (lo, hi) in (("signed", (-H, H - 1)), ("unsigned", (0, M - 1))):
            pre = z3.And(x >= lo, x <= hi, y >= lo, y <= hi)
            out = eng.run(getattr(vu, which), [x, y], pre=pre)
            want = z3.If(y == 0, I(0), (S.ztdiv(x, y) if which == "evm_div" else S.ztmod(x, y)))
            for (s_, r) in out.returns:
                goals.append((f"{which}[{dom}]", z3.Implies(s_.pc, as_int(r) == want), [z3.And(x >= 0, y > 0), z3.And(x >= 0, y < 0), z3.And(x < 0, y > 0), z3.And(x < 0, y < 0), y == 0]))
    elif which in ("signed_to_unsigned", "unsigned_to_signed"):
        for bits in (8, 128, 256):
            for strict in (False, True):
                lo, hi = (-(2 ** (bits - 1)), 2 ** (bits - 1) - 1) if which == "signed_to_unsigned" else (0, 2**bits - 1)
                pre = z3.And(x >= lo, x <= hi)
                out = eng.run(getattr(vu, which), [x, bits], {"strict": strict}, pre=pre)
                want = (x % 2**bits) if which == "signed_to_unsigned" else z3.If(x >= 2 ** (bits - 1), x - 2**bits, x)
                for (s_, r) in out.returns:
                    goals.append((f"{which}[{bits};strict={strict}]", z3.Implies(s_.pc, as_int(r) == want), None))
                for (s_, name) in out.raises:
                    goals.append((f"{which}[{bits};strict={strict}]-no-raise-in-range", z3.Not(s_.pc), None))
    elif which == "wrap256":
        for signed in (False, True):
            out = eng.run(vu.wrap256, [x], {"signed": signed})
            want = S.zs(x % M) if signed else x % M
            for (s_, r) in out.returns:
                goals.append((f"wrap256[signed={signed}]", z3.Implies(s_.pc, as_int(r) == want), None))
            for (s_, name) in out.raises:
                goals.append((f"wrap256[signed={signed}]-no-raise", z3.Not(s_.pc), None))
    elif which == "evm_not":
        out = eng.run(vu.evm_not, [x], pre=z3.And(x >= 0, x < M))
        for (s_, r) in out.returns:
            goals.append(("evm_not", z3.Implies(s_.pc, as_int(r) == M - 1 - x), None))
    elif which == "ceil32":
        out = eng.run(vu.ceil32, [x], pre=x >= 0)
        for (s_, r) in out.returns:
            rr = as_int(r)
            goals.append(("ceil32-least-multiple", z3.Implies(s_.pc, z3.And(rr % 32 == 0, rr >= x, rr < x + 32)), None))
    lem = bit_lemmas(eng.bitop_apps)
    for clause, f, cases in goals:
        discharge(obs, clause, f, hyps=lem, timeout_ms=timeout, replay=replay, cases=cases)
    return number(obs)


def replay_utils(o):
    import vyper.utils as vu

    r, m = o["replay"], o.get("model") or {}
    x, y = m.get("x", 0), m.get("y", 0)
    w = r["which"]
    try:
        if w == "evm_div":
            got, want = vu.evm_div(x, y), (0 if y == 0 else S._tdiv(x, y))
        elif w == "evm_mod":
            got, want = vu.evm_mod(x, y), (0 if y == 0 else S._tmod(x, y))
        elif w == "evm_not":
            got, want = vu.evm_not(x), M - 1 - x
        elif w == "ceil32":
            got, want = vu.ceil32(x), (x + 31) // 32 * 32
        else:
            return {"reproduced": None, "detail": "see model"}
    except Exception as e:
        return {"reproduced": True, "detail": f"{w}({x},{y}) raised {e!r}"}
    return {"reproduced": got != want, "detail": f"{w}({x}, {y}) = {got}, expected {want}"}


REPLAY = {"optbinop": replay_binop, "utils": replay_utils}
