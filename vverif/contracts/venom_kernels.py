"""Contracts (PyVC) on pure kernels of the Venom middle end other than the range evaluators:

  passes/sccp/eval.py      ARITHMETIC_OPS[op](ops)  ==  EVM op on the operand words (reversed operand order)
  memory_location.py       may_overlap == False  ==>  byte ranges disjoint;  completely_contains == True ==> subset
  range clients            AssertEliminationPass._range_excludes_zero, AlgebraicOptimizationPass._try_range_cmp,
                           ._rule_signextend, OverflowEliminationPass._try_eliminate_add_overflow/_sub_underflow
"""
import z3

from vverif import spec_evm as S
from vverif.contracts.ranges import gamma, mk_range, py_gamma, py_mk, reading_cases, vr_fields
from vverif.jobutil import discharge, fact, number
from vverif.pyvc import BITAND, BITOR, BITXOR, POWMOD256, Engine, HCont, St, SymObj, as_int, bit_lemmas, is_sym

M, H = S.M, S.H
UF = {"and": BITAND, "or": BITOR, "xor": BITXOR, "exp": POWMOD256}

FUNCS_SCCP = ["vyper.venom.passes.sccp.eval:ARITHMETIC_OPS", "vyper.venom.passes.sccp.eval:eval_arith"] + [
    "vyper.venom.passes.sccp.eval:" + n
    for n in "_wrap_signed_binop _wrap_binop _wrap_ternop _wrap_unop _wrap_sar _evm_addmod _evm_mulmod _evm_signextend _evm_iszero _evm_shr _evm_shl _evm_sar _evm_byte _unsigned_to_signed _signed_to_unsigned".split()
] + ["vyper.utils:" + n for n in "evm_div evm_mod evm_not evm_pow signed_to_unsigned unsigned_to_signed int_bounds".split()]

FIRST_CONST = ("shl", "shr", "sar", "signextend", "byte")


# --------------------------------------------------------------------------------------------- SCCP evaluator
def job_sccp(op, amount=None, scale=1):
    from vyper.venom.basicblock import IRLiteral
    from vyper.venom.passes.sccp import eval as ev

    eng = Engine(asserts="prove")
    st = St(z3.BoolVal(True))
    n = S.ARITY[op]
    vals = [z3.Int(f"v{i}") for i in range(n)]  # literal values as stored: any integer in [-2**255, 2**256)
    pre = z3.And(*[z3.And(v >= -H, v < M) for v in vals])
    if amount is not None:
        vals[0] = amount  # first EVM operand (shift amount / byte index) concrete
    lits = []
    for v in vals:
        o, st = eng.new_obj(IRLiteral, {"value": v}, st)
        lits.append(o)
    ops = list(reversed(lits))  # Venom operand lists are reversed w.r.t. EVM order
    out = eng.run(ev.eval_arith, [op, ops], pre=pre, heap=st.heap)
    words = [v % M for v in vals]
    spec = S.zi_op(op, *words, uf=UF)
    timeout = 20000 * scale
    replay = {"kind": "sccp", "op": op, "amount": amount}
    obs = []
    lem = bit_lemmas(eng.bitop_apps + ([(dict(zip(("and", "or", "xor", "exp"), ("BITAND", "BITOR", "BITXOR", "POWMOD256")))[op], words[0], words[1])] if op in UF else []))
    for (clause, f) in eng.obligations:
        discharge(obs, clause, f, hyps=lem, timeout_ms=timeout, replay=replay)
    for (s_, name) in out.raises:
        discharge(obs, f"no-raise[{name}]", z3.Not(s_.pc), timeout_ms=timeout, replay=replay)
    conds = [s_.pc for s_, _ in out.returns] + [s_.pc for s_, _ in out.raises]
    discharge(obs, "paths-exhaustive", z3.Implies(pre, z3.Or(*conds) if conds else z3.BoolVal(False)), timeout_ms=timeout, replay=replay)
    for (s_, res) in out.returns:
        r = as_int(res)
        cases = None
        if op in ("sdiv", "smod", "mul", "div", "mod", "mulmod", "addmod"):
            # lemma step: sign cases of the stored literal values
            cases = [z3.And(*cs) for cs in _sign_cases(vals)]
        discharge(obs, "equals-evm-op", z3.Implies(s_.pc, r == spec), hyps=lem, timeout_ms=timeout, replay=replay, cases=cases,
                  eval_terms={"spec_result": spec, "code_result": r})
        discharge(obs, "result-is-word", z3.Implies(s_.pc, z3.And(r >= 0, r < M)), hyps=lem, timeout_ms=timeout, replay=replay)
    for o in obs:
        o["sources"] = eng.sources
    return number(obs)


def _sign_cases(vals):
    import itertools

    syms = [v for v in vals if is_sym(v)]
    opts = []
    for v in syms:
        # (the equalities are consequences of the case; they hand the solver the value of v mod 2**256)
        opts.append([z3.And(v < 0, v % M == v + M), z3.And(v >= 0, v < H, v % M == v), z3.And(v >= H, v % M == v)])
    return list(itertools.product(*opts)) if syms else [[z3.BoolVal(True)]]


def replay_sccp(o):
    from vyper.venom.basicblock import IRLiteral
    from vyper.venom.passes.sccp import eval as ev

    r, m = o["replay"], o.get("model") or {}
    op = r["op"]
    n = S.ARITY[op]
    vals = [m.get(f"v{i}", 0) for i in range(n)]
    if r.get("amount") is not None:
        vals[0] = r["amount"]
    ops = [IRLiteral(v) for v in reversed(vals)]
    want = S.py_op(op, *[v % M for v in vals])
    try:
        got = ev.eval_arith(op, ops)
    except Exception as e:
        cl = o["clause"]
        return {"reproduced": cl.startswith("no-raise") or cl.startswith("assert"), "detail": f"eval_arith({op!r}, {ops!r}) raised {type(e).__name__}: {e}"}
    return {"reproduced": got != want, "detail": f"eval_arith({op!r}, {ops!r}) = {got}, EVM {op}{tuple(v % M for v in vals)} = {want}"}


# --------------------------------------------------------------------------------------------- MemoryLocation
FUNCS_MEMLOC = ["vyper.venom.memory_location:MemoryLocation.may_overlap", "vyper.venom.memory_location:MemoryLocation.completely_contains",
                "vyper.venom.memory_location:MemoryLocation.is_empty"]


def _mk_alloca(tag):
    from vyper.venom.basicblock import IRInstruction, IRLiteral, IRVariable
    from vyper.venom.memory_location import Allocation

    return Allocation(IRInstruction("alloca", [IRLiteral(64)], [IRVariable("%" + tag)]))


def job_memloc(which, off1, sz1, off2, sz2, region, scale=1):
    """off*/sz*: True = known (symbolic), False = unknown (None).  region: 'global', 'same', 'different', 'mixed'"""
    from vyper.venom.memory_location import MemoryLocation

    eng = Engine(asserts="prove")
    st = St(z3.BoolVal(True))
    A, B = _mk_alloca("a"), _mk_alloca("b")
    al1, al2 = {"global": (None, None), "same": (A, A), "different": (A, B), "mixed": (A, None)}[region]
    o1, s1, o2, s2 = z3.Ints("o1 s1 o2 s2")  # the run-time offsets and sizes (whether or not known statically)
    pre = z3.And(s1 >= 0, s2 >= 0, o1 >= 0, o2 >= 0)
    l1, st = eng.new_obj(MemoryLocation, {"offset": o1 if off1 else None, "size": s1 if sz1 else None, "alloca": al1, "_is_volatile": False}, st)
    l2, st = eng.new_obj(MemoryLocation, {"offset": o2 if off2 else None, "size": s2 if sz2 else None, "alloca": al2, "_is_volatile": False}, st)
    overlap = z3.And(s1 > 0, s2 > 0, o1 < o2 + s2, o2 < o1 + s1)
    subset = z3.Or(s2 == 0, z3.And(o1 <= o2, o2 + s2 <= o1 + s1))
    timeout = 20000 * scale
    replay = {"kind": "memloc", "which": which, "shape": [off1, sz1, off2, sz2], "region": region}
    obs = []
    if which == "may_overlap":
        out = eng.run(MemoryLocation.may_overlap, [l1, l2], pre=pre, heap=st.heap)
    else:
        out = eng.run(MemoryLocation.completely_contains, [l1, l2], pre=pre, heap=st.heap)
    for (clause, f) in eng.obligations:
        discharge(obs, clause, f, timeout_ms=timeout, replay=replay)
    for (s_, name) in out.raises:
        discharge(obs, f"no-raise[{name}]", z3.Not(s_.pc), timeout_ms=timeout, replay=replay)
    conds = [s_.pc for s_, _ in out.returns] + [s_.pc for s_, _ in out.raises]
    discharge(obs, "paths-exhaustive", z3.Implies(pre, z3.Or(*conds) if conds else z3.BoolVal(False)), timeout_ms=timeout, replay=replay)
    same_space = region in ("global", "same")
    for (s_, res) in out.returns:
        rb = res if is_sym(res) else z3.BoolVal(bool(res))
        if which == "may_overlap":
            if same_space:
                # both in one address space (same base): a False answer must mean the byte ranges are disjoint
                discharge(obs, "false-implies-disjoint", z3.Implies(z3.And(s_.pc, z3.Not(rb)), z3.Not(overlap)), timeout_ms=timeout, replay=replay)
            elif region == "mixed":
                # abstract vs concrete: nothing is known, so the answer must be True unless one location is empty
                discharge(obs, "mixed-is-may", z3.Implies(z3.And(s_.pc, z3.Not(rb)), z3.Or(s1 == 0, s2 == 0)), timeout_ms=timeout, replay=replay)
            else:
                discharge(obs, "different-allocas-any-answer", z3.BoolVal(True), timeout_ms=timeout, replay=replay)
        else:
            if same_space:
                discharge(obs, "true-implies-subset", z3.Implies(z3.And(s_.pc, rb), subset), timeout_ms=timeout, replay=replay)
            else:
                discharge(obs, "other-region-never-contained", z3.Implies(z3.And(s_.pc, rb), s2 == 0), timeout_ms=timeout, replay=replay)
    for o in obs:
        o["sources"] = eng.sources
    return number(obs)


def replay_memloc(o):
    from vyper.venom.memory_location import MemoryLocation

    r, m = o["replay"], o.get("model") or {}
    off1, sz1, off2, sz2 = r["shape"]
    A, B = _mk_alloca("a"), _mk_alloca("b")
    al1, al2 = {"global": (None, None), "same": (A, A), "different": (A, B), "mixed": (A, None)}[r["region"]]
    o1, s1, o2, s2 = (m.get(k, 0) for k in ("o1", "s1", "o2", "s2"))
    l1 = MemoryLocation(offset=o1 if off1 else None, size=s1 if sz1 else None, alloca=al1)
    l2 = MemoryLocation(offset=o2 if off2 else None, size=s2 if sz2 else None, alloca=al2)
    overlap = s1 > 0 and s2 > 0 and o1 < o2 + s2 and o2 < o1 + s1
    subset = s2 == 0 or (o1 <= o2 and o2 + s2 <= o1 + s1)
    if r["which"] == "may_overlap":
        got = MemoryLocation.may_overlap(l1, l2)
        bad = (not got) and (overlap if r["region"] in ("global", "same") else (r["region"] == "mixed" and s1 and s2))
        return {"reproduced": bool(bad), "detail": f"may_overlap({l1}, {l2}) = {got}; actual ranges [{o1},{o1+s1}) [{o2},{o2+s2}) overlap={overlap}"}
    got = l1.completely_contains(l2)
    bad = got and not (subset if r["region"] in ("global", "same") else s2 == 0)
    return {"reproduced": bool(bad), "detail": f"{l1}.completely_contains({l2}) = {got}; actual subset={subset}"}


# --------------------------------------------------------------------------------------------- range clients
FUNCS_CLIENTS = [
    "vyper.venom.passes.assert_elimination:AssertEliminationPass._range_excludes_zero",
    "vyper.venom.passes.algebraic_optimization:AlgebraicOptimizationPass._try_range_cmp",
    "vyper.venom.passes.algebraic_optimization:AlgebraicOptimizationPass._rule_signextend",
    "vyper.venom.passes.algebraic_optimization:lit_word_value",
    "vyper.venom.passes.overflow_elimination:OverflowEliminationPass._try_eliminate_add_overflow",
    "vyper.venom.passes.overflow_elimination:OverflowEliminationPass._try_eliminate_sub_underflow",
    "vyper.venom.passes.overflow_elimination:OverflowEliminationPass._range_is_non_negative",
]


def _stub_get_range(eng, table):
    """contract stub for VariableRangeAnalysis.get_range: returns the range assumed for each operand"""
    from vyper.venom.analysis.variable_range import VariableRangeAnalysis

    def stub(engine, args, kw, st):
        _self, operand, _inst = args
        key = operand.oid if isinstance(operand, SymObj) else operand
        return [(st, table[key])]

    eng.stubs[VariableRangeAnalysis.get_range] = stub


def job_client(which, kx, ky=None, variant=0, scale=1):
    from vyper.venom.analysis.variable_range import VariableRangeAnalysis
    from vyper.venom.analysis import DFGAnalysis
    from vyper.venom.basicblock import IRInstruction, IRLiteral, IRVariable
    from vyper.venom.passes import algebraic_optimization as ao
    from vyper.venom.passes.assert_elimination import AssertEliminationPass
    from vyper.venom.passes.overflow_elimination import OverflowEliminationPass
    from vyper.venom.passes.machinery.inst_updater import InstUpdater

    eng = Engine(asserts="raise")
    st = St(z3.BoolVal(True))
    x, y, res_v = IRVariable("%x"), IRVariable("%y"), IRVariable("%res")
    Rx, st, invx = mk_range(eng, st, kx, "l")
    pre = invx
    wx, wy = z3.Ints("a b")
    inw = lambda v: z3.And(v >= 0, v < M)
    timeout = 20000 * scale
    replay = {"kind": "client", "which": which, "kx": kx, "ky": ky, "variant": variant}
    obs = []
    goals = []  # (clause, st -> formula) evaluated per return path

    if which == "range_excludes_zero":
        out = eng.run(AssertEliminationPass._range_excludes_zero, [Rx], pre=pre, heap=st.heap)
        check = lambda s_, res: ("true-implies-nonzero", z3.Implies(z3.And(s_.pc, _b(res), inw(wx), gamma(eng, st, Rx, wx)), wx != 0))
    elif which == "try_range_cmp":
        # variant: bit0 lit_is_first, bit1 is_gt, bit2 signed
        lit_first, is_gt, signed = bool(variant & 1), bool(variant & 2), bool(variant & 4)
        lit_v = z3.Int("lit")
        pre = z3.And(pre, lit_v >= -H, lit_v < M)
        lit, st = eng.new_obj(IRLiteral, {"value": lit_v}, st)
        ra, st = eng.new_obj(VariableRangeAnalysis, {}, st)
        self_, st = eng.new_obj(ao.AlgebraicOptimizationPass, {"range_analysis": ra}, st)
        _stub_get_range(eng, {x: Rx})
        operands = [x, lit] if lit_first else [lit, x]  # operands[-1] is the first operand in text
        opcode = ("sgt" if is_gt else "slt") if signed else ("gt" if is_gt else "lt")
        inst = IRInstruction(opcode, [x, x], [res_v])
        out = eng.run(ao.AlgebraicOptimizationPass._try_range_cmp, [self_, inst, operands, is_gt, signed], pre=pre, heap=st.heap)
        lw = lit_v % M
        a0, a1 = (lw, wx) if lit_first else (wx, lw)
        val = S.zi_op(opcode, a0, a1)

        def check(s_, res):
            if res is None:
                return ("none-is-always-allowed", z3.BoolVal(True))
            return ("constant-is-the-comparison", z3.Implies(z3.And(s_.pc, inw(wx), gamma(eng, st, Rx, wx)), val == as_int(res)))
    elif which == "rule_signextend":
        n = variant
        ra, st = eng.new_obj(VariableRangeAnalysis, {}, st)
        upd, st = eng.new_obj(InstUpdater, {"calls": 0}, st)
        self_, st = eng.new_obj(ao.AlgebraicOptimizationPass, {"range_analysis": ra, "updater": upd}, st)
        _stub_get_range(eng, {x: Rx})

        def mk_assign(engine, args, kw, s):
            _u, _inst, new_op = args
            return [(s.setfield(upd.oid, "calls", ("assign", new_op)), None)]

        eng.stubs[InstUpdater.mk_assign] = mk_assign
        inst = IRInstruction("signextend", [x, IRLiteral(n)], [res_v])
        out = eng.run(ao.AlgebraicOptimizationPass._rule_signextend, [self_, inst], pre=pre, heap=st.heap)

        def check(s_, res):
            c = eng.fields(upd, s_)["calls"]
            if c == 0:
                return ("no-rewrite-is-always-allowed", z3.BoolVal(True))
            ok = c[1] is x
            return ("rewrite-to-assign-only-if-identity", z3.Implies(z3.And(s_.pc, inw(wx), gamma(eng, st, Rx, wx)),
                                                                     z3.And(z3.BoolVal(ok), S.zi_op("signextend", n % M, wx) == wx)))
    elif which in ("add_overflow", "sub_underflow"):
        Ry, st, invy = mk_range(eng, st, ky, "r")
        pre = z3.And(pre, invy)
        ra, st = eng.new_obj(VariableRangeAnalysis, {}, st)
        dfg, st = eng.new_obj(DFGAnalysis, {}, st)
        self_, st = eng.new_obj(OverflowEliminationPass, {"range_analysis": ra, "dfg": dfg}, st)
        same = variant == 2  # x op x
        yv = x if same else y
        _stub_get_range(eng, {x: Rx, y: Ry})
        if which == "add_overflow":
            arith = IRInstruction("add", [x, yv] if variant != 1 else [yv, x], [res_v])
            cmp_inst = IRInstruction("lt", [x, res_v], [IRVariable("%c")])  # text: lt %res, %x
            fn = OverflowEliminationPass._try_eliminate_add_overflow
        else:
            arith = IRInstruction("sub", [yv, x], [res_v])  # text: sub %x, %y
            cmp_inst = IRInstruction("gt", [x, res_v], [IRVariable("%c")])  # text: gt %res, %x
            fn = OverflowEliminationPass._try_eliminate_sub_underflow

        def prod(engine, args, kw, s):
            return [(s, arith if args[1] == res_v else None)]

        eng.stubs[DFGAnalysis.get_producing_instruction] = prod
        out = eng.run(fn, [self_, cmp_inst], pre=pre, heap=st.heap)
        wy_eff = wx if same else wy
        hyp_y = z3.BoolVal(True) if same else z3.And(inw(wy), gamma(eng, st, Ry, wy))
        if which == "add_overflow":
            cmpv = S.zi_op("lt", S.zi_op("add", wx, wy_eff), wx)
        else:
            cmpv = S.zi_op("gt", S.zi_op("sub", wx, wy_eff), wx)
        if same:
            hyp_y = gamma(eng, st, Ry, wx)  # the same word must lie in both assumed ranges

        def check(s_, res):
            return ("true-implies-check-redundant", z3.Implies(z3.And(s_.pc, _b(res), inw(wx), gamma(eng, st, Rx, wx), hyp_y), cmpv == 0))
    else:
        raise ValueError(which)

    conds = [s_.pc for s_, _ in out.returns] + [s_.pc for s_, _ in out.raises]
    discharge(obs, "paths-exhaustive", z3.Implies(pre, z3.Or(*conds) if conds else z3.BoolVal(False)), timeout_ms=timeout, replay=replay)
    for (s_, res) in out.returns:
        clause, f = check(s_, res)
        discharge(obs, clause, f, timeout_ms=timeout, replay=replay)
    for o in obs:
        o["sources"] = eng.sources
    return number(obs)


def _b(v):
    return v if is_sym(v) else z3.BoolVal(bool(v))


def replay_client(o):
    """native replay: run the real method with a stub range analysis returning the model's ranges"""
    from types import SimpleNamespace

    from vyper.venom.basicblock import IRInstruction, IRLiteral, IRVariable
    from vyper.venom.passes import algebraic_optimization as ao
    from vyper.venom.passes.assert_elimination import AssertEliminationPass
    from vyper.venom.passes.overflow_elimination import OverflowEliminationPass

    r, m = o["replay"], o.get("model") or {}
    which, variant = r["which"], r["variant"]
    x, y, res_v = IRVariable("%x"), IRVariable("%y"), IRVariable("%res")
    Rx = py_mk(r["kx"], m.get("l_lo"), m.get("l_hi"))
    wx, wy = m.get("a", 0), m.get("b", 0)
    if not py_gamma(Rx, wx):
        return {"reproduced": False, "detail": f"model word {wx} not in {Rx!r}"}
    if which == "range_excludes_zero":
        got = AssertEliminationPass._range_excludes_zero(Rx)
        return {"reproduced": bool(got and wx == 0), "detail": f"_range_excludes_zero({Rx!r}) = {got} but the word 0 is in the range"}
    ranges = {x: Rx}
    ra = SimpleNamespace(get_range=lambda op, inst: ranges[op])
    if which == "try_range_cmp":
        lit_first, is_gt, signed = bool(variant & 1), bool(variant & 2), bool(variant & 4)
        lit = IRLiteral(m.get("lit", 0))
        operands = [x, lit] if lit_first else [lit, x]
        opcode = ("sgt" if is_gt else "slt") if signed else ("gt" if is_gt else "lt")
        self_ = SimpleNamespace(range_analysis=ra, _is_lit=ao.AlgebraicOptimizationPass._is_lit)
        got = ao.AlgebraicOptimizationPass._try_range_cmp(self_, IRInstruction(opcode, [x, x], [res_v]), operands, is_gt, signed)
        a0, a1 = (lit.value % M, wx) if lit_first else (wx, lit.value % M)
        want = S.py_op(opcode, a0, a1)
        return {"reproduced": got is not None and got != want,
                "detail": f"_try_range_cmp folds {opcode}({'lit' if lit_first else 'x'}, ..) with x in {Rx!r}, literal {lit.value} to {got}, but for x = {wx} the comparison is {want}"}
    if which == "rule_signextend":
        calls = []
        upd = SimpleNamespace(mk_assign=lambda inst, op: calls.append(op))
        self_ = SimpleNamespace(range_analysis=ra, updater=upd)
        ao.AlgebraicOptimizationPass._rule_signextend(self_, IRInstruction("signextend", [x, IRLiteral(variant)], [res_v]))
        want = S.py_op("signextend", variant % M, wx)
        return {"reproduced": bool(calls) and want != wx, "detail": f"_rule_signextend replaced signextend({variant}, x) by x for x in {Rx!r}; x = {wx} gives {want}"}
    Ry = py_mk(r["ky"], m.get("r_lo"), m.get("r_hi"))
    ranges[y] = Ry
    same = variant == 2
    yv = x if same else y
    if same:
        wy = wx
    elif not py_gamma(Ry, wy):
        return {"reproduced": False, "detail": f"model word {wy} not in {Ry!r}"}
    if which == "add_overflow":
        arith = IRInstruction("add", [x, yv] if variant != 1 else [yv, x], [res_v])
        cmp_inst = IRInstruction("lt", [x, res_v], [IRVariable("%c")])
        fn = OverflowEliminationPass._try_eliminate_add_overflow
        cmpv = S.py_op("lt", S.py_op("add", wx, wy), wx)
    else:
        arith = IRInstruction("sub", [yv, x], [res_v])
        cmp_inst = IRInstruction("gt", [x, res_v], [IRVariable("%c")])
        fn = OverflowEliminationPass._try_eliminate_sub_underflow
        cmpv = S.py_op("gt", S.py_op("sub", wx, wy), wx)
    self_ = SimpleNamespace(range_analysis=ra, _get_producer=lambda op: arith if op == res_v else None,
                            _operands_match=lambda a, b: a == b,
                            _range_is_non_negative=lambda vr: OverflowEliminationPass._range_is_non_negative(None, vr))
    got = fn(self_, cmp_inst)
    return {"reproduced": bool(got and cmpv != 0), "detail": f"{fn.__name__} says the check is redundant for x in {Rx!r}, y in {Ry!r}; x={wx}, y={wy} trips it"}


REPLAY = {"sccp": replay_sccp, "memloc": replay_memloc, "client": replay_client}


# ------------------------------------------------------------------------------------------------ printer / parser / well-formedness
FUNCS_IRTEXT = ["vyper.venom.parser:parse_venom", "vyper.venom.context:IRContext.__repr__", "vyper.venom.check_venom:find_semantic_errors", "vyper.venom:run_passes_on"]


def job_ir_roundtrip(tids, cfg, scale=1):
    """bounded stand-in (run-time contract evaluation on the template family, not a proof):
         - the front end's Venom IR (before the passes) and the IR after the pass pipeline have no semantic errors
           (`find_semantic_errors`: well-formedness);
         - printing the front-end IR and parsing it back gives a program that prints identically and that the same pass pipeline
           and back end compile to the same bytecode (so the printed IR denotes an equivalent program)"""
    from vyper.codegen_venom import generate_runtime_venom
    from vyper.compiler.phases import CompilerData
    from vyper.compiler.settings import anchor_settings
    from vyper.evm.assembler.core import assembly_to_evm
    from vyper.venom import generate_assembly_experimental, run_passes_on
    from vyper.venom.check_venom import find_semantic_errors
    from vyper.venom.parser import parse_venom
    from vverif.contracts.templates_lib import build
    from vverif.sem import templates as T

    obs = []
    Tl = build(True)
    for tid in tids:
        src = Tl[tid]
        settings = T.settings_for(cfg)
        replay = {"kind": "irtext", "tid": tid, "cfg": cfg}
        try:
            with anchor_settings(settings):
                cd = CompilerData(src, settings=settings)
                ctx = generate_runtime_venom(cd.global_ctx, settings)
                errs0 = find_semantic_errors(ctx)
                text = str(ctx)
                ctx2 = parse_venom(text)
                text2 = str(ctx2)
                flags = settings.get_venom_flags()
                run_passes_on(ctx, flags)
                errs1 = find_semantic_errors(ctx)
                run_passes_on(ctx2, flags)
                b1, _ = assembly_to_evm(generate_assembly_experimental(ctx, optimize=settings.optimize))
                b2, _ = assembly_to_evm(generate_assembly_experimental(ctx2, optimize=settings.optimize))
        except Exception as e:
            fact(obs, f"venom-ir[{tid}]:pipeline-runs-on-printed-and-parsed-ir", False, bounded=True, replay=replay, note=f"{type(e).__name__}: {e}"[:300])
            continue
        fact(obs, f"venom-ir[{tid}]:front-end-ir-is-well-formed", not errs0, bounded=True, replay=replay, note=str(errs0)[:200])
        fact(obs, f"venom-ir[{tid}]:ir-after-passes-is-well-formed", not errs1, bounded=True, replay=replay, note=str(errs1)[:200])
        fact(obs, f"venom-ir[{tid}]:print-parse-print-is-a-fixpoint", text == text2, bounded=True, replay=replay)
        if b1 == b2:
            fact(obs, f"venom-ir[{tid}]:parsed-ir-compiles-to-equivalent-bytecode", True, bounded=True, replay=replay, note="identical bytes")
        else:
            # different bytes (information that steers the optimiser is not printed): equivalence is proved, not assumed
            from vverif.contracts import relational as R
            from vverif.sem import bytecode as BC
            from vverif.sem import machine as Mx

            env = Mx.Env()
            env.reentrancy_havoc = True
            try:
                A = BC.run(b1, env, max_paths=600)
                B = BC.run(b2, env, max_paths=600)
            except Mx.Unsupported as e:
                obs.append({"clause": f"venom-ir[{tid}]:parsed-ir-compiles-to-equivalent-bytecode", "status": "unknown", "backend": "engine", "seconds": 0, "model": None, "note": str(e), "bounded": True})
                continue
            idx = z3.BitVec("idx!", 256)
            for a in A:
                for b in B:
                    both = z3.And(a.pc, b.pc)
                    if not R.feasible(both, 2000):
                        continue
                    discharge(obs, f"venom-ir[{tid}]:parsed-ir-compiles-to-equivalent-bytecode", z3.Implies(both, R.same_outcome(a, b, idx, None)), hyps=list(env.assumptions), replay=replay, bounded=True,
                              note=f"{len(b1)} vs {len(b2)} bytes")
    return number(obs)
