"""C01 — the compiled bytecode implements the source semantics (template route, spec = vverif/spec_source.py).

For a source program P of the supported subset and a configuration c:

    for all calldata, call value, caller/block context and prior storage:
       the run-time bytecode compile(P, c) and the reference semantics of P agree on success/failure, return or revert data,
       the sequence and payload of logs, and the final storage / transient storage.

One obligation per bytecode path:  path condition  ==>  some source outcome has a true condition and is observationally equal.
The reference semantics is deterministic and total by construction; its totality is re-checked (`spec-total`).
"""
import z3

from vverif.contracts import relational as R
from vverif.jobutil import discharge, fact, number
from vverif.sem import bytecode as BC
from vverif.sem import machine as Mx
from vverif.sem import templates as T
from vverif.sem.machine import BV
from vverif.smt import feasible, prove

FUNCS = R.FUNCS + [
    "vyper.codegen.expr:Expr", "vyper.codegen.stmt:Stmt", "vyper.codegen.core:make_setter", "vyper.codegen.core:get_element_ptr",
    "vyper.codegen.function_definitions.external_function:generate_ir_for_external_function",
    "vyper.codegen.function_definitions.internal_function:generate_ir_for_internal_function", "vyper.codegen.self_call:ir_for_self_call",
    "vyper.codegen_venom.expr:Expr", "vyper.codegen_venom.stmt:Stmt", "vyper.codegen_venom.module:generate_runtime_venom",
]


def job_src(tid, src, cfg, evm="cancun", scale=1):
    from vverif import spec_source as SS

    obs = []
    timeout = 30000 * scale
    replay = {"kind": "src", "tid": tid, "src": src, "cfg": cfg, "evm": evm}
    env = Mx.Env()
    env.reentrancy_havoc = True  # persistent state after an outgoing (non-static) call is arbitrary: the callee may re-enter
    try:
        spec = SS.Interp(src, T.settings_for(cfg, evm), env).run_contract()
    except SS.Unsupported as e:
        obs.append({"clause": "spec", "status": "unknown", "backend": "engine", "seconds": 0, "model": None, "note": "outside the reference semantics: " + str(e), "replay": replay})
        return number(obs)
    try:
        code, _ = T.compile_runtime(src, cfg, evm)
        outs = BC.run(code, env, evm_version=evm, max_paths=3000, max_steps=60000)
    except Mx.Unsupported as e:
        obs.append({"clause": "denote", "status": "unknown", "backend": "engine", "seconds": 0, "model": None, "note": "outside the bytecode denotation: " + str(e), "replay": replay})
        return number(obs)
    idx = z3.BitVec("idx!", 256)
    terms = T.cd_eval_terms(env, 8)
    regions = R.slack_regions(T.compile_full(src, cfg, evm)["layout"])
    defs = []
    for s in spec:
        for d in s.defs:
            if not any(d is x for x in defs):
                defs.append(d)
    hyps = list(env.assumptions) + defs
    r = prove(z3.Or(*[s.pc for s in spec]), timeout_ms=timeout)
    if r["status"] != "proved":
        obs.append({"clause": "spec-total", "status": "unknown", "backend": "engine", "seconds": r["seconds"], "model": None, "note": "reference semantics not total on this program (interpreter defect)", "replay": replay})
        return number(obs)
    discharge(obs, "paths-exhaustive", z3.Or(*[o.pc for o in outs]), hyps=list(env.assumptions), timeout_ms=timeout, replay=replay)
    for o in outs:
        cands = []
        for s in spec:
            if R.success(o) != R.success(s):
                continue
            if not feasible(z3.And(o.pc, s.pc), 1500):
                continue
            cands.append(z3.And(s.pc, R.same_outcome(o, s, idx, regions)))
        goal = z3.Implies(o.pc, z3.Or(*cands) if cands else z3.BoolVal(False))
        discharge(obs, f"bytecode-path-agrees-with-source[{o.status}]", goal, hyps=hyps, timeout_ms=timeout, replay=dict(replay, path=R.describe(o)), eval_terms=terms)
    fact(obs, "spec-has-success-path", any(R.success(s) for s in spec), replay=dict(replay, static=True))
    return number(obs)


def replay_src(o):
    """native replay: the calldata of the counter-model is run in pyrevm; the reference semantics is evaluated on the same
    concrete call (prior storage as in the model is not reproduced: fresh deployment = zero storage), and the two are compared"""
    from vverif import spec_source as SS

    r, m = o["replay"], o.get("model") or {}
    if r.get("static"):
        return {"reproduced": None, "detail": "structural fact"}
    if "cds" not in m:
        return {"reproduced": None, "detail": "no calldata in the solver model"}
    cd = T.calldata_from_model(m)
    val = m.get("callvalue", 0)
    st, data = T.native_call(r["src"], r["cfg"], cd, value=val, evm_version=r["evm"])
    env = Mx.Env()
    try:
        spec = SS.Interp(r["src"], T.settings_for(r["cfg"], r["evm"]), env).run_contract()
    except SS.Unsupported as e:
        return {"reproduced": None, "detail": f"native: {st}; reference semantics unavailable: {e}"}
    sub = T.concrete_subst(env, cd, val) + [(env.storage0, z3.K(Mx.W, BV(0))), (env.transient0, z3.K(Mx.W, BV(0)))]
    exp = None
    for s in spec:
        c = z3.simplify(z3.substitute(s.pc, *sub))
        if z3.is_true(c):
            if s.status == "return":
                n = z3.simplify(z3.substitute(s.data["len"], *sub)).as_long()
                bs = b""
                ok = True
                for i in range(n):
                    b = z3.simplify(z3.substitute(Mx.data_byte(s.data, i), *sub))
                    if not z3.is_bv_value(b):
                        ok = False
                        break
                    bs += bytes([b.as_long()])
                exp = ("return", bs if ok else None)
            else:
                exp = ("return", b"") if s.status == "stop" else ("revert", None)
    det = f"cfg={r['cfg']} calldata=0x{cd.hex()[:600]} value={val} (fresh deployment, zero storage): native -> {st} {data.hex() if st == 'return' else ''}; reference semantics -> {exp}"
    if exp is None:
        return {"reproduced": None, "detail": det + " (source outcome depends on context symbols the replay does not fix)"}
    bad = (exp[0] != st) or (st == "return" and exp[1] is not None and exp[1] != data)
    return {"reproduced": True if bad else None, "detail": det}


REPLAY = {"src": replay_src}
