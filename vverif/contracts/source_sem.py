"""C01 — the compiled bytecode implements the source semantics (template route, spec = vverif/spec_source.py).

For a source program P of the supported subset and a configuration c:

    for all calldata, call value, caller/block context and prior storage:
       the run-time bytecode compile(P, c) and the reference semantics of P agree on success/failure, return or revert data,
       the sequence and payload of logs, and the final storage / transient storage.

One obligation per bytecode path:  path condition  ==>  some source outcome has a true condition and is observationally equal.
The reference semantics is deterministic and total by construction; its totality is re-checked (`spec-total`).
"""
import z3

from vverif.contracts import relational as R
from vverif.jobutil import discharge, fact, number
from vverif.sem import bytecode as BC
from vverif.sem import machine as Mx
from vverif.sem import templates as T
from vverif.sem.machine import BV
from vverif.smt import feasible, prove

FUNCS = R.FUNCS + [
    "vyper.codegen.expr:Expr", "vyper.codegen.stmt:Stmt", "vyper.codegen.core:make_setter", "vyper.codegen.core:get_element_ptr",
    "vyper.codegen.function_definitions.external_function:generate_ir_for_external_function",
    "vyper.codegen.function_definitions.internal_function:generate_ir_for_internal_function", "vyper.codegen.self_call:ir_for_self_call",
    "vyper.codegen_venom.expr:Expr", "vyper.codegen_venom.stmt:Stmt", "vyper.codegen_venom.module:generate_runtime_venom",
]


PAYLOAD_BOUND = 192


def job_src(tid, src, cfg, evm="cancun", scale=1, light=False):
    """light=True: only the accept/revert decision and the payload lengths are decided (which inputs succeed, which revert);
    the byte contents and the final state of the successful paths are left to the thorough tier"""
    from vverif import spec_source as SS

    obs = []
    timeout = 30000 * scale
    replay = {"kind": "src", "tid": tid, "src": src, "cfg": cfg, "evm": evm}
    env = Mx.Env()
    env.reentrancy_havoc = True  # persistent state after an outgoing (non-static) call is arbitrary: the callee may re-enter
    try:
        interp = SS.Interp(src, T.settings_for(cfg, evm), env)
        spec = interp.run_contract()
    except SS.Unsupported as e:
        obs.append({"clause": "spec", "status": "unknown", "backend": "engine", "seconds": 0, "model": None, "note": "outside the reference semantics: " + str(e), "replay": replay})
        return number(obs)
    try:
        code, _ = T.compile_runtime(src, cfg, evm)
        outs = BC.run(code, env, evm_version=evm, max_paths=3000, max_steps=60000)
    except Mx.Unsupported as e:
        obs.append({"clause": "denote", "status": "unknown", "backend": "engine", "seconds": 0, "model": None, "note": "outside the bytecode denotation: " + str(e), "replay": replay})
        return number(obs)
    idx = z3.BitVec("idx!", 256)
    terms = T.cd_eval_terms(env, 8)
    for k in (1, 2):  # what the adversarial callee answered (for replay files)
        rd = z3.Array(f"call_retdata!{k}{env.tag}", Mx.W, Mx.B8)
        for i in range(3):
            terms[f"retdata{k}_w{i}"] = z3.Concat(*[z3.Select(rd, BV(32 * i + j)) for j in range(32)])
    regions = R.slack_regions(T.compile_full(src, cfg, evm)["layout"])
    defs = []
    for s in spec:
        for d in s.defs:
            if not any(d is x for x in defs):
                defs.append(d)
    # calldata longer than 2**32 bytes cannot exist (gas); without the bound, byte strings placed at the very top of a 2**256-byte
    # calldata would have to be specified too
    hyps = list(env.assumptions) + defs + [z3.ULT(env.calldatasize, BV(2**32))] + list(interp.invariants)
    r = prove(z3.Or(*[s.pc for s in spec if not getattr(s, "optional", False)]), list(env.assumptions), timeout_ms=timeout)
    if r["status"] != "proved":
        obs.append({"clause": "spec-total", "status": "unknown", "backend": "engine", "seconds": r["seconds"], "model": None, "note": "reference semantics not total on this program (interpreter defect)", "replay": replay})
        return number(obs)
    discharge(obs, "paths-exhaustive", z3.Or(*[o.pc for o in outs]), hyps=list(env.assumptions), timeout_ms=timeout, replay=replay)
    # lemma step (checked): case split on bounds-checked indices of the source program (exhaustiveness is proved under the
    # premise of each obligation, so a wrong hint cannot make a false goal pass)
    hint_cases = None
    hs = interp.split_hints[:2]
    if hs:
        import itertools as _it

        if len(hs) == 2 and hs[0][1] * hs[1][1] <= 64:
            hint_cases = [z3.And(hs[0][0] == BV(a), hs[1][0] == BV(b)) for a, b in _it.product(range(hs[0][1]), range(hs[1][1]))]
        else:
            hint_cases = [hs[0][0] == BV(a) for a in range(hs[0][1])]
    for o in outs:
        compat = [s for s in spec if R.success(s) == R.success(o)]
        # (1) the source semantics has an outcome of the same class under this path's condition
        discharge(obs, f"source-has-outcome-of-this-class[{o.status}]", z3.Implies(o.pc, z3.Or(*[s.pc for s in compat]) if compat else z3.BoolVal(False)), hyps=hyps,
                  timeout_ms=timeout, replay=dict(replay, path=R.describe(o)), eval_terms=terms)
        # payload lengths: when every payload of this path (return/revert data, log data, call data) is provably short, the
        # byte comparison is done at concrete positions (the bound is itself an obligation)
        lens = [R.data_of(o)[0]] + [e[2]["len"] for e in R.visible(o.world.trace) if e[0] == "log"] + [e[4]["len"] for e in R.visible(o.world.trace) if e[0] in ("call", "staticcall", "delegatecall")]
        short = all(prove(z3.Implies(o.pc, z3.ULE(l, BV(PAYLOAD_BOUND))), hyps, timeout_ms=25000, use_cvc5=False, nl_abstraction=False)["status"] == "proved" for l in lens)
        # (2) every mandatory source outcome that can hold together with this path is observationally equal to it
        for s in compat:
            if getattr(s, "optional", False):
                continue
            both = z3.And(o.pc, s.pc)
            if not feasible(both, 1500):
                continue
            parts = R.outcome_parts(o, s, idx, regions, PAYLOAD_BOUND if short else 0)
            if parts is None:
                discharge(obs, f"bytecode-path-agrees-with-source[{o.status}]:shape", z3.Not(both), hyps=hyps, timeout_ms=timeout, replay=dict(replay, path=R.describe(o)), eval_terms=terms)
                continue
            for nm, f in parts:
                if light and not nm.endswith(":length"):
                    continue
                f = z3.simplify(f)
                if z3.is_true(f):
                    continue
                discharge(obs, f"bytecode-path-agrees-with-source[{o.status}]:{nm}", z3.Implies(both, f), hyps=hyps, timeout_ms=timeout, replay=dict(replay, path=R.describe(o)), eval_terms=terms,
                          cases=hint_cases if R.success(o) else None)
    fact(obs, "spec-has-success-path", any(R.success(s) for s in spec), replay=dict(replay, static=True))
    return number(obs)


def replay_src(o):
    """native replay: the calldata of the counter-model is run in pyrevm; the reference semantics is evaluated on the same
    concrete call (prior storage as in the model is not reproduced: fresh deployment = zero storage), and the two are compared"""
    from vverif import spec_source as SS

    r, m = o["replay"], o.get("model") or {}
    if r.get("static"):
        return {"reproduced": None, "detail": "structural fact"}
    if "cds" not in m:
        return {"reproduced": None, "detail": "no calldata in the solver model"}
    cd = T.calldata_from_model(m)
    val = m.get("callvalue", 0)
    st, data, logs = T.native_call(r["src"], r["cfg"], cd, value=val, evm_version=r["evm"], with_logs=True)
    env = Mx.Env()
    try:
        spec = SS.Interp(r["src"], T.settings_for(r["cfg"], r["evm"]), env).run_contract()
    except SS.Unsupported as e:
        return {"reproduced": None, "detail": f"native: {st}; reference semantics unavailable: {e}"}
    sub = T.concrete_subst(env, cd, val) + [(env.storage0, z3.K(Mx.W, BV(0))), (env.transient0, z3.K(Mx.W, BV(0)))]

    def cbytes(d):
        n = z3.simplify(z3.substitute(d["len"], *sub))
        if not z3.is_bv_value(n) or n.as_long() > 4096:
            return None
        bs = b""
        for i in range(n.as_long()):
            b = z3.simplify(z3.substitute(Mx.data_byte(d, i), *sub))
            if not z3.is_bv_value(b):
                return None
            bs += bytes([b.as_long()])
        return bs

    exp = None
    exp_logs = None
    for s in spec:
        if getattr(s, "optional", False):
            continue
        c = z3.simplify(z3.substitute(s.pc, *sub))
        if z3.is_true(c):
            if s.status == "return":
                exp = ("return", cbytes(s.data))
            else:
                exp = ("return", b"") if s.status == "stop" else ("revert", None)
            if s.status in ("return", "stop"):
                exp_logs = []
                for ev in s.world.trace:
                    if ev[0] != "log":
                        continue
                    tps = [z3.simplify(z3.substitute(t, *sub)) for t in ev[1]]
                    exp_logs.append(([t.as_long() if z3.is_bv_value(t) else None for t in tps], cbytes(ev[2])))
    det = f"cfg={r['cfg']} calldata=0x{cd.hex()[:600]} value={val} (fresh deployment, zero storage): native -> {st} {data.hex() if st == 'return' else ''} logs={[(t, d.hex()) for t, d in (logs or [])]}; reference semantics -> {exp} logs={[(t, d.hex() if d is not None else None) for t, d in (exp_logs or [])]}"
    if exp is None:
        return {"reproduced": None, "detail": det + " (source outcome depends on context symbols the replay does not fix)"}
    bad = (exp[0] != st) or (st == "return" and exp[1] is not None and exp[1] != data)
    if not bad and st == "return" and logs is not None and exp_logs is not None and all(d is not None and None not in t for t, d in exp_logs):
        bad = [(list(t), d) for t, d in logs] != [(list(t), d) for t, d in exp_logs]
    return {"reproduced": True if bad else None, "detail": det}


REPLAY = {"src": replay_src}
