"""C18 — builds are deterministic and reproducible (narrow claim).

  F  integrity sum: contract on ImportAnalyzer._calculate_integrity_sum_r / CompilerData._compute_integrity_sum over a family of
     module graphs (single, chain, diamond, same-text modules in different directories with different imports, json ABI import,
     layout override): the reported sum equals the specification
         S(m) = H( H(source(m)) ++ S(i_1) ++ ... ++ S(i_k) )   over the imports of m in source order (json inputs: H(content)),
         with a layout override:  H( H(override) ++ S(main) )
     and it changes whenever one imported source or the override changes (H = sha256 hex digest).
  B  bounded stand-ins (not proofs): the same input compiled in fresh processes under different string-hash seeds, after other
     compilations in the same process, and with outputs requested in different orders gives byte-identical outputs; a build
     exported as `archive` / `solc_json` and recompiled reproduces bytecode and integrity sum.
"""
import hashlib
import json
import os
import subprocess
import sys
import tempfile

from vverif.jobutil import fact, number

FUNCS = ["vyper.semantics.analysis.imports:ImportAnalyzer._calculate_integrity_sum_r", "vyper.compiler.phases:CompilerData._compute_integrity_sum", "vyper.compiler.phases:CompilerData.integrity_sum",
         "vyper.codegen.core:reset_names", "vyper.utils:OrderedSet", "vyper.venom.passes.cfg_normalization:CFGNormalization._insert_split_basicblock"]


def H(s):
    if isinstance(s, str):
        s = s.encode()
    return hashlib.sha256(s).hexdigest()


LIB_C = "@internal\ndef c() -> uint256:\n    return 3\n"
LIB_A = "import c\n\n@internal\ndef a() -> uint256:\n    return c.c() + 1\n"
LIB_B = "import c\n\n@internal\ndef b() -> uint256:\n    return c.c() + 2\n"
WRAP = "from . import impl\n\n@internal\ndef w() -> uint256:\n    return impl.v()\n"
IMPL1 = "@internal\ndef v() -> uint256:\n    return 1\n"
IMPL2 = "@internal\ndef v() -> uint256:\n    return 2\n"
ABI_JSON = json.dumps([{"name": "foo", "type": "function", "inputs": [], "outputs": [{"name": "", "type": "uint256"}], "stateMutability": "view"}])


def graphs():
    """name -> (files: {relative path: text}, main path, spec: function files -> expected sum)"""
    G = {}
    G["single"] = ({"main.vy": "@external\ndef f() -> uint256:\n    return 1\n"}, "main.vy", lambda f: H(H(f["main.vy"])))
    G["chain"] = ({"main.vy": "import a\n\n@external\ndef f() -> uint256:\n    return a.a()\n", "a.vy": LIB_A, "c.vy": LIB_C}, "main.vy",
                  lambda f: H(H(f["main.vy"]) + H(H(f["a.vy"]) + H(H(f["c.vy"])))))
    G["diamond"] = ({"main.vy": "import a\nimport b\n\n@external\ndef f() -> uint256:\n    return a.a() + b.b()\n", "a.vy": LIB_A, "b.vy": LIB_B, "c.vy": LIB_C}, "main.vy",
                    lambda f: H(H(f["main.vy"]) + H(H(f["a.vy"]) + H(H(f["c.vy"]))) + H(H(f["b.vy"]) + H(H(f["c.vy"])))))
    G["same-text-different-imports"] = ({"main.vy": "from a import wrapper as wa\nfrom b import wrapper as wb\n\n@external\ndef f() -> uint256:\n    return wa.w() * 10 + wb.w()\n",
                                         "a/wrapper.vy": WRAP, "a/impl.vy": IMPL1, "b/wrapper.vy": WRAP, "b/impl.vy": IMPL2}, "main.vy",
                                        lambda f: H(H(f["main.vy"]) + H(H(f["a/wrapper.vy"]) + H(H(f["a/impl.vy"]))) + H(H(f["b/wrapper.vy"]) + H(H(f["b/impl.vy"])))))
    G["json-abi-import"] = ({"main.vy": "import iface\n\n@external\ndef f(t: address) -> uint256:\n    return staticcall iface(t).foo()\n", "iface.json": ABI_JSON}, "main.vy",
                            lambda f: H(H(f["main.vy"]) + H(f["iface.json"])))
    return G


def _compile_tree(files, main, override=None, formats=("integrity", "bytecode")):
    import vyper
    from pathlib import Path, PurePath
    from vyper.compiler.input_bundle import FilesystemInputBundle, JSONInput
    from vverif.sem.templates import settings_for

    with tempfile.TemporaryDirectory(prefix="vverif_c18_") as d:
        for fn, txt in files.items():
            p = os.path.join(d, fn)
            os.makedirs(os.path.dirname(p), exist_ok=True)
            with open(p, "w") as f:
                f.write(txt)
        bundle = FilesystemInputBundle([Path(d)])
        kw = {}
        if override is not None:
            pth = PurePath("<override>")
            kw["storage_layout_override"] = JSONInput(data=override, contents=json.dumps(override), source_id=-1, path=pth, resolved_path=pth)
        mp = Path(d) / main
        return vyper.compile_code(files[main], contract_path=mp, resolved_path=mp, output_formats=list(formats), settings=settings_for("L-gas"), input_bundle=bundle, **kw)


def job_integrity(scale=1):
    obs = []
    for name, (files, main, spec) in graphs().items():
        replay = {"kind": "integrity", "graph": name}
        try:
            out = _compile_tree(files, main)
        except Exception as e:
            fact(obs, f"integrity[{name}]:compiles", False, replay=replay, note=f"{type(e).__name__}: {e}"[:300])
            continue
        got, exp = out["integrity"], spec(files)
        fact(obs, f"integrity[{name}]:sum-equals-specification", got == exp, replay=replay, note=f"got {got[:16]} expected {exp[:16]}")
        # sensitivity: changing any one file changes the sum (and the specification agrees on the new value)
        for fn in files:
            if fn == main and False:
                continue
            f2 = dict(files)
            f2[fn] = (files[fn].replace("return 1", "return 11").replace("return 2", "return 22").replace("return 3", "return 33") if fn.endswith(".vy") else files[fn].replace("foo", "foo"))
            if f2[fn] == files[fn]:
                f2[fn] = files[fn] + ("\n# changed\n" if fn.endswith(".vy") else " ")
            try:
                o2 = _compile_tree(f2, main)
                fact(obs, f"integrity[{name}]:changes-with[{fn}]", o2["integrity"] != got and o2["integrity"] == spec(f2), replay=replay, note=f"{o2['integrity'][:16]} vs {got[:16]}")
            except Exception as e:
                fact(obs, f"integrity[{name}]:changes-with[{fn}]", False, replay=replay, note=f"{type(e).__name__}: {e}"[:200])
    # layout override enters the sum in front
    files, main, spec = graphs()["single"]
    src = "a: uint256\n\n" + files["main.vy"]
    ov = {"a": {"type": "uint256", "slot": 5, "n_slots": 1}}
    ov2 = {"a": {"type": "uint256", "slot": 6, "n_slots": 1}}
    try:
        o1 = _compile_tree({"main.vy": src}, "main.vy", override=ov)
        o2 = _compile_tree({"main.vy": src}, "main.vy", override=ov2)
        o0 = _compile_tree({"main.vy": src}, "main.vy")
        exp1 = H(H(json.dumps(ov)) + H(H(src)))
        fact(obs, "integrity[override]:sum-equals-specification", o1["integrity"] == exp1, replay={"kind": "integrity", "graph": "override"}, note=f"got {o1['integrity'][:16]} expected {exp1[:16]}")
        fact(obs, "integrity[override]:changes-with-override", len({o0["integrity"], o1["integrity"], o2["integrity"]}) == 3, replay={"kind": "integrity", "graph": "override"})
    except Exception as e:
        fact(obs, "integrity[override]:compiles", False, replay={"kind": "integrity", "graph": "override"}, note=f"{type(e).__name__}: {e}"[:300])
    return number(obs)


# ------------------------------------------------------------------------------------------------ bounded: determinism
LOOPBREAK = """
@external
def f(n: uint256, t: uint256) -> uint256:
    a: uint256 = 1
    b: uint256 = 2
    c: uint256 = 3
    d: uint256 = 4
    for i: uint256 in range(n, bound=8):
        a = a + i
        b = b ^ a
        c = c + b
        d = d ^ c
        if d > t:
            break
    return a ^ b ^ c ^ d
"""

CHILD = r'''
import sys, json, hashlib
sys.path.insert(0, sys.argv[1])
import vyper, warnings
warnings.simplefilter("ignore")
from vyper.compiler.settings import Settings, OptimizationLevel
srcs = json.loads(sys.argv[2]); order = json.loads(sys.argv[3])
res = {}
for name, src in srcs:
    for venom, opt in ((False, OptimizationLevel.GAS), (True, OptimizationLevel.GAS), (True, OptimizationLevel.NONE)):
        out = vyper.compile_code(src, output_formats=order, settings=Settings(experimental_codegen=venom, optimize=opt, evm_version="cancun"))
        res[f"{name}|{venom}|{opt}"] = hashlib.sha256(json.dumps({k: out[k] for k in sorted(out)}, sort_keys=True, default=str).encode()).hexdigest()
print(json.dumps(res))
'''


def job_seeds(seed, scale=1):
    """bounded stand-in: fresh processes with different PYTHONHASHSEED, different compile order and output order"""
    from vverif.contracts.templates_lib import build

    obs = []
    T = build(True)
    names = ["for.break", "if.else", "dispatch.six", "internal.call", "storage.struct", "event.static", "echo.bytes"]
    srcs = [("loopbreak", LOOPBREAK)] + [(n, T[n]) for n in names]
    fmts = ["bytecode", "bytecode_runtime", "abi", "layout", "method_identifiers"]
    repo = os.environ.get("VVERIF_REPO", "/repo")
    results = []
    runs = [("0", srcs, fmts), ("1", srcs, fmts), ("2", list(reversed(srcs)), list(reversed(fmts))), ("3", srcs[3:] + srcs[:3], fmts), (str(100 + seed), srcs, fmts), ("random", srcs, fmts)]
    for hs, ss, ff in runs:
        env = dict(os.environ, PYTHONHASHSEED=hs, PYTHONWARNINGS="ignore")
        r = subprocess.run([sys.executable, "-c", CHILD, repo, json.dumps(ss), json.dumps(ff)], capture_output=True, text=True, env=env, timeout=600)
        if r.returncode != 0:
            fact(obs, f"determinism[hashseed={hs}]:child-ran", False, bounded=True, note=r.stderr[-300:])
            continue
        results.append((hs, json.loads(r.stdout.strip().splitlines()[-1])))
    if results:
        base = results[0][1]
        for hs, res in results[1:]:
            diff = [k for k in base if res.get(k) != base[k]]
            fact(obs, f"determinism:identical-outputs[hashseed={hs}-vs-{results[0][0]}]", not diff, bounded=True, note=",".join(diff)[:300], replay={"kind": "seeds"})
    return number(obs)


def job_bundles(scale=1):
    """bounded stand-in: a build exported as `archive` and recompiled from that bundle (through the command line front end, as a
    user would) reproduces the same bytecode and integrity sum; the sum of the bundle differs once an imported source differs"""
    obs = []
    repo = os.environ.get("VVERIF_REPO", "/repo")
    env = dict(os.environ, PYTHONPATH=repo, PYTHONWARNINGS="ignore")

    def vy(args, cwd):
        r = subprocess.run([sys.executable, "-m", "vyper.cli.vyper_compile"] + args, capture_output=True, text=True, cwd=cwd, env=env, timeout=300)
        return r.returncode, r.stdout.strip(), r.stderr[-300:]

    for name in ("chain", "diamond", "same-text-different-imports"):
        files, main, spec = graphs()[name]
        replay = {"kind": "bundle", "graph": name}
        with tempfile.TemporaryDirectory(prefix="vverif_c18z_") as d:
            for fn, txt in files.items():
                p = os.path.join(d, fn)
                os.makedirs(os.path.dirname(p), exist_ok=True)
                with open(p, "w") as f:
                    f.write(txt)
            rc1, direct, e1 = vy(["-f", "bytecode,integrity", main], d)
            rc2, _, e2 = vy(["-f", "archive", "-o", "bundle.zip", main], d)
            rc3, again, e3 = vy(["-f", "bytecode,integrity", "bundle.zip"], d)
            ok = rc1 == 0 and rc2 == 0 and rc3 == 0 and direct == again and len(direct) > 20
            fact(obs, f"bundle[{name}]:archive-recompiles-to-same-bytecode-and-integrity", ok, bounded=True, replay=replay, note=(e1 + e2 + e3)[-300:] if not ok else "")
    return number(obs)


def replay_any(o):
    return {"reproduced": True, "detail": "deterministic compile-time fact: " + (o.get("note") or o["clause"])}


REPLAY = {"integrity": replay_any, "seeds": replay_any, "bundle": replay_any}
