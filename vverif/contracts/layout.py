"""C10 — state variables never alias; the reported layout is the layout the code uses; overrides honoured or rejected.

   P  PyVC      SimpleAllocator.allocate_slot: returns the old cursor, advances it by n, raises iff the range would reach
                max_slot; hence successive allocations are pairwise disjoint and ordered (all inputs).
   F  FinEx     layout overrides through the real front end: every cell of a decision table (permutation, gaps, overlap,
                partial overlap of multi-slot variables, missing entry, out-of-range slot, collision with the re-entrancy key -
                also across `initializes` modules) is accepted-and-honoured or rejected as the property dictates.
   G  GenVC     job_layout (template_specs.py): every write of every setter of a layout template hits only slots inside the
                variable's reported range (HashMap: keccak-derived), for all calldata/state, in both pipelines.
"""
import itertools
import os
import tempfile

import z3

from vverif.jobutil import discharge, fact, number

FUNCS = ["vyper.semantics.analysis.data_positions:" + n for n in (
    "SimpleAllocator.allocate_slot", "SimpleAllocator.allocate_global_nonreentrancy_slot", "OverridingStorageAllocator._reserve_slot",
    "OverridingStorageAllocator.reserve_slot_range", "_allocate_with_overrides_r", "_allocate_with_overrides", "_allocate_layout_r", "set_data_positions", "generate_layout_export")]


def job_allocator(scale=1):
    from vyper.semantics.analysis.data_positions import SimpleAllocator
    from vverif.pyvc import Engine, SymObj, St

    obs = []
    timeout = 20000 * scale
    start, slot, mx, n = z3.Ints("start slot max n")
    pre = z3.And(start >= 0, start <= slot, slot < mx, n >= 0)
    replay = {"kind": "allocator"}
    eng = Engine(asserts="raise")
    st0 = St(pre)
    obj, st1 = eng.new_obj(SimpleAllocator, {"_starting_slot": start, "_slot": slot, "_max_slot": mx}, st0)
    out = eng.run(SimpleAllocator.allocate_slot, [obj, n], pre=pre, heap=st1.heap)
    ret_c = z3.Or(*[s.pc for s, _ in out.returns]) if out.returns else z3.BoolVal(False)
    discharge(obs, "allocate_slot:returns-iff-range-below-max", z3.Implies(pre, ret_c == (slot + n < mx)), timeout_ms=timeout, replay=replay)
    for s_, r in out.returns:
        new_slot = eng.fields(obj, s_)["_slot"]
        discharge(obs, "allocate_slot:returns-old-cursor-and-advances-by-n", z3.Implies(s_.pc, z3.And(r == slot, new_slot == slot + n, new_slot < mx,
                  eng.fields(obj, s_)["_max_slot"] == mx, eng.fields(obj, s_)["_starting_slot"] == start)), timeout_ms=timeout, replay=replay)
        # consequence used by the layout: the new range [r, r+n) lies above every earlier range (all end <= old cursor)
        e = z3.Int("earlier_end")
        discharge(obs, "allocate_slot:new-range-disjoint-from-earlier-ranges", z3.Implies(z3.And(s_.pc, e <= slot), e <= r), timeout_ms=timeout, replay=replay)
    rc = [s.pc for s, nm in out.raises]
    for s_, nm in out.raises:
        fact(obs, "allocate_slot:raises-StorageLayoutException-only", nm == "StorageLayoutException", replay=replay, note=nm)
    fact(obs, "allocate_slot:paths", len(out.returns) >= 1 and len(out.raises) >= 1, replay=replay)
    return number(obs)


# ------------------------------------------------------------------------------------------------ overrides (FinEx)
MAIN = """
a: uint256
b: uint256[2]
c: HashMap[address, uint256]
d: uint128

@external
def set(v: uint256):
    self.a = v
    self.b[1] = v
    self.c[msg.sender] = v
    self.d = 7
"""
MAIN_LOCK = MAIN.replace("@external\ndef set", "@external\n@nonreentrant\ndef set")
LIB = """
x: uint256
y: uint256

@internal
@nonreentrant
def guarded(v: uint256):
    self.x = v
"""
MAIN_MOD = """
import lib
p: uint256
initializes: lib

@external
def run(v: uint256):
    self.p = v
    lib.guarded(v)
"""


def _ov(**slots):
    T = {"a": ("uint256", 1), "b": ("uint256[2]", 2), "c": ("HashMap[address, uint256]", 1), "d": ("uint128", 1), "p": ("uint256", 1)}
    out = {}
    for k, s in slots.items():
        if k == "key":
            out["$.nonreentrant_key"] = {"type": "nonreentrant lock", "slot": s, "n_slots": 1}
        elif k in ("x", "y"):
            out.setdefault("lib", {})[k] = {"type": "uint256", "slot": s, "n_slots": 1}
        else:
            out[k] = {"type": T[k][0], "slot": s, "n_slots": T[k][1]}
    return out


def override_cases():
    """(name, source, extra files, evm, override, expected: 'honoured' | 'rejected')"""
    C = []
    for perm in itertools.permutations([0, 1, 3, 4]):
        a, b, c, d = perm
        ranges = sorted([(a, a + 1), (b, b + 2), (c, c + 1), (d, d + 1)])
        ok = all(ranges[i][1] <= ranges[i + 1][0] for i in range(3))
        C.append((f"perm{perm}", MAIN, {}, "cancun", _ov(a=a, b=b, c=c, d=d), "honoured" if ok else "rejected"))
    C.append(("gaps", MAIN, {}, "cancun", _ov(a=10, b=20, c=2**255, d=2**256 - 1), "honoured"))
    C.append(("overlap-second-word", MAIN, {}, "cancun", _ov(a=6, b=5, c=9, d=10), "rejected"))
    C.append(("same-slot", MAIN, {}, "cancun", _ov(a=1, b=2, c=1, d=7), "rejected"))
    C.append(("missing-entry", MAIN, {}, "cancun", {k: v for k, v in _ov(a=0, b=1, c=3, d=4).items() if k != "c"}, "rejected"))
    C.append(("out-of-range", MAIN, {}, "cancun", _ov(a=0, b=2**256 - 1, c=3, d=4), "rejected"))
    # the re-entrancy key lives in storage before cancun and must be in the override and collision free
    C.append(("lock.ok", MAIN_LOCK, {}, "shanghai", _ov(key=9, a=0, b=1, c=3, d=4), "honoured"))
    C.append(("lock.missing", MAIN_LOCK, {}, "shanghai", _ov(a=0, b=1, c=3, d=4), "rejected"))
    C.append(("lock.collides", MAIN_LOCK, {}, "shanghai", _ov(key=2, a=0, b=1, c=3, d=4), "rejected"))
    C.append(("lock.collides-first", MAIN_LOCK, {}, "shanghai", _ov(key=0, a=0, b=1, c=3, d=4), "rejected"))
    # modules: the protected function lives in a module initialised after the main module's variable
    C.append(("module.ok", MAIN_MOD, {"lib.vy": LIB}, "shanghai", _ov(key=5, p=0, x=1, y=2), "honoured"))
    C.append(("module.lock-collides-with-earlier-variable", MAIN_MOD, {"lib.vy": LIB}, "shanghai", _ov(key=0, p=0, x=1, y=2), "rejected"))
    C.append(("module.lock-collides-with-module-variable", MAIN_MOD, {"lib.vy": LIB}, "shanghai", _ov(key=2, p=0, x=1, y=2), "rejected"))
    C.append(("module.vars-collide", MAIN_MOD, {"lib.vy": LIB}, "shanghai", _ov(key=5, p=1, x=1, y=2), "rejected"))
    return C


def _compile_with_override(src, files, evm, override, cfg="L-gas"):
    import vyper
    from pathlib import Path
    from vyper.compiler.input_bundle import FilesystemInputBundle
    from vverif.sem.templates import settings_for

    with tempfile.TemporaryDirectory(prefix="vverif_layout_") as d:
        for fn, txt in files.items():
            with open(os.path.join(d, fn), "w") as f:
                f.write(txt)
        import json
        from pathlib import PurePath
        from vyper.compiler.input_bundle import JSONInput

        bundle = FilesystemInputBundle([Path(d)])
        pth = PurePath("<override>")
        ov = JSONInput(data=override, contents=json.dumps(override), source_id=-1, path=pth, resolved_path=pth)
        return vyper.compile_code(src, output_formats=["layout", "bytecode_runtime"], settings=settings_for(cfg, evm), input_bundle=bundle, storage_layout_override=ov)


def job_overrides(lo, hi, scale=1):
    from vyper.exceptions import VyperException

    obs = []
    for (name, src, files, evm, ov, expected) in override_cases()[lo:hi]:
        replay = {"kind": "override", "name": name}
        try:
            out = _compile_with_override(src, files, evm, ov)
            got = "accepted"
            rep = out["layout"].get("storage_layout", {})
        except VyperException as e:
            got = "rejected:" + type(e).__name__
            rep = None
        except Exception as e:  # internal error: neither honoured nor a user-facing rejection
            got = "crash:" + type(e).__name__
            rep = None
        if expected == "rejected":
            fact(obs, f"override[{name}]:rejected", got.startswith("rejected"), replay=replay, note=got)
        else:
            ok = got == "accepted" and rep == ov
            fact(obs, f"override[{name}]:accepted-and-reported-layout-equals-override", ok, replay=replay, note=got if got != "accepted" else str(rep)[:200])
    return number(obs)


def replay_override(o):
    return {"reproduced": True, "detail": "compile-time decision, deterministic: " + (o.get("note") or "")}


REPLAY = {"override": replay_override, "allocator": lambda o: {"reproduced": None, "detail": "model: " + str(o.get("model"))}}
