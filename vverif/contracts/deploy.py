"""C13 — deployment installs exactly the runtime code plus the constructor's immutables (template route).

   deploy      for all constructor argument bytes (any length), call values and prior state: running the `bytecode` output
               (init code ++ arguments) returns exactly `bytecode_runtime` ++ immutables-as-assigned (reference semantics of
               __init__), with the constructor's storage effects; it fails iff the reference semantics fails
               (value to a non-payable constructor, non-canonical argument, a revert in __init__)
   runtime     the deployed run-time code reads the immutables back from its data section: covered by the reference
               semantics of the run-time functions (C01 contract `job_src`) with the data section symbolic
   blueprint   running `blueprint_bytecode` as init code returns exactly 0xFE7100 ++ `bytecode` (ERC-5202 preamble)
"""
import z3

from vverif.contracts import relational as R
from vverif.jobutil import discharge, fact, number
from vverif.sem import bytecode as BC
from vverif.sem import machine as Mx
from vverif.sem import templates as T
from vverif.sem.machine import BV
from vverif.smt import feasible, prove

FUNCS = [
    "vyper.compiler.phases:CompilerData.bytecode", "vyper.compiler.phases:CompilerData.bytecode_runtime", "vyper.compiler.phases:CompilerData.blueprint_bytecode",
    "vyper.codegen.module:generate_ir_for_module", "vyper.ir.compile_ir:_runtime_code_offsets", "vyper.ir.compile_ir:compile_to_assembly",
    "vyper.codegen_venom.module:generate_deploy_venom" if False else "vyper.codegen_venom.module:generate_runtime_venom",
    "vyper.venom.memory_allocator:MemoryAllocator.reset", "vyper.evm.assembler.core:assembly_to_evm",
]

PRE = """
A: immutable(uint256)
B: immutable(int128)
s: uint256

"""


def _src(ctor_params, ctor_body, extra="", imm=PRE, deco="@deploy"):
    body = "".join("    " + l + "\n" for l in ctor_body.split("\n"))
    return imm + extra + f"{deco}\ndef __init__({ctor_params}):\n{body}\n@external\ndef get(x: uint256) -> uint256:\n    return (A ^ x) ^ convert(B, uint256) ^ self.s\n"


HELPER = """
@internal
def helper(n: uint256) -> uint256:
    t: uint256[4] = [n, n ^ 1, n ^ 2, n ^ 3]
    acc: uint256 = 0
    for i: uint256 in range(4):
        acc = acc ^ (t[i] << i)
    return acc

"""


def family():
    F = {}
    F["two-immutables"] = _src("v: uint256, w: int128", "A = v\nB = w\nself.s = v ^ 5")
    F["no-args"] = _src("", "A = 7\nB = -3\nself.s = 1")
    F["payable"] = _src("v: uint256", "A = v ^ msg.value\nB = 1\nself.s = msg.value", deco="@deploy\n@payable")
    F["bool-address-args"] = ("OWNER: immutable(address)\nFLAG: immutable(bool)\n\n@deploy\ndef __init__(o: address, f: bool, k: uint8):\n    OWNER = o\n    FLAG = f\n\n"
                              "@external\ndef get() -> address:\n    return OWNER if FLAG else empty(address)\n")
    F["branch"] = _src("v: uint256", "assert v != 3\nA = v if v > 10 else 0\nB = 1 if v > 10 else -1\nif v == 4:\n    self.s = 9")
    F["internal-call-after-assignment"] = _src("v: uint256", "A = v\nt: uint256 = self.helper(v) ^ self.helper(v ^ 7)\nB = 5\nself.s = t", extra=HELPER)
    F["early-return"] = _src("v: uint256", "A = v\nB = 2\nif v == 0:\n    return\nself.s = v")
    F["static-array-immutable"] = ("ARR: immutable(uint256[3])\n\n@deploy\ndef __init__(v: uint256[3]):\n    ARR = v\n\n@external\ndef get(i: uint256) -> uint256:\n    return ARR[i]\n")
    F["no-constructor"] = "s: uint256\n\n@external\ndef get() -> uint256:\n    return self.s\n"
    F["storage-only"] = "s: uint256\nt: uint256[2]\n\n@deploy\ndef __init__(v: uint256):\n    self.s = v\n    self.t[1] = v ^ 1\n\n@external\ndef get() -> uint256:\n    return self.s\n"
    return F


def job_deploy(tid, src, cfg, evm="cancun", scale=1):
    import vyper
    from vverif import spec_source as SS
    from vyper.compiler.phases import CompilerData

    obs = []
    timeout = 30000 * scale
    replay = {"kind": "deploy", "tid": tid, "src": src, "cfg": cfg, "evm": evm}
    settings = T.settings_for(cfg, evm)
    out = vyper.compile_code(src, output_formats=["bytecode", "bytecode_runtime", "layout", "blueprint_bytecode"], settings=settings)
    init = bytes.fromhex(out["bytecode"][2:])
    runtime = bytes.fromhex(out["bytecode_runtime"][2:])
    from vyper.compiler.settings import anchor_settings

    cd = CompilerData(src, settings=settings)
    with anchor_settings(settings):
        mod_t = cd.annotated_vyper_module._metadata["type"]
    imm_len = mod_t.immutable_section_bytes
    imm_types = {}
    for n in cd.annotated_vyper_module.body:
        if type(n).__name__ == "VariableDecl" and n.target.id in (out["layout"].get("code_layout") or {}):
            imm_types[n.target.id] = n._metadata["type"]
    env = Mx.Env()
    env.code_tail = z3.Array("ctor_args", Mx.W, Mx.B8)
    env.code_tail_len = z3.BitVec("ctor_args_len", 256)
    env.assumptions.append(z3.ULT(env.code_tail_len, BV(2**32)))
    try:
        spec = SS.Interp(src, settings, env).run_constructor(runtime, imm_len, imm_types)
    except SS.Unsupported as e:
        obs.append({"clause": "spec", "status": "unknown", "backend": "engine", "seconds": 0, "model": None, "note": "outside the reference semantics: " + str(e), "replay": replay})
        return number(obs)
    try:
        w0 = env.initial_world().assume(env.calldatasize == 0)  # a creation has no calldata; arguments follow the init code
        outs = BC.run(init, env, world=w0, evm_version=evm, max_paths=2000, max_steps=60000)
    except Mx.Unsupported as e:
        obs.append({"clause": "denote", "status": "unknown", "backend": "engine", "seconds": 0, "model": None, "note": "outside the bytecode denotation: " + str(e), "replay": replay})
        return number(obs)
    hyps = list(env.assumptions) + [env.calldatasize == 0]
    defs = []
    for s in spec:
        for d in s.defs:
            if not any(d is x for x in defs):
                defs.append(d)
    idx = z3.BitVec("idx!", 256)
    r = prove(z3.Or(*[s.pc for s in spec]), timeout_ms=timeout)
    if r["status"] != "proved":
        obs.append({"clause": "spec-total", "status": "unknown", "backend": "engine", "seconds": r["seconds"], "model": None, "note": "reference semantics not total", "replay": replay})
        return number(obs)
    discharge(obs, "paths-exhaustive", z3.Or(*[o.pc for o in outs]), hyps=hyps, timeout_ms=timeout, replay=replay)
    terms = {"callvalue": env.callvalue, "ctor_args_len": env.code_tail_len}
    for i in range(4):
        terms[f"argw_{i}"] = z3.Concat(*[z3.Select(env.code_tail, BV(32 * i + k)) for k in range(32)])
    for o in outs:
        cands = []
        for s in spec:
            if R.success(o) != R.success(s):
                continue
            if not feasible(z3.And(o.pc, s.pc), 1500):
                continue
            cands.append(z3.And(s.pc, R.same_outcome(o, s, idx, None)))
        goal = z3.Implies(o.pc, z3.Or(*cands) if cands else z3.BoolVal(False))
        discharge(obs, f"deployment-agrees-with-source[{o.status}]", goal, hyps=hyps + defs, timeout_ms=timeout, replay=replay, eval_terms=terms)
    fact(obs, "some-deployment-succeeds", any(o.status == "return" for o in outs), replay=dict(replay, static=True))
    # blueprint output: concrete execution of the preamble
    bp = bytes.fromhex(out["blueprint_bytecode"][2:])
    env2 = Mx.Env(tag="bp")
    o2 = BC.run(bp, env2, world=env2.initial_world().assume(env2.calldatasize == 0), evm_version=evm)
    ok = False
    got = None
    if len(o2) == 1 and o2[0].status == "return":
        n = Mx.conc(o2[0].data["len"])
        if n is not None and n < 100000:
            bs = []
            for i in range(n):
                b = Mx.conc(Mx.data_byte(o2[0].data, i))
                bs.append(b)
            if None not in bs:
                got = bytes(bs)
                ok = got == bytes.fromhex("fe7100") + init
    fact(obs, "blueprint-deploys-ERC5202-preamble-plus-initcode", ok, replay=dict(replay, static=True), note=f"returned {len(got) if got is not None else '?'} bytes, expected {3 + len(init)}")
    return number(obs)


def replay_deploy(o):
    """native replay: deploy the `bytecode` output with the argument bytes of the counter-model in pyrevm"""
    import os

    r, m = o["replay"], o.get("model") or {}
    if r.get("static"):
        return {"reproduced": True, "detail": "concrete fact about compiler outputs: " + (o.get("note") or o["clause"])}
    n = min(int(m.get("ctor_args_len", 0)), 256)
    args = b"".join(int(m.get(f"argw_{i}", 0)).to_bytes(32, "big") for i in range(4))[:n]
    cwd = os.getcwd()
    os.chdir(os.environ.get("VVERIF_REPO", "/repo"))
    try:
        import vyper
        from eth_keys import keys
        from tests.evm_backends.revm_env import RevmEnv

        out = vyper.compile_code(r["src"], output_formats=["bytecode", "bytecode_runtime"], settings=T.settings_for(r["cfg"], r["evm"]))
        env = RevmEnv(gas_limit=10**9, account_keys=[keys.PrivateKey(b"\\x01" * 32)], tracing=False, block_number=1, evm_version=r["evm"], exporter=None)
        env.set_balance(env.deployer, 10**30)
        try:
            addr = env._deploy(bytes.fromhex(out["bytecode"][2:]) + args, value=int(m.get("callvalue", 0)))
            code = env.get_code(addr)
            res = ("deployed", bytes(code).hex()[-160:])
        except Exception as e:
            res = ("failed", repr(e)[:100])
    except Exception as e:
        return {"reproduced": None, "detail": f"native harness failed: {e!r}"}
    finally:
        os.chdir(cwd)
    return {"reproduced": None, "detail": f"native deployment with args=0x{args.hex()} value={m.get('callvalue', 0)} -> {res} (compare with the constructor's source meaning; failed clause {o['clause']})"}


REPLAY = {"deploy": replay_deploy}


def job_offsets(scale=1):
    """PyVC contract (all inputs) on ir/compile_ir.py:_runtime_code_offsets:
         requires ctor_mem_size >= 0, runtime_codelen >= 0
         ensures  0 <= start, end - start == runtime_codelen, end >= ctor_mem_size
       hence the immutables section [end, end + n) lies behind the constructor's memory and behind the copied code"""
    from vyper.ir import compile_ir as CI
    from vverif.pyvc import Engine

    obs = []
    m, n = z3.Ints("ctor_mem_size runtime_codelen")
    pre = z3.And(m >= 0, n >= 0)
    eng = Engine(asserts="prove")
    out = eng.run(CI._runtime_code_offsets, [m, n], pre=pre)
    for (clause, f) in eng.obligations:
        discharge(obs, "_runtime_code_offsets:" + clause, f, replay={"kind": "deploy", "static": True})
    discharge(obs, "_runtime_code_offsets:paths-exhaustive", z3.Implies(pre, z3.Or(*[s.pc for s, _ in out.returns])), replay={"kind": "deploy", "static": True})
    for s_, r in out.returns:
        start, end = r[0], r[1]
        discharge(obs, "_runtime_code_offsets:code-fits-behind-no-constructor-memory-is-trampled", z3.Implies(s_.pc, z3.And(start >= 0, end - start == n, end >= m, end >= n)), replay={"kind": "deploy", "static": True})
    return number(obs)
