"""Function-level GenVC contracts: the real legacy generators are called on symbolic-leaf IR operands, the emitted IR term is
denoted (memory-free subset + load/store arrays), and the contract is discharged for all run-time words.

   core.get_element_ptr(arr, ix)   (C04 / C10)   array x element size x count x index type x location:
         requires  ix in range of its type, stored length <= count (A7), arr < 2**64
         ensures   no revert  <=>  0 <= ix < length (ix as a mathematical integer, so negative signed indices revert)
                   and then  ptr == arr + overhead + ix * element_size  and  ptr + element_size <= arr + size_of(array)
   core.clamp_basetype(x)          (C05)          for all 64 integer types, 32 bytesM, address, bool:
         ensures   no revert  <=>  x is the canonical word of its type;  the value is x
   function_definitions.common.get_nonreentrant_lock   (C09)   cancun / shanghai / paris x view / nonpayable / payable:
         acquire reverts iff locked; sets locked (non-view) and writes nothing else; release unlocks, writes nothing else;
         acquire after release succeeds; locked != unlocked
"""
import types as pytypes

import z3

from vverif.jobutil import discharge, fact, number

M = 2**256
W = 300


def BV(v):
    return z3.BitVecVal(v % M, 256)


def b2v(b):
    return z3.If(b, BV(1), BV(0))


class St:
    def __init__(self):
        self.arr = {k: z3.Array(k, z3.BitVecSort(256), z3.BitVecSort(256)) for k in ("mload", "sload", "tload", "calldataload")}


class NotDenotable(Exception):
    pass


def denote(node, env, st):
    """(value, ok): value of the term and the condition under which no assertion on the way fails"""
    v = node.value
    a = node.args
    T = z3.BoolVal(True)
    if isinstance(v, int):
        return BV(v), T
    if v in env and not a:
        return env[v], T
    if v == "seq":
        ok = T
        val = None
        for x in a:
            val, o = denote(x, env, st)
            ok = z3.And(ok, o)
        return val, ok
    if v == "with":
        val, o1 = denote(a[1], env, st)
        e2 = dict(env)
        e2[a[0].value] = val
        r, o2 = denote(a[2], e2, st)
        return r, z3.And(o1, o2)
    if v == "assert":
        c, o = denote(a[0], env, st)
        return None, z3.And(o, c != 0)
    if v in ("pass", "unique_symbol"):
        return None, T
    vals = []
    ok = T
    for x in a:
        xv, o = denote(x, env, st)
        vals.append(xv)
        ok = z3.And(ok, o)
    if v in ("mload", "sload", "tload", "calldataload"):
        return z3.Select(st.arr[v], vals[0]), ok
    if v in ("sstore", "tstore", "mstore"):
        k = {"sstore": "sload", "tstore": "tload", "mstore": "mload"}[v]
        st.arr[k] = z3.Store(st.arr[k], vals[0], vals[1])
        return None, ok

    def signext(b, x):
        bb = z3.simplify(b).as_long()
        if bb >= 31:
            return x
        k = 8 * (bb + 1)
        return z3.SignExt(256 - k, z3.Extract(k - 1, 0, x))

    ops = {"add": lambda x, y: x + y, "sub": lambda x, y: x - y, "mul": lambda x, y: x * y,
           "lt": lambda x, y: b2v(z3.ULT(x, y)), "gt": lambda x, y: b2v(z3.UGT(x, y)), "le": lambda x, y: b2v(z3.ULE(x, y)), "ge": lambda x, y: b2v(z3.UGE(x, y)),
           "slt": lambda x, y: b2v(x < y), "sgt": lambda x, y: b2v(x > y), "sle": lambda x, y: b2v(x <= y), "sge": lambda x, y: b2v(x >= y),
           "eq": lambda x, y: b2v(x == y), "ne": lambda x, y: b2v(x != y), "iszero": lambda x: b2v(x == 0),
           "shr": lambda s, x: z3.LShR(x, s), "shl": lambda s, x: x << s, "sar": lambda s, x: x >> s,
           "and": lambda x, y: x & y, "or": lambda x, y: x | y, "xor": lambda x, y: x ^ y, "not": lambda x: ~x, "signextend": signext}
    if v not in ops:
        raise NotDenotable(str(v))
    return ops[v](*vals), ok


FUNCS_PTR = ["vyper.codegen.core:get_element_ptr", "vyper.codegen.core:_get_element_ptr_array", "vyper.codegen.core:clamp_basetype", "vyper.codegen.core:int_clamp", "vyper.codegen.core:bytes_clamp"]
FUNCS_LOCK = ["vyper.codegen.function_definitions.common:get_nonreentrant_lock"]


def _settings(evm="cancun"):
    from vyper.compiler.settings import OptimizationLevel, Settings

    return Settings(optimize=OptimizationLevel.GAS, evm_version=evm)


def job_element_ptr(locname, scale=1):
    from vyper.codegen import core
    from vyper.codegen.ir_node import IRnode
    from vyper.compiler.settings import anchor_settings
    from vyper.evm.address_space import CALLDATA, MEMORY, STORAGE, TRANSIENT
    from vyper.semantics.data_locations import DataLocation
    from vyper.semantics.types import DArrayT, IntegerT, SArrayT
    from vyper.semantics.types.shortcuts import UINT256_T

    obs = []
    timeout = 20000 * scale
    loc, dloc = {"memory": (MEMORY, DataLocation.MEMORY), "storage": (STORAGE, DataLocation.STORAGE), "transient": (TRANSIENT, DataLocation.TRANSIENT), "calldata": (CALLDATA, DataLocation.CALLDATA)}[locname]
    elem_types = [UINT256_T, SArrayT(UINT256_T, 2), SArrayT(UINT256_T, 7)]
    idx_types = [UINT256_T, IntegerT(True, 128), IntegerT(True, 256), IntegerT(False, 8)]
    with anchor_settings(_settings()):
        for et in elem_types:
            for count in (1, 5, 1000):
                for dyn in (False, True):
                    if dyn and loc is CALLDATA:
                        continue
                    at = DArrayT(et, count) if dyn else SArrayT(et, count)
                    for it in idx_types:
                        arr = IRnode("arr", typ=at, location=loc)
                        ix = IRnode("ix", typ=it)
                        name = f"{'DynArray' if dyn else 'SArray'}[{et},{count}];ix:{it}"
                        try:
                            ptr_ir = core.get_element_ptr(arr, ix)
                            A, I = z3.BitVecs("arr ix", 256)
                            st = St()
                            ptr, ok = denote(ptr_ir, {"arr": A, "ix": I}, st)
                        except NotDenotable as e:
                            obs.append({"clause": f"get_element_ptr[{name}]", "status": "unknown", "backend": "engine", "seconds": 0, "model": None, "note": f"term outside the denotation: {e}"})
                            continue
                        esz = et.get_size_in(dloc)
                        tsz = at.get_size_in(dloc)
                        ovh = loc.word_scale if dyn else 0
                        ld = {MEMORY: "mload", STORAGE: "sload", TRANSIENT: "tload"}.get(loc)
                        ln = z3.Select(St().arr[ld], A) if dyn else BV(count)
                        lo_, hi_ = it.int_bounds
                        ixi = z3.SignExt(W - 256, I) if it.is_signed else z3.ZeroExt(W - 256, I)
                        pre = z3.And(ixi >= lo_, ixi <= hi_, z3.ULT(A, 2**64), z3.ULE(ln, count))
                        lni = z3.ZeroExt(W - 256, ln)
                        Ai = z3.ZeroExt(W - 256, A)
                        pi = z3.ZeroExt(W - 256, ptr)
                        inb = z3.And(ixi >= 0, ixi < lni)
                        post = z3.And(ok == inb, z3.Implies(ok, z3.And(pi == Ai + ovh + ixi * esz, pi + esz <= Ai + tsz)))
                        discharge(obs, f"get_element_ptr[{name}]:ok-iff-in-bounds-and-pointer-inside-object", z3.Implies(pre, post), timeout_ms=timeout, replay={"kind": "genvck"})
    return number(obs)


def job_clamps(scale=1):
    from vyper.codegen import core
    from vyper.codegen.ir_node import IRnode
    from vyper.compiler.settings import anchor_settings
    from vyper.semantics.types import AddressT, BoolT, BytesM_T, IntegerT

    obs = []
    prim = [IntegerT(s, b) for s in (False, True) for b in range(8, 257, 8)] + [BytesM_T(m) for m in range(1, 33)] + [AddressT(), BoolT()]
    with anchor_settings(_settings()):
        for t in prim:
            x = IRnode("x", typ=t)
            ir = core.clamp_basetype(x)
            X = z3.BitVec("x", 256)
            try:
                val, ok = denote(ir, {"x": X}, St())
            except NotDenotable as e:
                obs.append({"clause": f"clamp_basetype[{t}]", "status": "unknown", "backend": "engine", "seconds": 0, "model": None, "note": str(e)})
                continue
            if isinstance(t, IntegerT):
                lo_, hi_ = t.int_bounds
                xi = z3.SignExt(W - 256, X) if t.is_signed else z3.ZeroExt(W - 256, X)
                canon = z3.And(xi >= lo_, xi <= hi_)
            elif isinstance(t, BytesM_T):
                canon = (z3.Extract(255 - 8 * t.m, 0, X) == 0) if t.m < 32 else z3.BoolVal(True)
            elif isinstance(t, AddressT):
                canon = z3.ULT(X, 2**160)
            else:
                canon = z3.ULE(X, 1)
            discharge(obs, f"clamp_basetype[{t}]:ok-iff-canonical-and-value-unchanged", z3.And(ok == canon, val == X), replay={"kind": "genvck"})
    return number(obs)


def job_lock(evm, scale=1):
    from vyper.codegen.function_definitions.common import get_nonreentrant_lock
    from vyper.codegen.ir_node import IRnode
    from vyper.compiler.settings import anchor_settings
    from vyper.semantics.analysis.base import VarOffset
    from vyper.semantics.types.function import StateMutability

    obs = []
    with anchor_settings(_settings(evm)):
        for mut in (StateMutability.VIEW, StateMutability.NONPAYABLE, StateMutability.PAYABLE):
            f = pytypes.SimpleNamespace(nonreentrant=True, mutability=mut, reentrancy_key_position=VarOffset(0))
            pre_l, post_l = get_nonreentrant_lock(f)
            pre_ir = IRnode.from_list(["seq"] + pre_l)
            post_ir = IRnode.from_list(["seq"] + post_l)
            key = "tload" if evm in ("cancun", "prague") else "sload"
            st = St()
            init = dict(st.arr)
            _, ok1 = denote(pre_ir, {}, st)
            mid = dict(st.arr)
            s0 = z3.Select(init[key], BV(0))
            j = z3.BitVec("j", 256)
            locked = z3.BitVec("LOCKED", 256)
            tag = f"{evm};{mut.value}"
            if mut == StateMutability.VIEW:
                discharge(obs, f"lock[{tag}]:view-acquire-writes-nothing", z3.And(*[z3.Select(mid[k], j) == z3.Select(init[k], j) for k in init]), replay={"kind": "genvck"})
                # and it fails exactly when a mutating acquisition from the same state would fail (same notion of "locked")
                fm = pytypes.SimpleNamespace(nonreentrant=True, mutability=StateMutability.NONPAYABLE, reentrancy_key_position=VarOffset(0))
                pre_m, _ = get_nonreentrant_lock(fm)
                stm = St()
                stm.arr = dict(init)
                _, okm = denote(IRnode.from_list(["seq"] + pre_m), {}, stm)
                discharge(obs, f"lock[{tag}]:view-observes-the-same-lock", ok1 == okm, replay={"kind": "genvck"})
                continue
            after_acq = z3.Select(mid[key], BV(0))
            discharge(obs, f"lock[{tag}]:acquire-writes-only-the-key", z3.And(*[z3.Select(mid[k], j) == z3.Select(init[k], j) for k in init if k != key],
                      z3.Implies(j != 0, z3.Select(mid[key], j) == z3.Select(init[key], j))), replay={"kind": "genvck"})
            # a second acquisition from the state after the first one fails (the value stored is the locked value)
            st2 = St()
            st2.arr = dict(mid)
            _, ok_again = denote(pre_ir, {}, st2)
            discharge(obs, f"lock[{tag}]:acquire-twice-fails", z3.Implies(ok1, z3.Not(ok_again)), replay={"kind": "genvck"})
            _, ok2 = denote(post_ir, {}, st)
            fin = dict(st.arr)
            discharge(obs, f"lock[{tag}]:release-never-fails-and-writes-only-the-key", z3.And(ok2, *[z3.Select(fin[k], j) == z3.Select(init[k], j) for k in init if k != key],
                      z3.Implies(j != 0, z3.Select(fin[key], j) == z3.Select(init[key], j))), replay={"kind": "genvck"})
            st3 = St()
            st3.arr = dict(fin)
            _, ok3 = denote(pre_ir, {}, st3)
            discharge(obs, f"lock[{tag}]:acquire-after-release-succeeds", z3.Implies(ok1, ok3), replay={"kind": "genvck"})
            # a never-written slot (0) counts as unlocked
            st4 = St()
            st4.arr[key] = z3.K(z3.BitVecSort(256), BV(0))
            _, ok4 = denote(pre_ir, {}, st4)
            discharge(obs, f"lock[{tag}]:fresh-contract-is-unlocked", ok4, replay={"kind": "genvck"})
    return number(obs)


REPLAY = {"genvck": lambda o: {"reproduced": None, "detail": "solver model over the operand words: " + str(o.get("model"))[:400]}}
