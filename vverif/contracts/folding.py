"""C17 — compile-time evaluation agrees with run-time evaluation.

Contract (template route): for an expression E over literal operands, the bytecode of `def f() -> T: return E` (where the front
end and the optimisers are free to evaluate E at compile time) returns the value the *run-time rules* give to E - the
reference semantics is run with the front end's folded values ignored (Interp.use_folded = False).  "At most one side
rejects": when the compiler rejects the program, or the run-time rules revert, there is no obligation; when both produce a
value the values must be equal.  Families are generated per numeric type over boundary operands."""
import itertools

import z3

from vverif.contracts import relational as R
from vverif.jobutil import discharge, fact, number
from vverif.sem import bytecode as BC
from vverif.sem import machine as Mx
from vverif.sem import templates as T
from vverif.sem.machine import BV
from vverif.smt import feasible, prove

FUNCS = [
    "vyper.semantics.analysis.constant_folding:ConstantFolder.visit_BinOp", "vyper.semantics.analysis.constant_folding:ConstantFolder.visit_UnaryOp",
    "vyper.semantics.analysis.constant_folding:ConstantFolder.visit_Compare", "vyper.semantics.analysis.constant_folding:ConstantFolder.visit_BoolOp",
    "vyper.semantics.analysis.constant_folding:ConstantFolder.visit_Call", "vyper.builtins._convert:_literal_int", "vyper.builtins._convert:_literal_decimal",
    "vyper.builtins._convert:_signextend", "vyper.venom.passes.sccp.eval:eval_arith", "vyper.ir.optimizer:_optimize_binop",
]


def _vals(t):
    if t == "decimal":
        return ["-18707220957835557353007165858768422651595.9365500928", "-1.5", "-0.0000000001", "0.0", "0.0000000001", "2.5", "18707220957835557353007165858768422651595.9365500927"]
    signed = t.startswith("int")
    bits = int(t[4:] if not signed else t[3:])
    hi = 2 ** (bits - 1) - 1 if signed else 2**bits - 1
    lo = -(2 ** (bits - 1)) if signed else 0
    vs = {lo, lo + 1, 0, 1, 2, 3, hi - 1, hi}
    if signed:
        vs |= {-1, -2, -3}
    return [str(v) if v >= 0 else f"({v})" for v in sorted(vs)]


def expressions(quick=True):
    """-> list of (id, return type, expression text)"""
    E = []
    types = ["uint8", "int8", "int128", "uint256", "int256"] if quick else ["uint8", "int8", "uint16", "int16", "int128", "uint128", "int136", "uint248", "uint256", "int256"]
    for t in types:
        vs = _vals(t)
        pairs = list(itertools.product(vs, vs))
        for op, nm in (("+", "add"), ("-", "sub"), ("*", "mul"), ("//", "fdiv"), ("%", "mod")):
            for a, b in pairs:
                E.append((f"{t}.{nm}[{a},{b}]", t, f"{a} {op} {b}"))
        for op, nm in (("<", "lt"), ("<=", "le"), ("==", "eq"), ("!=", "ne"), (">=", "ge"), (">", "gt")):
            for a, b in pairs[:: 3 if quick else 1]:
                E.append((f"{t}.{nm}[{a},{b}]", "bool", f"convert({a}, {t}) {op} convert({b}, {t})"))
        for fn in ("min", "max", "unsafe_add", "unsafe_sub", "unsafe_mul", "unsafe_div"):
            for a, b in pairs[:: 2 if quick else 1]:
                E.append((f"{t}.{fn}[{a},{b}]", t, f"{fn}(convert({a}, {t}), convert({b}, {t}))"))
        for a in vs:
            for e in ("2", "3", "7"):
                E.append((f"{t}.pow[{a},{e}]", t, f"{a} ** {e}"))
            if t.startswith("int"):
                E.append((f"{t}.neg[{a}]", t, f"-{a}"))
        if t in ("uint256",):
            for a, b in pairs[::2]:
                for op, nm in (("&", "and"), ("|", "or"), ("^", "xor")):
                    E.append((f"{t}.{nm}[{a},{b}]", t, f"{a} {op} {b}"))
            for a in vs:
                E.append((f"{t}.not[{a}]", t, f"~{a}"))
                for sh in ("0", "1", "255", "256"):
                    E.append((f"{t}.shl[{a},{sh}]", t, f"{a} << {sh}"))
                    E.append((f"{t}.shr[{a},{sh}]", t, f"{a} >> {sh}"))
            for a, b, c in itertools.product(vs[:4] + vs[-2:], vs[:3] + vs[-1:], ["0", "1", "7", vs[-1]]):
                E.append((f"addmod[{a},{b},{c}]", t, f"uint256_addmod({a}, {b}, {c})"))
                E.append((f"mulmod[{a},{b},{c}]", t, f"uint256_mulmod({a}, {b}, {c})"))
        if t == "int256":
            for a in vs:
                E.append((f"{t}.abs[{a}]", t, f"abs({a})"))
                for sh in ("0", "1", "255", "256"):
                    E.append((f"{t}.shr[{a},{sh}]", t, f"{a} >> {sh}"))
    # decimals
    dv = _vals("decimal")
    for a, b in itertools.product(dv, dv):
        for op, nm in (("+", "add"), ("-", "sub"), ("*", "mul"), ("/", "div")):
            E.append((f"decimal.{nm}[{a},{b}]", "decimal", f"{a} {op} {b}"))
    for a in dv:
        E.append((f"decimal.floor[{a}]", "int256", f"floor({a})"))
        E.append((f"decimal.ceil[{a}]", "int256", f"ceil({a})"))
    # booleans
    for a, b in itertools.product(("True", "False"), repeat=2):
        E.append((f"bool.and[{a},{b}]", "bool", f"{a} and {b}"))
        E.append((f"bool.or[{a},{b}]", "bool", f"{a} or {b}"))
    E.append(("bool.not", "bool", "not True"))
    # conversions of literals
    conv = [("255", "uint8", "int16"), ("255", "uint8", "int8"), ("(-1)", "int8", "uint256"), ("(-1)", "int8", "int256"), ("128", "uint256", "int8"), ("(-129)", "int256", "int8"),
            ("1", "uint8", "bool"), ("2", "uint256", "bool"), ("True", "bool", "uint8"), ("1.5", "decimal", "int8"), ("(-1.5)", "decimal", "int8"), ("3", "int8", "decimal"),
            ("0xff", "bytes1", "int8"), ("0xff", "bytes1", "int16"), ("0xff", "bytes1", "uint8"), ("0x8000", "bytes2", "int32"), ("0x8000", "bytes2", "uint16"),
            ("0x00000000000000000000000000000000000000ff", "bytes20", "uint256"), ("255", "uint8", "bytes1"), ("(-1)", "int8", "bytes1"), ("(-1)", "int16", "bytes32"),
            ("0x1234", "bytes2", "bytes4"), ("0x12340000", "bytes4", "bytes2")]
    for lit, tin, tout in conv:
        E.append((f"convert[{lit}:{tin}->{tout}]", tout, f"convert({lit}, {tout})" if not (tin.startswith(("uint", "int")) and tin != "uint256" and lit.lstrip("(-").rstrip(")").isdigit() and False) else f"convert(convert({lit}, {tin}), {tout})"))
    for lit, n in (('x"ff"', 1), ('x"8000"', 2), ('x"7fff"', 2), ('b"\\xff"', 1), ('x"ffffffff"', 4), ('x"80"', 1)):
        for tout in ("int8", "int16", "int32", "uint16", "int256", "uint256"):
            E.append((f"convert[{lit}->{tout}]", tout, f"convert({lit}, {tout})"))
    # membership in literal lists (incl. hex literals whose letter case differs)
    E.append(("in.int[2]", "bool", "2 in [1, 2, 3]"))
    E.append(("in.int[4]", "bool", "4 in [1, 2, 3]"))
    E.append(("notin.int[4]", "bool", "4 not in [1, 2, 3]"))
    E.append(("in.bytes1.case", "bool", "0xAB in [0xab, 0xcd]"))
    E.append(("in.bytes1.same", "bool", "0xab in [0xab, 0xcd]"))
    E.append(("eq.bytes1.case", "bool", "0xAB == 0xab"))
    # misc foldable builtins
    for t in ("uint8", "int8", "int256", "uint256", "decimal"):
        E.append((f"min_value[{t}]", t, f"min_value({t})"))
        E.append((f"max_value[{t}]", t, f"max_value({t})"))
    E.append(("epsilon", "decimal", "epsilon(decimal)"))
    E.append(("len.bytes", "uint256", 'len(b"hello")'))
    E.append(("powmod[2,256]", "uint256", "pow_mod256(2, 256)"))
    E.append(("powmod[3,5]", "uint256", "pow_mod256(3, 5)"))
    return E


def job_fold(lo, hi, cfg, quick=True, evm="cancun", scale=1):
    import warnings
    from vverif import spec_source as SS
    from vyper.exceptions import VyperException

    warnings.simplefilter("ignore")
    obs = []
    timeout = 20000 * scale
    n_rejected = n_both = n_rt_reverts = 0
    for (eid, rt, expr) in expressions(quick)[lo:hi]:
        src = f"@external\ndef f() -> {rt}:\n    return {expr}\n"
        replay = {"kind": "fold", "eid": eid, "src": src, "cfg": cfg, "evm": evm}
        try:
            code, _ = T.compile_runtime(src, cfg, evm)
        except VyperException:
            n_rejected += 1  # the compiler rejects: no obligation ("at most one of them rejects")
            continue
        env = Mx.Env()
        try:
            interp = SS.Interp(src, T.settings_for(cfg, evm), env)
            interp.use_folded = False
            spec = interp.run_contract()
        except SS.Unsupported as e:
            obs.append({"clause": f"fold[{eid}]:spec", "status": "unknown", "backend": "engine", "seconds": 0, "model": None, "note": "outside the reference semantics: " + str(e), "replay": replay})
            continue
        try:
            outs = BC.run(code, env, evm_version=evm)
        except Mx.Unsupported as e:
            obs.append({"clause": f"fold[{eid}]:denote", "status": "unknown", "backend": "engine", "seconds": 0, "model": None, "note": str(e), "replay": replay})
            continue
        (mid,) = [int(v, 16) for v in T.compile_runtime(src, cfg, evm)[1].values()]
        call = z3.And(env.calldatasize == 4, T.selector(env) == BV(mid), env.callvalue == 0)
        idx = z3.BitVec("idx!", 256)
        defs = [d for s in spec for d in s.defs]
        checked = False
        for o in outs:
            if not R.success(o) or not feasible(z3.And(o.pc, call), 2000):
                continue
            for s in spec:
                if not R.success(s) or not feasible(z3.And(o.pc, s.pc, call), 2000):
                    continue
                parts = R.outcome_parts(o, s, idx, None, 64)
                goal = z3.And(*[f for _, f in parts]) if parts is not None else z3.BoolVal(False)
                discharge(obs, f"fold[{eid}]:compile-time-value-equals-run-time-value", z3.Implies(z3.And(o.pc, s.pc, call), goal), hyps=defs, timeout_ms=timeout, replay=replay)
                checked = True
        if checked:
            n_both += 1
        else:
            n_rt_reverts += 1
    fact(obs, "expressions-enumerated", True, note=f"{hi - lo} expressions: {n_both} compared, {n_rejected} rejected at compile time, {n_rt_reverts} where one side reverts / rejects")
    return number(obs)


def replay_fold(o):
    r = o["replay"]
    try:
        st, data = T.native_call(r["src"], r["cfg"], bytes.fromhex("26121ff0"), evm_version=r["evm"])
    except Exception as e:
        return {"reproduced": None, "detail": f"native run failed: {e!r}"}
    return {"reproduced": True if st == "return" else None, "detail": f"{r['src']!r} under {r['cfg']} returns 0x{data.hex() if st == 'return' else ''} natively; the run-time rules give a different value (obligation {o['clause']})"}


REPLAY = {"fold": replay_fold}
