"""GenVC contracts on the checked-arithmetic generators of both front ends (C03):

   legacy   vyper/codegen/arithmetic.py      safe_add safe_sub safe_mul safe_div safe_mod safe_pow
   Venom    vyper/codegen_venom/arithmetic.py safe_add safe_sub safe_mul safe_div safe_floordiv safe_mod safe_pow

Contract (for every numeric type T, for all operand words canonical for T):
    the emitted term does not revert  <=>  the operation is defined and the exact result is representable in T
    and then its value is the canonical word of the exact result
The real generator is *called* on symbolic-leaf operands; the emitted term is denoted (sem/irterm.py) and the formula
is discharged for all operand values.  Literal operand shapes are instantiated from the constants the generator
compares `.value` against (DESIGN.md 2.3).
"""
import itertools

import z3

from vverif import spec_evm as S
from vverif.jobutil import discharge, number
from vverif.pyvc import bit_lemmas
from vverif.sem.irterm import BVDom, IntDom, denote_ir, denote_venom_block
from vverif.sem.machine import Unsupported

M, H = S.M, S.H
DEC = 10**10

FUNCS_LEGACY = ["vyper.codegen.arithmetic:" + n for n in ("safe_add", "safe_sub", "safe_mul", "safe_div", "safe_mod", "safe_pow")] + [
    "vyper.codegen.core:clamp_basetype", "vyper.codegen.core:int_clamp", "vyper.codegen.core:clamp", "vyper.codegen.core:clamp2", "vyper.codegen.core:clamp_nonzero",
]
FUNCS_VENOM = ["vyper.codegen_venom.arithmetic:" + n for n in ("safe_add", "safe_sub", "safe_mul", "safe_div", "safe_floordiv", "safe_mod", "safe_pow", "clamp_basetype")]


def mk_type(name):
    from vyper.semantics.types import DecimalT, IntegerT

    if name == "decimal":
        return DecimalT()
    return IntegerT(name.startswith("int"), int(name.lstrip("uint")))


def all_numeric(quick):
    widths = [8, 16, 64, 128, 136, 248, 256] if quick else list(range(8, 257, 8))
    return [f"{p}{b}" for p in ("uint", "int") for b in widths] + ["decimal"]


class Spec:
    """mathematical meaning over z3 Ints: x, y are the *values* (not words)"""

    def __init__(self, typ):
        self.typ = typ
        self.lo, self.hi = typ.int_bounds
        self.signed = typ.is_signed
        self.dec = typ.__class__.__name__ == "DecimalT"

    def value(self, w):  # word (Int in [0,M)) -> mathematical value
        return S.zs(w) if self.signed else w

    def canonical(self, w):
        v = self.value(w)
        return z3.And(w >= 0, w < M, v >= self.lo, v <= self.hi)

    def inr(self, v):
        return z3.And(v >= self.lo, v <= self.hi)

    def exact(self, which, x, y):
        """(defined, exact value)"""
        t = z3.BoolVal(True)
        if which == "add":
            return t, x + y
        if which == "sub":
            return t, x - y
        if which == "mul":
            return t, (S.ztdiv(x * y, z3.IntVal(DEC)) if self.dec else x * y)
        if which in ("div", "floordiv"):
            return y != 0, (S.ztdiv(x * DEC, y) if self.dec else S.ztdiv(x, y))
        if which == "mod":
            return y != 0, S.ztmod(x, y)
        raise KeyError(which)


def py_exact(which, typ, x, y):
    dec = typ.__class__.__name__ == "DecimalT"

    def td(a, b):
        q = abs(a) // abs(b)
        return -q if (a < 0) != (b < 0) else q

    if which == "add":
        return x + y
    if which == "sub":
        return x - y
    if which == "mul":
        return td(x * y, DEC) if dec else x * y
    if which in ("div", "floordiv"):
        return None if y == 0 else (td(x * DEC, y) if dec else td(x, y))
    if which == "mod":
        if y == 0:
            return None
        r = abs(x) % abs(y)
        return -r if x < 0 else r


def sign_cases(X, Y, signed):
    """lemma step: split by the sign of each operand (as words) and hand the solver the value of the signed reading"""
    if not signed:
        return None
    out = []
    for cx in (z3.And(X < H, S.zs(X) == X), z3.And(X >= H, S.zs(X) == X - M)):
        for cy in (z3.And(Y < H, S.zs(Y) == Y), z3.And(Y >= H, S.zs(Y) == Y - M)):
            out.append(z3.And(cx, cy))
    return out


LITERALS = {  # literal operand instances per generator: the constants the generator's code compares .value against, their neighbours, a generic value
    "mul": lambda lo, hi: sorted({lo, lo + 1, -1, 0, 1, 2, 3, hi - 1, hi} & set(range(lo, hi + 1)) | {min(hi, 7)}),
    "div": lambda lo, hi: sorted({lo, lo + 1, -1, 1, 2, 3, hi} & set(range(lo, hi + 1)) | {min(hi, 7)}),
    "add": lambda lo, hi: sorted({lo, -1, 0, 1, hi} & set(range(lo, hi + 1))),
    "sub": lambda lo, hi: sorted({lo, -1, 0, 1, hi} & set(range(lo, hi + 1))),
    "mod": lambda lo, hi: sorted({lo, -1, 1, 2, hi} & set(range(lo, hi + 1))),
}


def _in(v, lo, hi):
    return lo <= v <= hi


def shapes_for(which, typ, quick):
    lo, hi = typ.int_bounds
    lits = [v for v in {lo, -1, 0, 1, 2, hi, min(hi, 7), lo + 1, hi - 1} if lo <= v <= hi]
    if which in ("div", "floordiv", "mod"):
        ylits = [v for v in lits if v != 0]
    else:
        ylits = lits
    out = [("leaf", "leaf")]
    if quick:
        lits = [v for v in lits if v in (lo, -1, 0, 1, hi)]
        ylits = [v for v in ylits if v in (lo, -1, 1, hi)]
    out += [(("lit", v), "leaf") for v in sorted(lits)]
    out += [("leaf", ("lit", v)) for v in sorted(ylits)]
    return out


def job_legacy(which, tname, shape, scale=1):
    from vyper.codegen import arithmetic
    from vyper.codegen.ir_node import IRnode
    from vyper.compiler.settings import OptimizationLevel, Settings, anchor_settings

    typ = mk_type(tname)
    fn = getattr(arithmetic, "safe_" + which)
    dom = BVDom() if which in ("add", "sub") else IntDom()
    sp = Spec(typ)
    obs = []
    timeout = 30000 * scale
    with anchor_settings(Settings(optimize=OptimizationLevel.GAS, evm_version="cancun")):
        ops, env, pre, words = [], {}, [], []
        for nm, sh in zip(("x", "y"), shape):
            if sh == "leaf":
                ops.append(IRnode(nm, typ=typ))
                wsym = z3.Int(nm) if dom.name == "int" else z3.BitVec(nm, 256)
                env[nm] = wsym
                words.append(wsym)
            else:
                ops.append(IRnode(sh[1], typ=typ))
                words.append(dom.const(sh[1]))
        ir = fn(ops[0], ops[1])
        val, ok = denote_ir(ir, env, dom)
    replay = {"kind": "legacy-arith", "which": which, "type": tname, "shape": shape}
    _arith_obligations(obs, which, sp, dom, words, val, ok, timeout, replay)
    return number(obs)


def _arith_obligations(obs, which, sp, dom, words, val, ok, timeout, replay):
    if dom.name == "bv":
        from vverif import spec_vyper as V

        t = V.T("decimal" if sp.dec else (("int" if sp.signed else "uint") + str(sp.typ.bits)))
        X, Y = words
        c = V.binop_contract({"add": "+", "sub": "-"}[which], t, X, Y)
        pre = z3.And(t.canonical(X), t.canonical(Y))
        discharge(obs, "ok-iff-representable", z3.Implies(pre, ok == c["ok"]), timeout_ms=timeout, replay=replay)
        discharge(obs, "value-exact", z3.Implies(z3.And(pre, ok), z3.And(c["value_ok"](val), t.canonical(val))), timeout_ms=timeout, replay=replay)
        return
    X, Y = words
    x, y = sp.value(X), sp.value(Y)
    pre = z3.And(sp.canonical(X), sp.canonical(Y))
    defined, ex = sp.exact(which, x, y)
    lem = bit_lemmas(dom.apps)
    cases = sign_cases(X, Y, sp.signed)
    goals = [
        ("ok-implies-representable", z3.Implies(z3.And(pre, ok), z3.And(defined, sp.inr(ex)))),
        ("representable-implies-ok", z3.Implies(z3.And(pre, defined, sp.inr(ex)), ok)),
        ("value-exact", z3.Implies(z3.And(pre, ok), z3.And(sp.value(val) == ex, val >= 0, val < M))),
    ]
    if which == "mul" and sp.signed:
        # lemma steps (each one is itself an obligation):
        #   S1  the word product and the product of the signed values agree modulo 2**256   (per sign case)
        #   then every goal is proved per sign case with S1 as a hypothesis
        #   S2  |x*y| <= 2**(2*(bits-1))   (per sign case)
        S1 = ((X * Y) % M == (x * y) % M)
        Bd = 2 ** (2 * (sp.typ.bits - 1))
        S2 = z3.And(x * y <= Bd, x * y >= -Bd)
        for i, c in enumerate(cases):
            discharge(obs, f"lemma-S1[case={i}]", z3.Implies(z3.And(pre, c), S1), timeout_ms=timeout, replay=replay)
            discharge(obs, f"lemma-S2[case={i}]", z3.Implies(z3.And(pre, c), S2), timeout_ms=timeout, replay=replay)
        for name, g in goals:
            for i, c in enumerate(cases):
                discharge(obs, f"{name}[case={i}]", g, hyps=lem + [S1, S2, c], timeout_ms=min(timeout, 10000), replay=replay, use_cvc5=False)
        discharge(obs, "sign-cases-exhaustive", z3.Implies(pre, z3.Or(*cases)), timeout_ms=timeout, replay=replay)
        return
    for name, g in goals:
        discharge(obs, name, g, hyps=lem, timeout_ms=timeout, replay=replay, cases=cases)


def job_venom(which, tname, shape, scale=1):
    from vyper.codegen_venom import arithmetic as va
    from vyper.compiler.settings import OptimizationLevel, Settings, anchor_settings
    from vyper.venom.basicblock import IRLiteral, IRVariable
    from vyper.venom.builder import VenomBuilder
    from vyper.venom.context import IRContext

    typ = mk_type(tname)
    dom = BVDom() if which in ("add", "sub") else IntDom()
    sp = Spec(typ)
    obs = []
    timeout = 30000 * scale
    with anchor_settings(Settings(optimize=OptimizationLevel.GAS, evm_version="cancun", experimental_codegen=True)):
        ctx = IRContext()
        fnc = ctx.create_function("p")
        b = VenomBuilder(ctx, fnc)
        ops, env, words = [], {}, []
        for nm, sh in zip(("x", "y"), shape):
            if sh == "leaf":
                v = fnc.get_next_variable()
                wsym = z3.Int(nm) if dom.name == "int" else z3.BitVec(nm, 256)
                env[v.name] = wsym
                ops.append(v)
                words.append(wsym)
            else:
                ops.append(IRLiteral(sh[1]))
                words.append(dom.const(sh[1]))
        res = getattr(va, "safe_" + which)(b, ops[0], ops[1], typ)
        ok = denote_venom_block(fnc.entry.instructions, env, dom)
        val = env[res.name] if isinstance(res, IRVariable) else dom.const(res.value)
    replay = {"kind": "venom-arith", "which": which, "type": tname, "shape": shape}
    _arith_obligations(obs, "div" if which == "floordiv" else which, sp, dom, words, val, ok, timeout, replay)
    return number(obs)


# ------------------------------------------------------------------------------------------------ native replay
def replay_arith(o):
    """compile a one-function contract around the same operation with the real compiler and run it in pyrevm"""
    from vverif.sem import templates as T

    r, m = o["replay"], o.get("model") or {}
    which, tname, shape = r["which"], r["type"], r["shape"]
    typ = mk_type(tname)
    lo, hi = typ.int_bounds
    sym = {"add": "+", "sub": "-", "mul": "*", "div": "/" if tname == "decimal" else "//", "floordiv": "//", "mod": "%"}[which]
    cfg = "L-gas" if r["kind"] == "legacy-arith" else "V-O2"

    def lit(v):
        if tname == "decimal":
            from decimal import Decimal

            return str(Decimal(v) / DEC)
        return str(v)

    args, vals, exprs = [], [], []
    for nm, sh in zip(("x", "y"), shape):
        if sh == "leaf":
            w = m.get(nm, 0)
            v = S.s(w) if typ.is_signed else w
            if not (lo <= v <= hi):
                return {"reproduced": False, "detail": f"model value {v} out of range for {tname}"}
            args.append(nm)
            vals.append(v)
            exprs.append(nm)
        else:
            vals.append(sh[1])
            exprs.append(f"({lit(sh[1])})" if tname != "decimal" else f"({lit(sh[1])})")
    params = ", ".join(f"{a}: {tname}" for a in args)
    src = f"@external\ndef f({params}) -> {tname}:\n    return {exprs[0]} {sym} {exprs[1]}\n"
    import vyper
    from vyper.utils import method_id_int

    try:
        sig = "f(" + ",".join(("fixed168x10" if tname == "decimal" else tname) for _ in args) + ")"
        cd = method_id_int(sig).to_bytes(4, "big") + b"".join((v % M).to_bytes(32, "big") for v, sh in zip(vals, shape) if sh == "leaf")
        status, data = T.native_call(src, cfg, cd)
    except Exception as e:
        return {"reproduced": None, "detail": f"replay could not compile/run the probe: {e!r}", "source": src}
    want = py_exact(which, typ, vals[0], vals[1])
    should_ok = want is not None and lo <= want <= hi
    if status == "return":
        got = int.from_bytes(data[:32], "big")
        gotv = S.s(got) if typ.is_signed else got
        bad = (not should_ok) or gotv != want
        det = f"{src!r} with {dict(zip(args, [v for v, sh in zip(vals, shape) if sh == 'leaf']))} under {cfg} returned {gotv}; exact result {want} ({'representable' if should_ok else 'NOT representable: must revert'})"
    else:
        bad = should_ok
        det = f"{src!r} with {vals} under {cfg} reverted; exact result {want} is representable in {tname}"
    return {"reproduced": bool(bad), "detail": det, "source": src}


REPLAY = {"legacy-arith": replay_arith, "venom-arith": replay_arith}


# ------------------------------------------------------------------------------------------------ pow bounds (FinEx / bounded)
FUNCS_POW = ["vyper.codegen.arithmetic:calculate_largest_base", "vyper.codegen.arithmetic:calculate_largest_power"]


def job_largest_base(bits, signed, scale=1):
    """exhaustive over the whole finite domain of exponents for one type: the returned bounds are *the* largest/smallest base"""
    from vyper.codegen.arithmetic import calculate_largest_base
    from vverif.jobutil import fact

    obs = []
    vb = bits - (1 if signed else 0)
    lo_t, hi_t = (-(2 ** (bits - 1)), 2 ** (bits - 1) - 1) if signed else (0, 2**bits - 1)
    bad = None
    for b in range(2, vb + 1):
        lo, hi = calculate_largest_base(b, bits, signed)
        ok = lo_t <= hi**b <= hi_t and not (lo_t <= (hi + 1) ** b <= hi_t)
        if signed:
            ok = ok and lo_t <= lo**b <= hi_t and not (lo_t <= (lo - 1) ** b <= hi_t)
        else:
            ok = ok and lo == 0
        if not ok and bad is None:
            bad = b
    fact(obs, "bounds-are-extremal-for-every-exponent", bad is None, replay={"kind": "largest_base", "bits": bits, "signed": signed, "b": bad},
         note=f"exhaustive over exponents 2..{vb}", model={"b": bad} if bad else {})
    return number(obs)


def job_largest_power(bits, signed, scale=1):
    """bounded stand-in: the function is evaluated at every base where the answer can change (the extremal bases of every
    exponent, from an independent integer-root computation) and their neighbours, plus small bases"""
    from vyper.codegen.arithmetic import calculate_largest_power
    from vverif.jobutil import fact

    obs = []
    vb = bits - (1 if signed else 0)
    lo_t, hi_t = (-(2 ** (bits - 1)), 2 ** (bits - 1) - 1) if signed else (0, 2**bits - 1)

    def iroot(n, k):  # floor k-th root by bisection (independent of the code under test)
        lo, hi = 0, 1 << ((n.bit_length() + k - 1) // k + 1)
        while lo < hi:
            mid = (lo + hi + 1) // 2
            if mid**k <= n:
                lo = mid
            else:
                hi = mid - 1
        return lo

    bases = set(range(2, 40))
    for k in range(1, vb + 1):
        r = iroot(hi_t, k)
        bases.update({r - 1, r, r + 1, r + 2})
        if signed:
            r2 = iroot(-lo_t, k)
            bases.update({-(r2 - 1), -r2, -(r2 + 1), -(r2 + 2)})
    if signed:
        bases.update(-a for a in range(2, 40))
    bad = None
    n = 0
    for a in sorted(bases):
        if a in (-1, 0, 1) or not (lo_t <= a <= hi_t):
            continue
        n += 1
        try:
            b = calculate_largest_power(a, bits, signed)
        except Exception as e:  # noqa
            bad = (a, repr(e))
            break
        if not (lo_t <= a**b <= hi_t) or (lo_t <= a ** (b + 1) <= hi_t):
            bad = (a, b)
            break
    fact(obs, "largest-power-extremal-at-threshold-bases", bad is None, replay={"kind": "largest_power", "bits": bits, "signed": signed, "bad": bad},
         note=f"{n} threshold bases", bounded=True, model={"a": bad[0], "b": bad[1]} if bad else {})
    return number(obs)


def replay_pow(o):
    r = o["replay"]
    from vyper.codegen.arithmetic import calculate_largest_base, calculate_largest_power

    if r["kind"] == "largest_base":
        lo, hi = calculate_largest_base(r["b"], r["bits"], r["signed"])
        return {"reproduced": True, "detail": f"calculate_largest_base({r['b']}, {r['bits']}, {r['signed']}) = ({lo}, {hi}); hi**b={hi**r['b']}, (hi+1)**b={(hi+1)**r['b']}"}
    a, b = r["bad"]
    return {"reproduced": True, "detail": f"calculate_largest_power({a}, {r['bits']}, {r['signed']}) = {b}: a**b={a**b if isinstance(b,int) else b}"}


REPLAY["largest_base"] = replay_pow
REPLAY["largest_power"] = replay_pow
