"""helpers shared by job functions (executed inside worker processes)"""
import z3
from vverif.smt import prove


def discharge(obs, clause, goal, hyps=(), timeout_ms=20000, replay=None, note=None, bounded=False, cases=None, **kw):
    """cases: optional lemma step — a list of formulas; when the monolithic query is not decided quickly, the goal is
    proved under each case separately and the cases are proved exhaustive (under hyps), which is a checked split: a
    wrong list of cases makes the exhaustiveness query fail, it cannot make a false goal pass."""
    if cases:
        r = prove(goal, hyps, timeout_ms=min(timeout_ms, 4000), use_cvc5=False, **kw)
        if r["status"] == "unknown":
            t = r["seconds"]
            premise = goal.arg(0) if z3.is_implies(goal) else z3.BoolVal(True)
            rr = prove(z3.Implies(premise, z3.Or(*cases)), hyps, timeout_ms=timeout_ms)
            t += rr["seconds"]
            if rr["status"] == "proved":
                status, model = "proved", None
                for c in cases:
                    rc = prove(goal, list(hyps) + [c], timeout_ms=timeout_ms, **kw)
                    t += rc["seconds"]
                    if rc["status"] == "refuted":
                        status, model = "refuted", rc["model"]
                        break
                    if rc["status"] == "unknown":
                        status = "unknown"
                r = {"status": status, "backend": "z3+case-split", "seconds": round(t, 3), "model": model}
            else:
                r = {"status": "unknown", "backend": "case-split-not-exhaustive", "seconds": round(t, 3), "model": None}
    else:
        r = prove(goal, hyps, timeout_ms=timeout_ms, **kw)
    o = {"clause": clause, "status": r["status"], "backend": r["backend"], "seconds": r["seconds"], "model": r["model"]}
    if replay is not None:
        o["replay"] = replay
    if note:
        o["note"] = note
    if bounded:
        o["bounded"] = True
    obs.append(o)
    return o


def fact(obs, clause, ok, replay=None, note=None, model=None, bounded=False):
    """an obligation decided by exhaustive concrete evaluation (FinEx) rather than by a solver"""
    o = {"clause": clause, "status": "proved" if ok else "refuted", "backend": "exhaustive", "seconds": 0.0, "model": model or {}}
    if replay is not None:
        o["replay"] = replay
    if note:
        o["note"] = note
    if bounded:
        o["bounded"] = True
    obs.append(o)
    return o


def number(obs):
    """make clause names unique within a job by appending #n to repeated names"""
    seen = {}
    for o in obs:
        c = o["clause"]
        seen[c] = seen.get(c, 0) + 1
        if seen[c] > 1 or True:
            o["clause"] = f"{c}#{seen[c]}"
    return obs
