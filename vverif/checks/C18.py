"""C18 — builds are deterministic and reproducible from exported bundles (narrow claim).  DESIGN.md 3/C18."""
from vverif.contracts import determinism as D

PROPERTY = "C18"
LEVEL = "other"


def jobs(tier, seed):
    J = [{"id": "C18/F/integrity-sum", "fn": "vverif.contracts.determinism:job_integrity", "args": (), "functions": D.FUNCS, "engine": "FinEx"},
         {"id": f"C18/B/hash-seed-and-history[seed={seed}]", "fn": "vverif.contracts.determinism:job_seeds", "args": (seed,), "functions": D.FUNCS, "engine": "bounded"},
         {"id": "C18/B/archive-roundtrip", "fn": "vverif.contracts.determinism:job_bundles", "args": (), "functions": D.FUNCS, "engine": "bounded"}]
    return J


def replay(o):
    k = (o.get("replay") or {}).get("kind")
    if k in D.REPLAY:
        return D.REPLAY[k](o)
    return {"reproduced": True, "detail": "deterministic compile-time fact: " + (o.get("note") or o["clause"])}


def finding_key(o):
    return o["job"].split("[")[0] + "/" + o["clause"].split("#")[0]


def evidence_meta(tier):
    return {
        "trusted_base": ["sha256 (hashlib)", "the specification of the integrity sum in vverif/contracts/determinism.py (from the property statement and the documentation of bundles)"],
        "assumptions": ["integrity sum: decided exhaustively on the module-graph family (5 graphs x every single-file change, plus layout override), not for all graphs",
                        "determinism across processes, hash seeds, compile histories and output orders, and archive round trips, are bounded stand-ins (a fixed set of programs and seeds) - "
                        "no function-level contract expresses them; they are reported under `bounded` and never counted as proved"],
        "bounded_note": "6 fresh processes (PYTHONHASHSEED 0,1,2,3,100+seed,random; reversed/rotated compile order; reversed output order) x 8 programs x 3 configurations; 3 archive round trips through the CLI",
        "explanation": "FinEx on the integrity-sum contract; bounded stand-ins for cross-process determinism and bundle reproducibility",
    }
