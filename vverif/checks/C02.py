"""C02 — behaviour is invariant under pipeline, optimisation level, flags and EVM target.  DESIGN.md 3/C02."""
from vverif.contracts import relational as R
from vverif.contracts.templates_lib import build

PROPERTY = "C02"

# non-linear arithmetic across two differently shaped terms: minutes per obligation (thorough tier only; C03 decides the kernels
# of both pipelines against one spec)
HEAVY = (".mul", ".fdiv", ".mod", "decimal.div", "decimal.mul", "decimal.floor", "decimal.ceil", "mulmod", "addmod", "internal.call", "isqrt-free", "pow.", "sarray2", "aug.")
QUICK_ALL_CFG = ("arith.uint8.add", "cmp.int256.lt", "if.else", "for.range", "storage.rw", "storage.map", "echo.bytes", "dynarray.index", "event.static", "dispatch.six", "extcall.view", "internal.tuple")


# byte-granular memory on both sides: the cross-pipeline pair needs minutes and often more than the budget (thorough tier; the
# quick tier compares these within each pipeline, and C05/C06 decide their encoders/decoders against the ABI specification)
DYNAMIC = ("echo.bytes", "echo.string", "echo.dynarray", "dynarray.index", "dynarray.sum", "slice", "extract32", "concat.b", "event.bytes", "extcall.bytes", "create.blueprint", "storage.bytes",
           "internal.bytes", "abi_decode", "rawcall.", "rawrevert")


def pairs(tid, quick):
    if quick and tid.startswith(DYNAMIC):
        cross = [("L-gas", "V-O2", "cancun")] if tid in ("echo.bytes", "event.bytes", "extcall.bytes", "echo.dynarray", "storage.bytes", "echo.string") else []
        return cross + [("L-gas", "L-none", "cancun"), ("V-O2", "V-none", "cancun")]
    base = [("L-gas", "V-O2", "cancun")]
    if not quick or tid.startswith(QUICK_ALL_CFG):
        base += [("L-gas", "L-none", "cancun"), ("L-gas", "L-codesize", "cancun"), ("V-O2", "V-none", "cancun"), ("V-O2", "V-O3", "cancun"), ("V-O2", "V-Os", "cancun")]
    return base


def jobs(tier, seed):
    quick = tier == "quick"
    J = []
    T = build(quick)
    for tid, src in T.items():
        if any(h in tid for h in HEAVY) and (quick or not tid.startswith(("arith.uint256.fdiv", "arith.uint256.mod", "arith.int256.fdiv", "aug.uint256", "sarray2"))):
            continue  # non-linear arithmetic across two differently shaped terms does not decide within the budget (C03 decides those kernels)
        if tid.startswith("lock."):
            continue  # C09
        for a, b, evm in pairs(tid, quick):
            J.append({"id": f"C02/G/same-behaviour[{tid};{a}~{b};{evm}]", "fn": "vverif.contracts.relational:job_rel", "args": (tid, src, a, b, evm), "functions": R.FUNCS, "engine": "GenVC"})
        # EVM targets: the same configuration on two targets (features permitting)
        # (the storage layout itself depends on the target: before cancun slot 0 is reserved for the re-entrancy key, so
        #  templates with state variables are not comparable slot by slot across targets and are left out here)
        stateless = "self." not in src and "transient" not in tid
        if (not quick or tid.startswith(QUICK_ALL_CFG + ("echo.string", "rawcall.basic", "create.minimal", "slice", "concat.b"))) and stateless:
            for cfg in ("L-gas", "V-O2"):
                J.append({"id": f"C02/G/same-behaviour-across-targets[{tid};{cfg};cancun~paris]", "fn": "vverif.contracts.relational:job_rel_evm", "args": (tid, src, cfg, "cancun", "paris"),
                          "functions": R.FUNCS, "engine": "GenVC"})
    # every --disable-<optimisation> flag, two inline thresholds and debug mode against the plain configuration
    # (--disable-simplify-cfg is left out: on the pinned tree every compilation with it ends in
    #  CompilerPanic("Invalid Venom pass ordering ... RevertToAssert must run immediately before SimplifyCFGPass") - there is no
    #  behaviour to compare; recorded in DESIGN.md section 4 as an observation)
    FLAGS = ["inlining", "cse", "sccp", "load_elimination", "dead_store_elimination", "algebraic_optimization", "branch_optimization", "assert_elimination", "mem2var", "remove_unused_variables"]
    FLAG_T = ("arith.int128.add", "cmp.int256.lt", "if.else", "for.range", "for.break", "storage.rw", "storage.struct", "internal.tuple", "internal.memarg", "event.static", "dispatch.six", "extcall.view",
              "sarray.index", "convert.uint256.int128", "assert.reason") if quick else tuple(k for k in T if not any(h in k for h in HEAVY) and not k.startswith(DYNAMIC + ("lock.",)))[:60]
    for tid in FLAG_T:
        if tid not in T:
            continue
        mods = ["+no:" + f for f in FLAGS] + ["+inline:0", "+inline:1000", "+debug"]
        for m in mods:
            J.append({"id": f"C02/G/same-behaviour[{tid};V-O2~V-O2{m};cancun]", "fn": "vverif.contracts.relational:job_rel", "args": (tid, T[tid], "V-O2", "V-O2" + m, "cancun"), "functions": R.FUNCS, "engine": "GenVC"})
        J.append({"id": f"C02/G/same-behaviour[{tid};L-gas~L-gas+debug;cancun]", "fn": "vverif.contracts.relational:job_rel", "args": (tid, T[tid], "L-gas", "L-gas+debug", "cancun"), "functions": R.FUNCS, "engine": "GenVC"})
    return J


def replay(o):
    k = (o.get("replay") or {}).get("kind")
    if k in R.REPLAY:
        return R.REPLAY[k](o)
    return {"reproduced": None, "detail": "no native replay"}


def finding_key(o):
    return o["job"] + "/" + o["clause"].split("#")[0]


def evidence_meta(tier):
    return {
        "trusted_base": ["vverif/sem/bytecode.py + machine.py (bytecode denotation; outgoing calls answer adversarially but identically in both programs)"],
        "assumptions": ["per template instance and configuration pair, universally over calldata, value, context, prior state and callee behaviour",
                        "observables: status, return/revert data, logs, outgoing calls (target, value, calldata), final storage/transient storage modulo unobservable slack of byte strings / dynamic arrays; gas is not compared",
                        "persistent state after an outgoing call is arbitrary but equal in both programs (re-entrancy havoc)"],
        "explanation": "relational template contracts: the real compiler's bytecodes under two configurations are denoted against one shared symbolic environment and proved observationally equal",
    }
