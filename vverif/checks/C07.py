"""C07 — calls are dispatched to exactly the function whose selector they carry.  DESIGN.md 3/C07."""
from vverif.contracts import dispatch as D

PROPERTY = "C07"


def jobs(tier, seed):
    quick = tier == "quick"
    J = []
    cfgs = ["L-none", "L-gas", "L-codesize", "V-O2", "V-Os", "V-none"] + ([] if quick else ["V-O3"])
    for sid in D.family(quick):
        for cfg in cfgs:
            evms = ("cancun",) if quick or not sid.startswith(("n:5,pay", "zeros")) else ("cancun", "paris")
            for evm in evms:
                J.append({"id": f"C07/G/dispatch[{sid};{cfg};{evm}]", "fn": "vverif.contracts.dispatch:job_dispatch", "args": (sid, cfg, evm), "functions": D.FUNCS, "engine": "GenVC"})
    J.append({"id": f"C07/B/jumptable_utils[seed={seed}]", "fn": "vverif.contracts.dispatch:job_jumptable", "args": (seed,), "functions": D.FUNCS, "engine": "bounded"})
    return J


def replay(o):
    k = (o.get("replay") or {}).get("kind")
    if k in D.REPLAY:
        return D.REPLAY[k](o)
    return {"reproduced": None, "detail": "no native replay"}


def finding_key(o):
    return o["job"] + "/" + o["clause"].split("#")[0]


def evidence_meta(tier):
    return {
        "trusted_base": ["vverif/sem/bytecode.py + machine.py (bytecode denotation)", "selectors/head sizes/payability are read from the ABI output and cross-checked against keccak4 of the signature"],
        "assumptions": ["per contract shape (family in vverif/contracts/dispatch.py: 1..61 functions, mixed payability, default arguments, dynamic arguments, selectors with trailing zero bytes, "
                        "selectors colliding in a bucket, with/without payable/non-payable __default__), universally over calldata (all lengths), call value and state",
                        "jumptable_utils kernels: bounded run-time contract evaluation only (not counted as proved)"],
        "bounded_note": "codegen/jumptable_utils.py: contracts evaluated on random selector sets of sizes 1..80 (stand-in)",
        "explanation": "template route: the real compiler's run-time bytecode for each contract shape and configuration (linear / sparse / dense selector sections of both pipelines) is denoted "
                       "for all calldata and values and checked against the dispatch contract of the property",
    }
