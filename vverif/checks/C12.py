"""C12 — outgoing calls fail closed.  DESIGN.md 3/C12."""
from vverif.contracts import extcalls as X
from vverif.contracts import relational as R
from vverif.contracts import source_sem as S
from vverif.contracts.templates_lib import build

PROPERTY = "C12"
RAW = ("rawcall.", "send", "rawrevert", "create.", "extcall.bytes")


def jobs(tier, seed):
    quick = tier == "quick"
    J = []
    cfgs = ["L-gas", "V-O2", "L-none", "V-none"] if quick else ["L-gas", "L-none", "L-codesize", "V-O2", "V-none", "V-O3", "V-Os"]
    funcs = S.FUNCS + ["vyper.codegen.external_call:" + n for n in ("_pack_arguments", "_unpack_returndata", "_external_call_helper", "_extcodesize_check", "ir_for_external_call")] + [
        "vyper.codegen.core:check_external_call", "vyper.codegen_venom.expr:Expr._lower_external_call"]
    for tid, src in X.family().items():
        for cfg in cfgs:
            for evm in (("cancun",) if quick or cfg not in ("L-gas", "V-O2") else ("cancun", "paris")):
                J.append({"id": f"C12/G/interface-call[{tid};{cfg};{evm}]", "fn": "vverif.contracts.source_sem:job_src", "args": ("extcalls." + tid, src, cfg, evm), "functions": funcs, "engine": "GenVC"})
    # raw_call / send / raw_revert / create_*: relational contracts only (both pipelines and all levels agree for every callee behaviour)
    T = build(quick)
    for tid, src in T.items():
        if not tid.startswith(RAW):
            continue
        prs = [("L-gas", "L-none"), ("V-O2", "V-none"), ("L-gas", "V-O2")] if not (quick and tid.startswith(("rawcall.", "rawrevert", "extcall.bytes", "create.blueprint"))) else [("L-gas", "L-none"), ("V-O2", "V-none")]
        for a, b in prs:
            J.append({"id": f"C12/G/same-behaviour[{tid};{a}~{b}]", "fn": "vverif.contracts.relational:job_rel", "args": (tid, src, a, b), "functions": R.FUNCS, "engine": "GenVC"})
    return J


def replay(o):
    k = (o.get("replay") or {}).get("kind")
    for mod in (S, R):
        if k in mod.REPLAY:
            return mod.REPLAY[k](o)
    return {"reproduced": None, "detail": "no native replay"}


def finding_key(o):
    return o["job"] + "/" + o["clause"].split("#")[0].split("[")[0]


def evidence_meta(tier):
    return {
        "trusted_base": ["vverif/spec_source.py:Interp.extcall (interface-call semantics from docs/interfaces.rst)", "vverif/sem/bytecode.py + machine.py (adversarial callee: success flag, return-data size and bytes unconstrained)"],
        "assumptions": ["per template (return type x mutability x keyword family in vverif/contracts/extcalls.py), universally over calldata, value, prior state and ALL callee behaviours",
                        "persistent state after a non-static call is arbitrary (the callee may re-enter)",
                        "raw_call, send, raw_revert and create_*: only relational contracts (configurations agree for every callee behaviour), not a specification of their documented behaviour"],
        "explanation": "template route: bytecode vs reference semantics of interface calls: call opcode (STATICCALL for view/pure), target, value, requested gas, calldata = selector ++ encoded args; failure propagates the callee's "
                       "revert data; no-code targets, short or out-of-range return data revert; empty return data yields default_return_value",
    }
