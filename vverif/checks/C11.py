"""C11 — accepted programs keep their static promises; rule-breaking programs are rejected (scoped).  DESIGN.md 3/C11."""
from vverif.contracts import static_rules as SR

PROPERTY = "C11"
LEVEL = "other"


def jobs(tier, seed):
    n = len(SR.cases())
    step = 12
    J = [{"id": f"C11/F/static-rules[{lo}:{min(n, lo + step)}]", "fn": "vverif.contracts.static_rules:job_rules", "args": (lo, lo + step), "functions": SR.FUNCS, "engine": "FinEx"}
         for lo in range(0, n, step)]
    # run-time side of the loop-bound promise: bytecode vs the reference semantics, all start/end/count words
    from vverif.contracts import source_sem as S

    cfgs = ["L-gas", "V-O2"] if tier == "quick" else ["L-gas", "L-none", "L-codesize", "V-O2", "V-none", "V-O3", "V-Os"]
    for tid, src in SR.loop_family().items():
        for cfg in cfgs:
            J.append({"id": f"C11/G/loop-bound[{tid};{cfg}]", "fn": "vverif.contracts.source_sem:job_src", "args": ("c11." + tid, src, cfg),
                      "functions": S.FUNCS + ["vyper.codegen.stmt:Stmt._parse_For_range", "vyper.codegen_venom.stmt:Stmt._lower_range_loop"], "engine": "GenVC"})
    return J


def replay(o):
    k = (o.get("replay") or {}).get("kind")
    if k in SR.REPLAY:
        return SR.REPLAY[k](o)
    from vverif.contracts import source_sem as S

    if k in S.REPLAY:
        return S.REPLAY[k](o)
    return {"reproduced": None, "detail": "no native replay"}


def finding_key(o):
    if "/G/" in o["job"]:
        return o["job"] + "/" + o["clause"].split("#")[0].split("[")[0]
    return "C11/F/" + o["clause"].split("#")[0]


def evidence_meta(tier):
    return {
        "trusted_base": ["the expected column of the decision tables in vverif/contracts/static_rules.py (from the property statement)"],
        "assumptions": ["decision tables cover the abstract domain (mutability lattice x construct) exhaustively, not all programs: 'accepted => promise holds for every program' is not decided"],
        "explanation": "FinEx: every cell of the static-rule decision tables is run through the real front end",
    }
