"""C11 — accepted programs keep their static promises; rule-breaking programs are rejected (scoped).  DESIGN.md 3/C11."""
from vverif.contracts import static_rules as SR

PROPERTY = "C11"
LEVEL = "other"


def jobs(tier, seed):
    n = len(SR.cases())
    step = 12
    return [{"id": f"C11/F/static-rules[{lo}:{min(n, lo + step)}]", "fn": "vverif.contracts.static_rules:job_rules", "args": (lo, lo + step), "functions": SR.FUNCS, "engine": "FinEx"}
            for lo in range(0, n, step)]


def replay(o):
    k = (o.get("replay") or {}).get("kind")
    if k in SR.REPLAY:
        return SR.REPLAY[k](o)
    return {"reproduced": None, "detail": "no native replay"}


def finding_key(o):
    return "C11/F/" + o["clause"].split("#")[0]


def evidence_meta(tier):
    return {
        "trusted_base": ["the expected column of the decision tables in vverif/contracts/static_rules.py (from the property statement)"],
        "assumptions": ["decision tables cover the abstract domain (mutability lattice x construct) exhaustively, not all programs: 'accepted => promise holds for every program' is not decided"],
        "explanation": "FinEx: every cell of the static-rule decision tables is run through the real front end",
    }
