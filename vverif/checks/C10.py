"""C10 — state variables never alias and the reported layout is the layout the code uses.  DESIGN.md 3/C10."""
from vverif.contracts import layout as L
from vverif.contracts import template_specs as TS

PROPERTY = "C10"


def jobs(tier, seed):
    quick = tier == "quick"
    J = [{"id": "C10/P/data_positions.SimpleAllocator.allocate_slot", "fn": "vverif.contracts.layout:job_allocator", "args": (), "functions": L.FUNCS, "engine": "PyVC"}]
    n = len(L.override_cases())
    for lo in range(0, n, 6):
        J.append({"id": f"C10/F/layout-override[{lo}:{min(n, lo + 6)}]", "fn": "vverif.contracts.layout:job_overrides", "args": (lo, lo + 6), "functions": L.FUNCS, "engine": "FinEx"})
    from vverif.contracts import genvc_kernels as GK

    for loc in ("storage", "transient"):
        J.append({"id": f"C10/G/core.get_element_ptr[{loc}]", "fn": "vverif.contracts.genvc_kernels:job_element_ptr", "args": (loc,), "functions": GK.FUNCS_PTR, "engine": "GenVC"})
    cfgs = ["L-gas", "V-O2", "L-none", "V-none"] if quick else ["L-gas", "L-none", "L-codesize", "V-O2", "V-none", "V-O3", "V-Os"]
    for tid in TS.LAYOUT_SRC:
        for cfg in cfgs:
            evms = ("cancun",) if "transient(" in TS.LAYOUT_SRC[tid] else ("cancun", "shanghai")
            for evm in evms:
                J.append({"id": f"C10/G/writes-confined-to-reported-range[{tid};{cfg};{evm}]", "fn": "vverif.contracts.template_specs:job_layout", "args": (tid, cfg, evm),
                          "functions": TS.FUNCS + L.FUNCS, "engine": "GenVC"})
    return J


def replay(o):
    k = (o.get("replay") or {}).get("kind")
    from vverif.contracts import genvc_kernels as GK

    for mod in (L, TS, GK):
        if k in mod.REPLAY:
            return mod.REPLAY[k](o)
    return {"reproduced": None, "detail": "no native replay"}


def finding_key(o):
    return o["job"] + "/" + o["clause"].split("#")[0]


def evidence_meta(tier):
    return {
        "trusted_base": ["vverif/sem/bytecode.py + machine.py (bytecode denotation)", "the expected column of the override decision table (from the property statement)"],
        "assumptions": ["A4 keccak256 images avoid statically allocated slot ranges (HashMap entries are only required to be keccak-derived)",
                        "layout templates: per instance, universally over calldata/state; override table: exhaustive over the listed cells, not over all declaration lists"],
        "explanation": "PyVC proof of the slot allocator (disjoint, ordered ranges); FinEx over the override decision table through the real front end (incl. modules and the re-entrancy key); "
                       "template route: every storage/transient write of every setter stays inside the variable's reported range, reported ranges pairwise disjoint",
    }
