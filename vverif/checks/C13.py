"""C13 — deployment installs exactly the runtime code plus the constructor's immutables.  DESIGN.md 3/C13."""
from vverif.contracts import deploy as D
from vverif.contracts import source_sem as S

PROPERTY = "C13"


def jobs(tier, seed):
    quick = tier == "quick"
    J = [{"id": "C13/P/compile_ir._runtime_code_offsets", "fn": "vverif.contracts.deploy:job_offsets", "args": (), "functions": ["vyper.ir.compile_ir:_runtime_code_offsets"], "engine": "PyVC"}]
    cfgs = ["L-gas", "V-O2", "L-none", "V-none"] if quick else ["L-gas", "L-none", "L-codesize", "V-O2", "V-none", "V-O3", "V-Os"]
    for tid, src in D.family().items():
        for cfg in cfgs:
            for evm in (("cancun",) if quick or cfg not in ("L-gas", "V-O2") else ("cancun", "paris")):
                J.append({"id": f"C13/G/deploy[{tid};{cfg};{evm}]", "fn": "vverif.contracts.deploy:job_deploy", "args": (tid, src, cfg, evm), "functions": D.FUNCS + S.FUNCS[:4], "engine": "GenVC"})
                # the deployed run-time code reads the immutables back (data section symbolic): reference semantics of the run-time functions
                J.append({"id": f"C13/G/runtime-reads-immutables[{tid};{cfg};{evm}]", "fn": "vverif.contracts.source_sem:job_src", "args": ("deploy." + tid, src, cfg, evm), "functions": S.FUNCS, "engine": "GenVC"})
    return J


def replay(o):
    k = (o.get("replay") or {}).get("kind")
    for mod in (D, S):
        if k in mod.REPLAY:
            return mod.REPLAY[k](o)
    return {"reproduced": None, "detail": "no native replay"}


def finding_key(o):
    return o["job"] + "/" + o["clause"].split("#")[0].split("[")[0]


def evidence_meta(tier):
    return {
        "trusted_base": ["vverif/spec_source.py (reference semantics of __init__ and of immutable reads)", "vverif/sem/bytecode.py + machine.py (init code runs with the constructor arguments as a symbolic code tail)"],
        "assumptions": ["per constructor template (vverif/contracts/deploy.py), universally over argument bytes (any length), call value and prior state",
                        "a creation carries no calldata; constructor arguments shorter than declared read as zero bytes (CODECOPY semantics)",
                        "create_from_blueprint equivalence with a direct deployment is not decided (only the blueprint preamble output is)"],
        "explanation": "template route: init code denoted for all arguments; returned code == bytecode_runtime ++ immutables assigned by the reference semantics of __init__; run-time functions read them back; blueprint preamble executed concretely",
    }
