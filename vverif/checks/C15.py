"""C15 — legacy IR optimiser and assembly peephole optimiser never change results.  See DESIGN.md 3/C15."""
from vverif.contracts import legacy_opt as L
from vverif.contracts import relational as R
from vverif.contracts import peephole as PH
from vverif.contracts.templates_lib import build

PROPERTY = "C15"

REL_QUICK = ("arith.uint256.add", "arith.uint256.sub", "arith.uint256.fdiv", "arith.uint256.mod", "arith.uint256.and", "arith.uint256.or", "arith.uint256.xor", "arith.int128.add", "arith.int128.sub", "arith.int128.and", "cmp.int256.", "cmp.uint8.", "builtin.int256.", "shift.", "bool.", "ifexp", "convert.uint256.int128", "convert.decimal.int8",
             "echo.uint8", "echo.struct", "sarray.index;", "storage.rw", "storage.array", "storage.map", "if.else", "for.range", "assert.reason", "internal.tuple", "internal.memarg",
             "dispatch.", "event.static", "lock.basic", "extcall.view", "decimal.add", "decimal.sub", "pow.uint256.", "unary.int256.", "in.list", "flag.ops")


def jobs(tier, seed):
    from vyper.ir import optimizer as opt

    quick = tier == "quick"
    J = []
    parents = [None, "iszero", "if"] if quick else L.PARENTS
    for binop in opt.arith:
        for parent in parents:
            for (s0, s1) in L.SHAPES:
                J.append({"id": f"C15/P/optimizer._optimize_binop[{binop};parent={parent};{s0},{s1}]", "fn": "vverif.contracts.legacy_opt:job_binop",
                          "args": (binop, parent, s0, s1), "functions": L.FUNCS, "engine": "PyVC"})
    for w in ("evm_div", "evm_mod", "signed_to_unsigned", "unsigned_to_signed", "wrap256", "evm_not", "ceil32"):
        J.append({"id": f"C15/P/utils.{w}", "fn": "vverif.contracts.legacy_opt:job_utils", "args": (w,), "functions": L.FUNCS_UTILS, "engine": "PyVC"})
    for fam, alpha, length in PH.families(tier):
        n = PH.n_windows(alpha, length)
        step = 4000
        for lo in range(0, n, step):
            J.append({"id": f"C15/G/peephole-window[{fam};len={length};{lo}:{min(n, lo + step)}]", "fn": "vverif.contracts.peephole:job_windows",
                      "args": (fam, alpha, length, lo, min(n, lo + step)), "functions": PH.FUNCS, "engine": "GenVC"})
    T = build(quick)
    for tid, src in T.items():
        if quick and not (tid + ";").startswith(REL_QUICK) and not tid.startswith(tuple(p for p in REL_QUICK if not p.endswith(";"))):
            continue
        for cfg in (("L-gas",) if quick else ("L-gas", "L-codesize")):
            J.append({"id": f"C15/G/optimized-equals-unoptimized[{tid};L-none~{cfg}]", "fn": "vverif.contracts.relational:job_rel", "args": (tid, src, "L-none", cfg),
                      "functions": R.FUNCS, "engine": "GenVC"})
    return J


def replay(o):
    k = (o.get("replay") or {}).get("kind")
    for mod in (L, R, PH):
        if k in mod.REPLAY:
            return mod.REPLAY[k](o)
    return {"reproduced": None, "detail": "no native replay"}


def finding_key(o):
    return o["job"] + "/" + o["clause"].split("#")[0]


def evidence_meta(tier):
    return {
        "trusted_base": ["vverif/spec_evm.py", "vverif/sem/bytecode.py + machine.py (bytecode denotation)"],
        "assumptions": ["A1", "A2", "A5", "bit-operation lemma schemas (x & (2**k-1) = x mod 2**k etc.) are facts of two's-complement arithmetic",
                        "is_power_of_two/int_log2 enter _optimize_binop through their contract (n = 2**k for the returned k)"],
        "explanation": "PyVC on _optimize_binop/_comparison_helper for all literal values and operand shapes; whole-pipeline relational contracts optimize=none vs gas on the template family",
    }
