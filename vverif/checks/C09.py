"""C09 — the re-entrancy lock excludes re-entry and is always released.  DESIGN.md 3/C09."""
from vverif.contracts import template_specs as TS
from vverif.contracts import relational as R

PROPERTY = "C09"


def jobs(tier, seed):
    quick = tier == "quick"
    J = []
    cfgs = ["L-gas", "V-O2"] if quick else ["L-gas", "L-none", "L-codesize", "V-O2", "V-none", "V-O3", "V-Os"]
    for tid in TS.LOCK_SRC:
        for cfg in cfgs:
            for evm in (("cancun", "shanghai") if (tid in ("lock.call", "lock.rawreturn") or not quick) else ("cancun",)):
                J.append({"id": f"C09/G/lock-two-run[{tid};{cfg};{evm}]", "fn": "vverif.contracts.template_specs:job_lock", "args": (tid, cfg, evm), "functions": TS.FUNCS + [
                    "vyper.codegen.function_definitions.common:get_nonreentrant_lock", "vyper.codegen.return_:make_return_stmt",
                    "vyper.codegen_venom.context:VenomCodegenContext.emit_nonreentrant_lock", "vyper.codegen_venom.context:VenomCodegenContext.emit_nonreentrant_unlock",
                    "vyper.semantics.types.function:ContractFunctionT.from_FunctionDef"], "engine": "GenVC"})
    from vverif.contracts import genvc_kernels as GK

    for evm in ("cancun", "shanghai", "paris"):
        J.append({"id": f"C09/G/common.get_nonreentrant_lock[{evm}]", "fn": "vverif.contracts.genvc_kernels:job_lock", "args": (evm,), "functions": GK.FUNCS_LOCK, "engine": "GenVC"})
    return J


def replay(o):
    k = (o.get("replay") or {}).get("kind")
    from vverif.contracts import genvc_kernels as GK

    if k in GK.REPLAY:
        return GK.REPLAY[k](o)
    if k in TS.REPLAY:
        return TS.REPLAY[k](o)
    return {"reproduced": None, "detail": "no native replay"}


def finding_key(o):
    return o["job"] + "/" + o["clause"].split("#")[0]


def evidence_meta(tier):
    return {
        "trusted_base": ["vverif/sem/bytecode.py + machine.py (bytecode denotation)", "the protected set is read from the real front end (ContractFunctionT.nonreentrant)"],
        "assumptions": ["A6 revert rolls back storage and transient storage", "re-entry is modelled by a second run of the same code from the persistent state at the moment of each outgoing call/create, with arbitrary calldata",
                        "per template instance (the lock templates), universally over calldata, value and prior state; cross-contract call trees beyond one re-entry are not modelled"],
        "explanation": "two-run composition on the real bytecode: re-entry into any protected entry point at any outgoing call reverts; after a successful protected call the lock is free",
    }
