"""C06 — everything emitted in ABI form is the canonical ABI encoding.  DESIGN.md 3/C06."""
from vverif.contracts import abi_family as F
from vverif.contracts import source_sem as S

PROPERTY = "C06"


def jobs(tier, seed):
    quick = tier == "quick"
    J = []
    cfgs = ["L-gas", "V-O2"] if quick else ["L-gas", "L-none", "V-O2", "V-O3"]
    for tid, src in F.c06_family(quick).items():
        for cfg in cfgs:
            J.append({"id": f"C06/G/source-semantics[{tid};{cfg}]", "fn": "vverif.contracts.source_sem:job_src", "args": ("c06." + tid, src, cfg), "functions": S.FUNCS + FUNCS, "engine": "GenVC"})
    from vverif.contracts import abi_kernels as K

    J.append({"id": "C06/F/abi-kernels.abi_sizes", "fn": "vverif.contracts.abi_kernels:job_abi_sizes", "args": (), "functions": K.FUNCS, "engine": "FinEx"})
    return J


FUNCS = {
    "C04": ["vyper.codegen.core:_get_element_ptr_array", "vyper.codegen.core:append_dyn_array", "vyper.codegen.core:pop_dyn_array", "vyper.codegen.core:check_buffer_overflow_ir",
            "vyper.builtins.functions:Slice.build_IR", "vyper.builtins.functions:Extract32.build_IR", "vyper.builtins.functions:Concat.build_IR",
            "vyper.codegen_venom.expr:Expr._lower_dynarray_append", "vyper.codegen_venom.builtins.bytes:_assert_slice_bounds"],
    "C05": ["vyper.codegen.core:clamp_basetype", "vyper.codegen.core:needs_clamp", "vyper.codegen.core:clamp_bytestring", "vyper.codegen.core:clamp_dyn_array", "vyper.codegen.core:_getelemptr_abi_helper",
            "vyper.codegen.function_definitions.external_function:_register_function_args", "vyper.codegen_venom.abi.abi_decoder:needs_clamp", "vyper.codegen_venom.abi.abi_decoder:clamp_bytestring",
            "vyper.codegen_venom.abi.abi_decoder:_decode_dyn_array"],
    "C06": ["vyper.codegen.abi_encoder:abi_encode", "vyper.codegen.core:zero_pad", "vyper.codegen.return_:make_return_stmt", "vyper.codegen.events:ir_node_for_log",
            "vyper.codegen.core:needs_external_call_wrap", "vyper.codegen_venom.abi.abi_encoder:_pre_zero_pad", "vyper.codegen_venom.abi.abi_encoder:abi_encode_to_buf"],
}["C06"]


def replay(o):
    k = (o.get("replay") or {}).get("kind")
    from vverif.contracts import abi_kernels as K

    if k in K.REPLAY:
        return K.REPLAY[k](o)
    if k in S.REPLAY:
        return S.REPLAY[k](o)
    return {"reproduced": None, "detail": "no native replay"}


def finding_key(o):
    return o["job"] + "/" + o["clause"].split("#")[0].split("[")[0]


def evidence_meta(tier):
    return {
        "trusted_base": ["vverif/spec_source.py (reference semantics)", "vverif/spec_abi.py (the contract ABI: canonical encoding, strict decoding; written from the ABI specification)",
                         "vverif/sem/bytecode.py + machine.py (bytecode denotation)"],
        "assumptions": ["per template of the family in vverif/contracts/abi_family.py (c06_family), universally over calldata (< 2**32 bytes), value, context and prior state",
                        "A7: a stored length never exceeds the declared bound (assumed on load, re-established on store)",
                        "byte strings and dynamic arrays are instantiated with small bounds (<= 40 bytes / <= 3 elements); larger types are not instantiated"],
        "explanation": "template route: compile(P, config) denoted for all inputs and proved observationally equal to the reference semantics of P",
    }
