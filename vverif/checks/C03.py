"""C03 — arithmetic and conversion exact or revert.  See DESIGN.md section 3 (C03)."""
import itertools

from vverif.contracts import arith as A
from vverif.contracts import convert as CV

PROPERTY = "C03"


def jobs(tier, seed):
    quick = tier == "quick"
    J = []
    types = A.all_numeric(quick)
    if quick:
        types = [t for t in types if t in ("uint8", "int8", "uint128", "int128", "uint136", "int136", "uint256", "int256", "decimal")]
    for tname in types:
        typ = A.mk_type(tname)
        for which in ("add", "sub", "mul", "div", "mod"):
            for shape in A.shapes_for(which, typ, quick):
                sh = "|".join("leaf" if s == "leaf" else f"lit({s[1]})" if abs(s[1]) < 10**6 else ("lit(lo)" if s[1] < 0 else "lit(hi)") for s in shape)
                if not (tname == "decimal" and which == "mod" and False):
                    J.append({"id": f"C03/G/legacy.safe_{which}[{tname};{sh}]", "fn": "vverif.contracts.arith:job_legacy", "args": (which, tname, shape),
                              "functions": A.FUNCS_LEGACY, "engine": "GenVC"})
                vwhich = which
                if which == "div":
                    vwhich = "div" if tname == "decimal" else "floordiv"
                J.append({"id": f"C03/G/venom.safe_{vwhich}[{tname};{sh}]", "fn": "vverif.contracts.arith:job_venom", "args": (vwhich, tname, shape),
                          "functions": A.FUNCS_VENOM, "engine": "GenVC"})
    # pow bound kernels
    for bits in ([8, 64, 128, 256] if quick else range(8, 257, 8)):
        for signed in (False, True):
            J.append({"id": f"C03/F/calculate_largest_base[{'int' if signed else 'uint'}{bits}]", "fn": "vverif.contracts.arith:job_largest_base", "args": (bits, signed),
                      "functions": A.FUNCS_POW, "engine": "FinEx"})
            J.append({"id": f"C03/B/calculate_largest_power[{'int' if signed else 'uint'}{bits}]", "fn": "vverif.contracts.arith:job_largest_power", "args": (bits, signed),
                      "functions": A.FUNCS_POW, "engine": "bounded"})
    # convert, all ordered pairs of one-word types
    names = CV.type_names(quick)
    for tin, tout in itertools.product(names, names):
        if tin == tout:
            continue
        J.append({"id": f"C03/G/convert[{tin}->{tout}]", "fn": "vverif.contracts.convert:job_pair", "args": (tin, tout),
                  "functions": CV.FUNCS_LEGACY + CV.FUNCS_VENOM, "engine": "GenVC"})
    return J


def replay(o):
    r = o.get("replay") or {}
    k = r.get("kind")
    for mod in (A, CV):
        if k in mod.REPLAY:
            return mod.REPLAY[k](o)
    return {"reproduced": None, "detail": "no native replay for this obligation kind"}


def finding_key(o):
    c = o["clause"].split("#")[0]
    if c == "same-admissibility":
        return "C03/G/convert/same-admissibility[" + (o.get("note") or "").replace(" ", ";") .split("=")[0] + "]" if False else "C03/G/convert/same-admissibility:" + ("venom-accepts-what-legacy-rejects" if "venom=accepts" in (o.get("note") or "") else "legacy-accepts-what-venom-rejects")
    return o["job"] + "/" + c


def evidence_meta(tier):
    return {
        "trusted_base": ["vverif/spec_vyper.py (operator and convert semantics from docs/types.rst)", "vverif/spec_evm.py", "vverif/sem/irterm.py (denotation of memory-free IR terms / straight-line Venom)"],
        "assumptions": ["A1 spec library correct", "A2 solvers sound", "A8 operand-shape partition: opaque leaf + the literal values listed per generator",
                        "EVM `exp` is exact when the mathematical power fits (safe_pow: only the bound kernels are checked here)"],
        "bounded_note": "calculate_largest_power is evaluated at every threshold base of every exponent (bounded stand-in, not counted as proved)",
        "explanation": "GenVC: real generators called on symbolic-leaf operands, emitted term denoted and discharged for all operand words",
    }
