"""C14 — Venom passes preserve behaviour; the analyses they rely on are sound.  See DESIGN.md section 3 (C14)."""
import itertools

from vverif.contracts import ranges as R
from vverif.contracts import venom_kernels as VK

PROPERTY = "C14"
M = 2**256

OPS2 = ["add", "sub", "mul", "div", "mod", "sdiv", "smod", "lt", "gt", "slt", "sgt", "eq", "and", "or", "xor"]
OPS1 = ["iszero", "not"]
SHIFTY = ["shl", "shr", "sar", "signextend", "byte"]
AMOUNTS_QUICK = {
    "shl": [0, 1, 8, 128, 255, 256, 2**256 - 1, -1], "shr": [0, 1, 8, 128, 255, 256, 2**256 - 1, -1],
    "sar": [0, 1, 8, 128, 255, 256, 2**256 - 1, -1],
    "signextend": [0, 1, 15, 30, 31, 32, -1], "byte": [0, 1, 15, 30, 31, 32, -1],
}


def jobs(tier, seed):
    J = [{"id": "C14/P/range.lemmas", "fn": "vverif.contracts.ranges:job_lemmas", "args": (), "functions": [], "engine": "PyVC"}]
    kinds = ["TOP", "BOT", "IV"]
    for op in OPS2:
        for kl, kr in itertools.product(kinds, repeat=2):
            J.append({"id": f"C14/P/range.eval_op[{op};{kl},{kr}]", "fn": "vverif.contracts.ranges:job_eval", "args": (op, kl, kr),
                      "functions": R.FUNCS_EVAL, "engine": "PyVC"})
    for op in OPS1:
        for kl in kinds:
            J.append({"id": f"C14/P/range.eval_op[{op};{kl}]", "fn": "vverif.contracts.ranges:job_eval", "args": (op, kl, "TOP"),
                      "functions": R.FUNCS_EVAL, "engine": "PyVC"})
    for op in SHIFTY:
        amounts = AMOUNTS_QUICK[op] if tier == "quick" else sorted(set(AMOUNTS_QUICK[op] + list(range(0, 258 if op in ("shl", "shr", "sar") else 34))))
        for am in amounts:
            for kr in kinds:
                J.append({"id": f"C14/P/range.eval_op[{op};CONST({am if abs(am) < 1000 else ('max' if am > 0 else am)}),{kr}]",
                          "fn": "vverif.contracts.ranges:job_eval", "args": (op, ("CONST", am), kr), "functions": R.FUNCS_EVAL, "engine": "PyVC"})
        for kl in ("TOP", "BOT", "IVNC"):
            for kr in kinds:
                J.append({"id": f"C14/P/range.eval_op[{op};{kl},{kr}]", "fn": "vverif.contracts.ranges:job_eval", "args": (op, kl, kr),
                          "functions": R.FUNCS_EVAL, "engine": "PyVC"})
    for which in ("union", "intersect", "widen"):
        for kl, kr in itertools.product(kinds, repeat=2):
            J.append({"id": f"C14/P/range.{which}[{kl},{kr}]", "fn": "vverif.contracts.ranges:job_lattice", "args": (which, kl, kr),
                      "functions": R.FUNCS_LATTICE, "engine": "PyVC"})
    for kl in kinds:
        for given in ("none", "lo", "hi", "both"):
            J.append({"id": f"C14/P/range.clamp[{kl};{given}]", "fn": "vverif.contracts.ranges:job_lattice", "args": ("clamp", kl, given),
                      "functions": R.FUNCS_LATTICE, "engine": "PyVC"})
    for opcode in ("lt", "gt", "slt", "sgt"):
        for kc in kinds:
            for taken in (True, False):
                for left in (True, False):
                    J.append({"id": f"C14/P/range._apply_compare[{opcode};{kc};taken={taken};var_{'left' if left else 'right'}]",
                              "fn": "vverif.contracts.ranges:job_narrow", "args": ("compare", opcode, kc, taken, left),
                              "functions": R.FUNCS_NARROW, "engine": "PyVC"})
    for kc in kinds:
        for taken in (True, False):
            J.append({"id": f"C14/P/range._apply_iszero[{kc};taken={taken}]", "fn": "vverif.contracts.ranges:job_narrow",
                      "args": ("iszero", "iszero", kc, taken, True), "functions": R.FUNCS_NARROW, "engine": "PyVC"})
            for left in (True, False):
                J.append({"id": f"C14/P/range._apply_eq[lit;{kc};taken={taken};var_{'left' if left else 'right'}]", "fn": "vverif.contracts.ranges:job_narrow",
                          "args": ("eq-lit", "eq", kc, taken, left), "functions": R.FUNCS_NARROW, "engine": "PyVC"})
            for kc2 in kinds:
                J.append({"id": f"C14/P/range._apply_eq[var;{kc},{kc2};taken={taken}]", "fn": "vverif.contracts.ranges:job_narrow",
                          "args": ("eq-var", kc2, kc, taken, True), "functions": R.FUNCS_NARROW, "engine": "PyVC"})
    # ---- SCCP constant evaluator
    SCCP_PLAIN = ["add", "sub", "mul", "div", "sdiv", "mod", "smod", "exp", "eq", "lt", "gt", "slt", "sgt", "or", "and", "xor", "not", "iszero", "addmod", "mulmod"]
    for op in SCCP_PLAIN:
        J.append({"id": f"C14/P/sccp.eval_arith[{op}]", "fn": "vverif.contracts.venom_kernels:job_sccp", "args": (op,), "functions": VK.FUNCS_SCCP, "engine": "PyVC"})
    for op in SHIFTY:
        full = range(0, 258) if op in ("shl", "shr", "sar") else range(0, 34)
        amounts = sorted(set(AMOUNTS_QUICK[op] + ([-2**255, 2**255] if True else []) + (list(full) if tier == "thorough" else [])))
        for am in amounts:
            tag = am if abs(am) < 1000 else ("2^256-1" if am == 2**256 - 1 else ("2^255" if am == 2**255 else "-2^255"))
            J.append({"id": f"C14/P/sccp.eval_arith[{op};amount={tag}]", "fn": "vverif.contracts.venom_kernels:job_sccp", "args": (op, am), "functions": VK.FUNCS_SCCP, "engine": "PyVC"})
    # ---- MemoryLocation
    for which in ("may_overlap", "completely_contains"):
        for shape in itertools.product((True, False), repeat=4):
            for region in ("global", "same", "different", "mixed"):
                nm = "".join("k" if b else "u" for b in shape)
                J.append({"id": f"C14/P/memloc.{which}[{nm};{region}]", "fn": "vverif.contracts.venom_kernels:job_memloc", "args": (which,) + shape + (region,),
                          "functions": VK.FUNCS_MEMLOC, "engine": "PyVC"})
    # ---- range clients
    for kx in kinds:
        J.append({"id": f"C14/P/client._range_excludes_zero[{kx}]", "fn": "vverif.contracts.venom_kernels:job_client", "args": ("range_excludes_zero", kx), "functions": VK.FUNCS_CLIENTS, "engine": "PyVC"})
        for v in range(8):
            J.append({"id": f"C14/P/client._try_range_cmp[{kx};lit_first={v&1};gt={(v>>1)&1};signed={(v>>2)&1}]", "fn": "vverif.contracts.venom_kernels:job_client",
                      "args": ("try_range_cmp", kx, None, v), "functions": VK.FUNCS_CLIENTS, "engine": "PyVC"})
        for n in ([0, 1, 15, 30, 31, 32, 2**256 - 1] if tier == "quick" else list(range(0, 34)) + [2**256 - 1]):
            J.append({"id": f"C14/P/client._rule_signextend[{kx};n={n if n < 1000 else 'max'}]", "fn": "vverif.contracts.venom_kernels:job_client",
                      "args": ("rule_signextend", kx, None, n), "functions": VK.FUNCS_CLIENTS, "engine": "PyVC"})
        for ky in kinds:
            for v in range(3):
                J.append({"id": f"C14/P/client._try_eliminate_add_overflow[{kx},{ky};v{v}]", "fn": "vverif.contracts.venom_kernels:job_client",
                          "args": ("add_overflow", kx, ky, v), "functions": VK.FUNCS_CLIENTS, "engine": "PyVC"})
            for v in (0, 2):
                J.append({"id": f"C14/P/client._try_eliminate_sub_underflow[{kx},{ky};v{v}]", "fn": "vverif.contracts.venom_kernels:job_client",
                          "args": ("sub_underflow", kx, ky, v), "functions": VK.FUNCS_CLIENTS, "engine": "PyVC"})
    # printer / parser round trip and well-formedness on the template family (bounded stand-in; equivalence of differently
    # compiled parsed IR is proved on the bytecode)
    groups = [["arith.uint8.add", "cmp.int256.lt", "if.else"], ["for.range", "for.break", "storage.rw"], ["internal.memarg", "internal.tuple", "storage.struct"],
              ["echo.bytes", "dispatch.six", "extcall.view"], ["event.static", "sarray.index", "storage.map"]]
    for cfg in (("V-O2", "V-none") if tier == "quick" else ("V-O2", "V-none", "V-O3", "V-Os")):
        for g in groups:
            J.append({"id": f"C14/B/venom-ir-text-and-wellformedness[{g[0]}..;{cfg}]", "fn": "vverif.contracts.venom_kernels:job_ir_roundtrip", "args": (g, cfg), "functions": VK.FUNCS_IRTEXT, "engine": "bounded"})
    return J


def replay(o):
    r = o.get("replay") or {}
    k = r.get("kind")
    if k in VK.REPLAY:
        return VK.REPLAY[k](o)
    if k in R.REPLAY:
        return R.REPLAY[k](o)
    return {"reproduced": None, "detail": "no native replay for this obligation kind"}


def finding_key(o):
    return o["job"] + "/" + o["clause"].split("#")[0]


def evidence_meta(tier):
    return {
        "trusted_base": ["vverif/spec_evm.py (EVM word operations from the Yellow Paper)"],
        "assumptions": ["A1 spec library correct", "A2 solvers sound", "A5 CPython semantics of modelled builtins", "A9 termination not proved"],
        "bounded_note": "printer/parser round trip and find_semantic_errors before and after the pass pipeline on 15 templates x Venom levels (run-time contract evaluation; "
                        "when the parsed IR compiles to different bytes their observational equivalence is proved on the bytecode)",
        "explanation": "PyVC obligations on the range analysis kernels; see DESIGN.md 3/C14",
    }
