"""C19 — ABI, method identifiers and interface outputs describe the deployed contract truthfully (narrow claim).  DESIGN.md 3/C19."""
from vverif.contracts import abi_outputs as A

PROPERTY = "C19"
LEVEL = "other"


def jobs(tier, seed):
    quick = tier == "quick"
    J = []
    cfgs = ["L-gas", "V-O2"] if quick else ["L-gas", "L-none", "L-codesize", "V-O2", "V-none", "V-O3", "V-Os"]
    for tid, src in A.family().items():
        for cfg in cfgs:
            evms = ("cancun", "shanghai") if tid.startswith("lock.") else ("cancun",)
            for evm in evms:
                J.append({"id": f"C19/G/abi-describes-contract[{tid};{cfg};{evm}]", "fn": "vverif.contracts.abi_outputs:job_abi", "args": (tid, src, cfg, evm), "functions": A.FUNCS, "engine": "GenVC"})
    return J


def replay(o):
    k = (o.get("replay") or {}).get("kind")
    if k in A.REPLAY:
        return A.REPLAY[k](o)
    return {"reproduced": None, "detail": "no native replay"}


def finding_key(o):
    return o["job"] + "/" + o["clause"].split("#")[0]


def evidence_meta(tier):
    return {
        "trusted_base": ["vverif/contracts/abi_outputs.py:type_json/expected_abi (ABI json derived from the annotated source per the ABI specification)", "vverif/sem/bytecode.py + machine.py"],
        "assumptions": ["per template; the ABI entries are compared structurally (type strings, components, names, indexed flags, stateMutability)",
                        "that arguments encoded per the declared inputs are accepted and outputs decode per the declared outputs is decided for the same templates by C05/C06/C07 against the source types; "
                        "this check ties the ABI json to those source types",
                        "'a caller compiled against the generated interface obtains the same results' is not decided (only that the interface text compiles)"],
        "explanation": "independent derivation of the ABI json vs the compiler's output; method ids vs keccak4; mutability vs behaviour of the real bytecode for all calldata/state; interface text recompiled",
    }
