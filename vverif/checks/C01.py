"""C01 — compiled bytecode implements the source semantics (per template instance).  DESIGN.md 3/C01."""
from vverif.contracts import source_sem as S
from vverif.contracts.templates_lib import build

PROPERTY = "C01"

# templates outside the reference semantics' current subset (dynamic types, external calls, create, immutables, the lock):
# they are covered by the relational contracts (C02) and by the property-specific contracts (C05, C06, C09, C12, C13)
OUTSIDE = ("saverestore.", "storage.dynarray", "storage.bytes", "slice", "send", "selfcall.order", "rawrevert", "rawcall.", "lock.", "internal.bytes", "extract32", "extcall.bytes",
           "event.bytes", "echo.string", "echo.dynarray", "echo.bytes", "dynarray.", "create.", "concat.", "bytes.", "abi_encode.", "abi_decode.", "pow.")
# inside the subset but with non-linear obligations that need minutes (thorough tier only; C03 decides the arithmetic kernels)
HEAVY = (".mul", "decimal.div", "decimal.floor", "decimal.ceil", "mulmod", "internal.call", "isqrt-free")


def supported(quick):
    T = build(quick)
    return {k: v for k, v in T.items() if not k.startswith(OUTSIDE)}


def jobs(tier, seed):
    quick = tier == "quick"
    J = []
    T = supported(quick)
    for tid, src in T.items():
        heavy = any(h in tid for h in HEAVY)
        if heavy and (quick or not tid.startswith(("internal.call", "isqrt-free", "arith.uint8.mul", "decimal.floor", "decimal.ceil"))):
            continue  # multiplication / decimal division templates do not decide within the budget (C03 decides the arithmetic kernels)
        if quick:
            cfgs = ["L-gas", "V-O2"]
            if tid.startswith(("arith.uint8.add", "arith.int128.sub", "cmp.int256.lt", "if.else", "for.range", "storage.", "internal.tuple", "event.static", "convert.decimal.int8", "echo.struct", "sarray.index")):
                cfgs += ["L-none", "L-codesize", "V-none", "V-O3", "V-Os"]
        else:
            cfgs = ["L-gas", "L-none", "L-codesize", "V-O2", "V-none", "V-O3", "V-Os"]
        for cfg in cfgs:
            J.append({"id": f"C01/G/source-semantics[{tid};{cfg}]", "fn": "vverif.contracts.source_sem:job_src", "args": (tid, src, cfg), "functions": S.FUNCS, "engine": "GenVC"})
    return J


def replay(o):
    k = (o.get("replay") or {}).get("kind")
    if k in S.REPLAY:
        return S.REPLAY[k](o)
    return {"reproduced": None, "detail": "no native replay"}


def finding_key(o):
    return o["job"] + "/" + o["clause"].split("#")[0].split("[")[0]


def evidence_meta(tier):
    return {
        "trusted_base": ["vverif/spec_source.py (reference semantics of the source subset, written from docs/)", "vverif/spec_vyper.py, vverif/spec_evm.py", "vverif/sem/bytecode.py + machine.py (bytecode denotation)",
                         "the front end's parser and type annotations (the reference semantics interprets the annotated AST)"],
        "assumptions": ["per template instance (vverif/contracts/templates_lib.py, the part inside the reference semantics' subset), universally over calldata, value, context and prior storage",
                        "storage slots are those of the compiler's layout output (C10 decides that this is the layout used); HashMap entries at keccak256(slot ++ key)",
                        "programs are not composed: a proof for each template, not for every program"],
        "explanation": "template route: compile(P, config) is denoted for all inputs and proved observationally equal to the reference semantics of P (status, return/revert data, logs, final state)",
    }
