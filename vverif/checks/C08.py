"""C08 — side effects happen exactly once, in source order.  DESIGN.md 3/C08."""
from vverif.contracts import effects as E
from vverif.contracts import source_sem as S

PROPERTY = "C08"


def jobs(tier, seed):
    quick = tier == "quick"
    J = []
    cfgs = ["L-gas", "V-O2"] if quick else ["L-gas", "L-none", "L-codesize", "V-O2", "V-none", "V-O3", "V-Os"]
    from vverif.contracts.extcalls import ordering_family

    fam = dict(E.family(quick))
    fam.update(ordering_family())
    for tid, src in fam.items():
        for cfg in cfgs:
            J.append({"id": f"C08/G/effects[{tid};{cfg}]", "fn": "vverif.contracts.source_sem:job_src", "args": ("effects." + tid, src, cfg), "functions": S.FUNCS, "engine": "GenVC"})
    return J


def replay(o):
    k = (o.get("replay") or {}).get("kind")
    if k in S.REPLAY:
        return S.REPLAY[k](o)
    return {"reproduced": None, "detail": "no native replay"}


def finding_key(o):
    return o["job"] + "/" + o["clause"].split("#")[0].split("[")[0]


def evidence_meta(tier):
    return {
        "trusted_base": ["vverif/spec_source.py (reference semantics of the source subset: left-to-right evaluation, by-value copies)", "vverif/sem/bytecode.py + machine.py (bytecode denotation)",
                         "the front end's type annotations"],
        "assumptions": ["per template (position x effect family in vverif/contracts/effects.py), universally over calldata, value and prior state",
                        "builtin and log arguments carry at most one effectful operand (their relative order is unspecified by the property)"],
        "explanation": "template route: the real compiler's bytecode per template/configuration is proved observationally equal (logs in order, result, final state) to the reference semantics",
    }
