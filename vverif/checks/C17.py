"""C17 — compile-time evaluation agrees with run-time evaluation.  DESIGN.md 3/C17."""
from vverif.contracts import folding as F

PROPERTY = "C17"


def jobs(tier, seed):
    quick = tier == "quick"
    J = []
    n = len(F.expressions(quick))
    step = 80
    cfgs = ["L-gas", "V-O2"] if quick else ["L-gas", "L-none", "L-codesize", "V-O2", "V-none", "V-O3", "V-Os"]
    for cfg in cfgs:
        for lo in range(0, n, step):
            J.append({"id": f"C17/G/fold-equals-runtime[{lo}:{min(n, lo + step)};{cfg}]", "fn": "vverif.contracts.folding:job_fold", "args": (lo, min(n, lo + step), cfg, quick),
                      "functions": F.FUNCS, "engine": "GenVC"})
    return J


def replay(o):
    k = (o.get("replay") or {}).get("kind")
    if k in F.REPLAY:
        return F.REPLAY[k](o)
    return {"reproduced": None, "detail": "no native replay"}


def finding_key(o):
    c = o["clause"].split("#")[0]
    return "C17/G/" + c + ";" + o["job"].rsplit(";", 1)[-1].rstrip("]")


def evidence_meta(tier):
    return {
        "trusted_base": ["vverif/spec_source.py run with the front end's folded values ignored (run-time rules applied to literal operands)", "vverif/sem/bytecode.py + machine.py"],
        "assumptions": ["per expression instance: operators x numeric types x boundary literal operands (family in vverif/contracts/folding.py); no symbolic inputs remain, so each obligation is a closed formula",
                        "when the compiler rejects an expression, or the run-time rules revert, there is no obligation (at most one side rejects)",
                        "keccak256/sha256/uint2str/as_wei_value/method_id folding is not covered"],
        "explanation": "template route: `return E(literals)` compiled by the real compiler (folding in the front end, in the legacy optimiser, in Venom SCCP) must return the value the run-time rules give to E",
    }
