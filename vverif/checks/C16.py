"""C16 — bytecode is a faithful encoding of the assembly.  See DESIGN.md 3/C16."""
from vverif.contracts import assembler as A
from vverif.contracts.templates_lib import build

PROPERTY = "C16"
EVMS = ["london", "paris", "shanghai", "cancun", "prague"]
LOCK_QUICK = ("arith.uint8.add", "arith.int256.mul", "dispatch.", "immutable", "storage.getter", "internal.call", "extcall.view", "rawcall.basic", "create.blueprint",
              "echo.bytes", "event.bytes", "lock.basic", "for.range", "constant", "selfcall.order", "slice", "decimal.div")


def jobs(tier, seed):
    quick = tier == "quick"
    J = []
    for evm in EVMS:
        J.append({"id": f"C16/P/instructions.PUSH+calc_push_size[{evm}]", "fn": "vverif.contracts.assembler:job_push", "args": (evm,), "functions": A.FUNCS, "engine": "PyVC"})
        J.append({"id": f"C16/F/two-pass-agreement.synthetic[{evm}]", "fn": "vverif.contracts.assembler:job_synthetic", "args": (evm,), "functions": A.FUNCS, "engine": "FinEx"})
    for n in (1, 2, 3, 32):
        J.append({"id": f"C16/P/instructions.PUSH_N[n={n}]", "fn": "vverif.contracts.assembler:job_push_n", "args": (n,), "functions": A.FUNCS, "engine": "PyVC"})
    T = build(quick)
    for tid, src in T.items():
        if quick and not tid.startswith(LOCK_QUICK):
            continue
        for cfg in ("L-gas", "L-none", "V-O2"):
            for evm in (("cancun", "paris") if tid in ("rawcall.basic", "dispatch.six", "lock.basic", "echo.bytes") else ("cancun",)):
                J.append({"id": f"C16/F/lockstep[{tid};{cfg};{evm}]", "fn": "vverif.contracts.assembler:job_lockstep", "args": (tid, src, cfg, evm), "functions": A.FUNCS, "engine": "FinEx"})
    return J


def replay(o):
    k = (o.get("replay") or {}).get("kind")
    if k in A.REPLAY:
        return A.REPLAY[k](o)
    return {"reproduced": None, "detail": "no native replay"}


def finding_key(o):
    return o["job"] + "/" + o["clause"].split("#")[0]


def evidence_meta(tier):
    return {
        "trusted_base": ["the independent opcode table and decoder in vverif/contracts/assembler.py + vverif/sem/bytecode.py"],
        "assumptions": ["A2", "A5", "two-pass agreement (pc accounting == emitted bytes) is decided per assembly instance (real template assemblies and a synthetic family covering every item kind), "
                        "not as an unbounded loop invariant"],
        "explanation": "PyVC proofs (all values) for PUSH/PUSH_N/calc_push_size; lock-step independent decoding of assembly_to_evm output per instance",
    }
