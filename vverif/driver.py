"""Check driver: runs the jobs of one property on a process pool, triages the verdicts, replays
counterexamples natively, applies the known-findings file, writes evidence/<id>.json and sets the exit code.

Exit codes: 0 every claimed obligation discharged (known findings only printed); 1 violation;
2 undecided (solver gave up on code whose contract text did not change); 3 checker error.
"""
import argparse
import hashlib
import importlib
import inspect
import json
import os
import sys
import time
import traceback
from concurrent.futures import ProcessPoolExecutor, as_completed

ROOT = os.path.dirname(os.path.dirname(os.path.abspath(__file__)))
NPROC = int(os.environ.get("VVERIF_NPROC", str(min(16, os.cpu_count() or 4))))
# evidence and replay files of a run against another tree than /repo (seeded-change tooling) go to a scratch directory
_ALT = os.environ.get("VVERIF_REPO", "/repo") != "/repo"
OUT = os.path.join(ROOT, ".cache", "alt-" + hashlib.sha256(os.environ.get("VVERIF_REPO", "").encode()).hexdigest()[:10]) if _ALT else ROOT


class Undecided(Exception):
    """raised by an engine when the code under contract leaves the supported subset"""


def resolve(path):
    """'pkg.mod:Qual.name' or 'pkg.mod:NAME["key"]' -> object"""
    mod, _, qual = path.partition(":")
    obj = importlib.import_module(mod)
    if not qual:
        return obj
    for part in qual.replace('["', ".[").replace('"]', "]").split("."):
        if part.startswith("["):
            obj = obj[part[1:-1]]
        else:
            obj = inspect.getattr_static(obj, part) if inspect.isclass(obj) else getattr(obj, part)
            if isinstance(obj, (staticmethod, classmethod)):
                obj = obj.__func__
    return obj


def source_hash(path):
    try:
        obj = resolve(path)
        if isinstance(obj, property):
            obj = obj.fget
        obj = inspect.unwrap(obj) if callable(obj) else obj
        src = inspect.getsource(obj)
    except Exception as e:  # noqa
        return "unavailable:" + type(e).__name__
    return hashlib.sha256(src.encode()).hexdigest()[:16]


class _JobTimeout(BaseException):
    pass


def _alarm(signum, frame):
    raise _JobTimeout()


JOB_BUDGET_S = int(os.environ.get("VVERIF_JOB_BUDGET", "1200"))


def _run_job(job, scale):
    """executed in a worker process; a job that exceeds its wall-clock budget is reported undecided (never a verdict)"""
    import signal

    t0 = time.time()
    try:
        signal.signal(signal.SIGALRM, _alarm)
        signal.alarm(JOB_BUDGET_S * scale)
    except Exception:
        pass
    try:
        return _run_job_inner(job, scale, t0)
    except _JobTimeout:
        return {"job": job["id"], "obs": [{"job": job["id"], "id": job["id"] + "/budget", "clause": "budget", "status": "unknown", "backend": "engine", "seconds": round(time.time() - t0, 1), "model": None,
                                           "note": f"job exceeded its wall-clock budget of {JOB_BUDGET_S * scale}s"}], "seconds": round(time.time() - t0, 2), "error": None}
    finally:
        try:
            signal.alarm(0)
        except Exception:
            pass


def _run_job_inner(job, scale, t0):
    try:
        mod, _, fn = job["fn"].partition(":")
        f = getattr(importlib.import_module(mod), fn)
        obs = f(*job.get("args", ()), **dict(job.get("kwargs", {}), scale=scale))
        for o in obs:
            o.setdefault("job", job["id"])
            o["id"] = job["id"] + "/" + o["clause"]
        return {"job": job["id"], "obs": obs, "seconds": round(time.time() - t0, 2), "error": None}
    except Undecided as e:
        return {
            "job": job["id"],
            "obs": [
                {
                    "job": job["id"],
                    "id": job["id"] + "/subset",
                    "clause": "subset",
                    "status": "unknown",
                    "backend": "engine",
                    "seconds": 0,
                    "model": None,
                    "note": "outside verified subset: " + str(e)[:300],
                }
            ],
            "seconds": round(time.time() - t0, 2),
            "error": None,
        }
    except Exception:
        return {"job": job["id"], "obs": [], "seconds": round(time.time() - t0, 2), "error": traceback.format_exc()[-3000:]}


def run_pool(jobs, scale=1, nproc=NPROC, progress=True):
    """runs the jobs on a process pool; survives the death of a worker (solver crash, out of memory): the jobs that
    were lost are re-run one per fresh process and the one that kills its worker is reported as a checker error"""
    from concurrent.futures.process import BrokenProcessPool

    out = {}
    t0 = time.time()
    pending = list(jobs)
    workers = nproc
    while pending:
        broken = False
        ex = ProcessPoolExecutor(max_workers=max(1, workers))
        futs = {ex.submit(_run_job, j, scale): j for j in pending}
        try:
            for fu in as_completed(futs):
                j = futs[fu]
                try:
                    r = fu.result()
                except BrokenProcessPool:
                    broken = True
                    continue
                except Exception:
                    r = {"job": j["id"], "obs": [], "seconds": 0, "error": traceback.format_exc()[-2000:]}
                out[j["id"]] = r
                if progress and (len(out) % 50 == 0 or len(out) == len(jobs)):
                    print(f"  [{len(out)}/{len(jobs)} jobs, {time.time() - t0:.0f}s]", flush=True)
        finally:
            ex.shutdown(wait=True, cancel_futures=True)
        pending = [j for j in pending if j["id"] not in out]
        if pending and broken:
            if workers == 1:
                # the first pending job killed its private worker
                j = pending.pop(0)
                out[j["id"]] = {"job": j["id"], "obs": [], "seconds": 0, "error": "worker process died while running this job (crash or out of memory)"}
            else:
                print(f"  worker died; re-running {len(pending)} jobs one per process", flush=True)
                workers = 1
        elif pending:
            break
    for j in jobs:
        out.setdefault(j["id"], {"job": j["id"], "obs": [], "seconds": 0, "error": "job lost"})
    return [out[j["id"]] for j in jobs]


def load_known(pid):
    path = os.path.join(ROOT, "known_findings.jsonl")
    known, fixed = [], []
    if os.path.exists(path):
        for line in open(path):
            line = line.strip()
            if not line or line.startswith("#"):
                continue
            d = json.loads(line)
            if pid not in d.get("properties", [d.get("property")]):
                continue
            (fixed if d.get("kind") == "fixed" else known).append(d)
    return known, fixed


def load_ledger(pid):
    p = os.path.join(ROOT, "ledger", pid + ".json")
    if os.path.exists(p):
        return json.load(open(p))
    return {"undecided": {}, "hashes": {}, "counts": {}}


def main(argv=None):
    ap = argparse.ArgumentParser()
    ap.add_argument("cmd", choices=["check", "replay"])
    ap.add_argument("property")
    ap.add_argument("--tier", default=os.environ.get("VERIF_TIER", "quick"), choices=["quick", "thorough"])
    ap.add_argument("--seed", type=int, default=int(os.environ.get("VERIF_SEED", "0")))
    ap.add_argument("--only", default=None, help="substring filter on job ids (debugging; evidence is not written)")
    ap.add_argument("--update-ledger", action="store_true")
    ap.add_argument("--sync-hashes", action="store_true", help="only refresh the source hashes of the functions under contract in the ledger (no jobs are run)")
    ap.add_argument("--file", default=None)
    a = ap.parse_args(argv)
    pid = a.property
    t_start = time.time()
    os.chdir(ROOT)
    mod = importlib.import_module("vverif.checks." + pid)
    if a.cmd == "replay":
        rep = json.load(open(a.file))
        res = mod.replay(rep["obligation"])
        print(json.dumps(res, indent=1, default=str))
        return 0 if not res.get("reproduced") else 1

    jobs = mod.jobs(a.tier, a.seed)
    if a.sync_hashes:
        led = load_ledger(pid)
        h = dict(led.get("hashes", {}))
        for f in sorted({f for j in jobs for f in j.get("functions", [])}):
            h[f] = source_hash(f)
        led["hashes"] = h
        os.makedirs(os.path.join(ROOT, "ledger"), exist_ok=True)
        json.dump(led, open(os.path.join(ROOT, "ledger", pid + ".json"), "w"), indent=1, sort_keys=True)
        print(f"{pid}: {len(h)} source hashes refreshed")
        return 0
    if a.only:
        jobs = [j for j in jobs if a.only in j["id"]]
    if not jobs:
        print(f"checker error: no jobs generated for {pid}")
        return 3
    print(f"{pid} tier={a.tier}: {len(jobs)} jobs on {NPROC} processes", flush=True)
    results = run_pool(jobs, scale=1)
    ledger = load_ledger(pid)

    class _Und(dict):
        """expected-undecided table; keys ending in '*' are prefix patterns (hand-curated families of hard leaves)"""

        def get(self, k, default=0):
            if k in self:
                return self[k]
            best = default
            for pat, n in self.items():
                if pat.endswith("*") and k.startswith(pat[:-1]):
                    best = max(best, n)
            return best

    exp_und = _Und(ledger.get("undecided", {}))
    exp_und.update(ledger.get("undecided_patterns", {}))
    if a.tier == "thorough":  # families of hard leaves that only the thorough tier instantiates
        exp_und.update(ledger.get("undecided_patterns_thorough", {}))

    # ---- checker errors
    errors = [r for r in results if r["error"]]
    # ---- retry unknowns once with a 4x budget, serially less loaded
    jobs_by_id = {j["id"]: j for j in jobs}

    def unknowns_of(r):
        # (a job that ran out of its wall-clock budget is not retried: more solver time does not help a run-away exploration)
        if any(o["status"] == "unknown" and o.get("clause") == "budget" for o in r["obs"]):
            return []
        return [o for o in r["obs"] if o["status"] == "unknown"]

    def group(o):
        return o["job"] + "/" + o["clause"].split("#")[0]

    retry = []
    for r in results:
        us = unknowns_of(r)
        if not us:
            continue
        cnt = {}
        for o in us:
            cnt[group(o)] = cnt.get(group(o), 0) + 1
        if any(n > exp_und.get(g, 0) for g, n in cnt.items()):
            retry.append(jobs_by_id[r["job"]])
    if retry and not a.update_ledger:
        for scale, nproc in ((4, max(1, NPROC // 2)), (12, max(1, NPROC // 4))):
            print(f"  retrying {len(retry)} jobs with unexpected unknowns at {scale}x budget on {nproc} processes", flush=True)
            rr = run_pool(retry, scale=scale, nproc=nproc)
            byid = {r["job"]: r for r in rr}
            results = [byid.get(r["job"], r) if not byid.get(r["job"], r)["error"] else r for r in results]
            retry = []
            for r in results:
                us = unknowns_of(r)
                cnt = {}
                for o in us:
                    cnt[group(o)] = cnt.get(group(o), 0) + 1
                if any(n > exp_und.get(g, 0) for g, n in cnt.items()):
                    retry.append(jobs_by_id[r["job"]])
            if not retry:
                break

    all_obs = [o for r in results for o in r["obs"]]
    # zero-obligation guard (vacuity)
    empty_jobs = [r["job"] for r in results if not r["error"] and not r["obs"]]

    fn_paths = sorted({f for j in jobs for f in j.get("functions", [])})
    hashes = {f: source_hash(f) for f in fn_paths}
    changed_fns = {f for f, h in hashes.items() if f in ledger.get("hashes", {}) and ledger["hashes"][f] != h}

    proved = [o for o in all_obs if o["status"] == "proved" and not o.get("bounded")]
    bounded_ok = [o for o in all_obs if o["status"] == "proved" and o.get("bounded")]
    refuted = [o for o in all_obs if o["status"] == "refuted"]
    unknown = [o for o in all_obs if o["status"] == "unknown"]

    # ---- unknown triage
    und_counts = {}
    for o in unknown:
        und_counts[group(o)] = und_counts.get(group(o), 0) + 1
    expected_unknown, new_unknown = [], []
    seen = {}
    for o in unknown:
        g = group(o)
        seen[g] = seen.get(g, 0) + 1
        (expected_unknown if seen[g] <= exp_und.get(g, 0) else new_unknown).append(o)

    # ---- replay refutations natively
    known, fixed = load_known(pid)
    os.makedirs(os.path.join(OUT, "replays"), exist_ok=True)
    if not a.only:
        for fn in os.listdir(os.path.join(OUT, "replays")):
            if fn.startswith(pid + "-"):
                os.unlink(os.path.join(OUT, "replays", fn))
    violations, known_hits, engine_defects = [], [], []
    seen_keys = set()
    for o in refuted:
        key = mod.finding_key(o) if hasattr(mod, "finding_key") else o["id"]
        try:
            rep = mod.replay(o)
        except Exception:
            rep = {"reproduced": None, "detail": "replay crashed: " + traceback.format_exc()[-1500:]}
        o["replay_result"] = rep
        o["finding_key"] = key
        if rep.get("reproduced") is False:
            engine_defects.append(o)
            continue
        hit = next((k for k in known if k["key"] == key), None)
        if hit:
            if key not in seen_keys:
                known_hits.append((hit, o))
            seen_keys.add(key)
            continue
        violations.append(o)

    # a known finding that is listed must still be detected? no: listing suppresses only; nothing to do.
    exit_code = 0
    lines = []
    for hit, o in known_hits:
        lines.append(f"KNOWN-FINDING: property={pid} {hit['key']} — {hit.get('what', '')}")
    vio_keys = set()
    for o in violations:
        key = o["finding_key"]
        if key in vio_keys:
            continue
        vio_keys.add(key)
        safe = "".join(c if c.isalnum() or c in "-_." else "_" for c in key)[:120]
        path = os.path.join("replays", f"{pid}-{safe}.json")
        with open(os.path.join(OUT, path), "w") as f:
            json.dump({"property": pid, "obligation": o, "how": f".venv/bin/python -m vverif replay {pid} --file {path}"}, f, indent=1, default=str)
        tail = "" if o["replay_result"].get("reproduced") else " no-failing-input-found"
        lines.append(f"VIOLATION property={pid} replay={path}{tail}")
        exit_code = 1
    # unknowns on code whose contract-relevant source changed: the verifier no longer accepts the code
    und_violation, und_plain = [], []
    for o in new_unknown:
        j = jobs_by_id[o["job"]]
        if changed_fns & set(j.get("functions", [])):
            und_violation.append(o)
        else:
            und_plain.append(o)
    gseen = set()
    for o in und_violation:
        g = group(o)
        if g in gseen:
            continue
        gseen.add(g)
        safe = "".join(c if c.isalnum() or c in "-_." else "_" for c in g)[:120]
        path = os.path.join("replays", f"{pid}-undischarged-{safe}.json")
        with open(os.path.join(OUT, path), "w") as f:
            json.dump({"property": pid, "obligation": o, "failed_obligation": o["id"], "solver_output": o.get("note", "unknown from every back end at 4x budget"),
                       "changed_functions": sorted(changed_fns & set(jobs_by_id[o["job"]].get("functions", [])))}, f, indent=1, default=str)
        lines.append(f"VIOLATION property={pid} replay={path} no-failing-input-found")
        exit_code = 1
    if exit_code == 0 and (errors or engine_defects or empty_jobs):
        exit_code = 3
    if exit_code == 0 and und_plain:
        exit_code = 2

    slow = sorted(results, key=lambda r: -r["seconds"])[:5]
    print("  slowest jobs: " + ", ".join(f"{r['job'].split('/',2)[-1]}={r['seconds']}s" for r in slow))
    for ln in lines:
        print(ln)
    for r in errors[:5]:
        print(f"CHECKER-ERROR job={r['job']}\n{r['error']}")
    for o in engine_defects[:5]:
        print(f"ENGINE-DEFECT (counterexample did not replay natively; not a violation) {o['id']} model={o.get('model')} replay={o['replay_result']}")
    for jb in empty_jobs[:5]:
        print(f"CHECKER-ERROR job={jb} generated zero obligations")
    for o in und_plain[:10]:
        print(f"UNDECIDED {o['id']} {o.get('note', '')}")
    if und_plain or expected_unknown:
        with open(os.path.join(OUT, "replays", f"{pid}-undecided.txt"), "w") as f:
            for o in und_plain + expected_unknown:
                f.write(f"{o['id']}\t{o.get('note', '')}\n")

    by_backend = {}
    solver_s = 0.0
    for o in proved:
        by_backend[o["backend"]] = by_backend.get(o["backend"], 0) + 1
    for o in all_obs:
        solver_s += o.get("seconds", 0)
    # obligations claimed by this run: those proved, those newly violated and those newly undecided.  Obligations that fail
    # because of a recorded known finding, and the hand-listed expected-undecided leaves, are not claimed; they are reported
    # separately (known_findings_reported, refuted_known, undecided_expected_count) and never counted as discharged
    n_known_refuted = sum(1 for o in refuted if any(k["key"] == o.get("finding_key") for k in known))
    n_ob = len(proved) + (len(refuted) - n_known_refuted) + len(new_unknown)
    wall = round(time.time() - t_start, 1)
    print(
        f"{pid}: obligations={n_ob} discharged={len(proved)} refuted={len(refuted)} "
        f"(known={len(known_hits)}, violations={len(vio_keys)}, not-reproduced={len(engine_defects)}) "
        f"unknown(expected)={len(expected_unknown)} unknown(new)={len(new_unknown)} bounded={len(bounded_ok)} "
        f"errors={len(errors)} wall={wall}s exit={exit_code}"
    )

    if a.update_ledger:
        ledger = {
            "undecided_patterns": load_ledger(pid).get("undecided_patterns", {}),
            "undecided_patterns_thorough": load_ledger(pid).get("undecided_patterns_thorough", {}),
            "undecided": und_counts,
            "hashes": hashes,
            "counts": {"obligations": n_ob, "proved": len(proved), "jobs": len(jobs)},
            "tier": a.tier,
        }
        old = load_ledger(pid)
        if a.tier == "quick" and old.get("tier") == "thorough":
            # keep the union so that both tiers are covered
            u = dict(old.get("undecided", {}))
            u.update(und_counts)
            ledger["undecided"] = u
            h = dict(old.get("hashes", {}))
            h.update(hashes)
            ledger["hashes"] = h
        os.makedirs(os.path.join(ROOT, "ledger"), exist_ok=True)
        json.dump(ledger, open(os.path.join(ROOT, "ledger", pid + ".json"), "w"), indent=1, sort_keys=True)
        print("ledger updated")

    if not a.only:
        meta = mod.evidence_meta(a.tier) if hasattr(mod, "evidence_meta") else {}
        samples = []
        for o in (proved[:: max(1, len(proved) // 6)][:6] + refuted[:3]):
            samples.append({k: o.get(k) for k in ("id", "status", "backend", "seconds", "model", "note") if o.get(k) is not None})
        engines = {}
        for j in jobs:
            engines[j.get("engine", "?")] = engines.get(j.get("engine", "?"), 0) + 1
        ev = {
            "property_id": pid,
            "tier": a.tier,
            "seed": a.seed,
            "level": getattr(mod, "LEVEL", "proof"),
            "coverage": {
                "obligations": n_ob,
                "discharged": len(proved),
                "checker_cmd": f".venv/bin/python -m vverif check {pid} --tier {a.tier}",
                "trusted_base": meta.get("trusted_base", [])
                + ["z3 5.1.0", "cvc5 1.4.0 (python API)", "CPython 3.12", "vverif engines (PyVC executor / denotation interpreters), see DESIGN.md 2"],
                "exhaustive": False,
                "samples": samples,
                "by_backend": by_backend,
                "solver_seconds": round(solver_s, 1),
                "jobs": len(jobs),
                "jobs_by_engine": engines,
                "functions_under_contract": [{"function": f, "sha256_16": h} for f, h in sorted(hashes.items())],
                "refuted": len(refuted),
                "refuted_known": n_known_refuted,
                "known_findings_reported": [h["key"] for h, _ in known_hits],
                "undecided_expected": und_counts if expected_unknown else {},
                "undecided_expected_count": len(expected_unknown),
                "undecided_new": [o["id"] for o in new_unknown][:50],
                "bounded": {"count": len(bounded_ok), "note": meta.get("bounded_note", "")},
                "explanation": meta.get("explanation", ""),
                "per_instance_domains": meta.get("domains", {}),
            },
            "assumptions": meta.get("assumptions", []),
            "wall_s": wall,
            "violations": len(vio_keys) + len(gseen),
        }
        os.makedirs(os.path.join(OUT, "evidence"), exist_ok=True)
        json.dump(ev, open(os.path.join(OUT, "evidence", pid + ".json"), "w"), indent=1, default=str)
    return exit_code


if __name__ == "__main__":
    sys.exit(main())
