import sys
from vverif.driver import main

sys.exit(main())
