"""Specification of EVM word operations (Yellow Paper, appendix H), written from the document, in three
presentations that are cross-checked by `vverif.selftest`:

  py_op(name, *words)   concrete Python integers in [0, 2**256)
  zi_op(name, *terms)   z3 Int terms constrained to [0, 2**256)        (non-linear friendly)
  bv_op(name, *terms)   z3 256-bit bit-vectors

Argument order is EVM stack order (first argument = top of stack), e.g. sub(a, b) = a - b, shl(shift, value).
"""
import z3

M = 2**256
H = 2**255
MASK = M - 1


# ----------------------------------------------------------------------------- concrete
def s(w):
    return w - M if w >= H else w


def u(x):
    return x % M


def _tdiv(a, b):
    q = abs(a) // abs(b)
    return -q if (a < 0) != (b < 0) else q


def _tmod(a, b):
    r = abs(a) % abs(b)
    return -r if a < 0 else r


def py_op(name, *a):
    if name == "add":
        return (a[0] + a[1]) % M
    if name == "sub":
        return (a[0] - a[1]) % M
    if name == "mul":
        return (a[0] * a[1]) % M
    if name == "div":
        return 0 if a[1] == 0 else a[0] // a[1]
    if name == "sdiv":
        return 0 if a[1] == 0 else u(_tdiv(s(a[0]), s(a[1])))
    if name == "mod":
        return 0 if a[1] == 0 else a[0] % a[1]
    if name == "smod":
        return 0 if a[1] == 0 else u(_tmod(s(a[0]), s(a[1])))
    if name == "addmod":
        return 0 if a[2] == 0 else (a[0] + a[1]) % a[2]
    if name == "mulmod":
        return 0 if a[2] == 0 else (a[0] * a[1]) % a[2]
    if name == "exp":
        return pow(a[0], a[1], M)
    if name == "signextend":
        if a[0] >= 31:
            return a[1]
        bits = 8 * (a[0] + 1)
        low = a[1] % (1 << bits)
        return low if low < (1 << (bits - 1)) else (low - (1 << bits)) % M
    if name == "lt":
        return int(a[0] < a[1])
    if name == "gt":
        return int(a[0] > a[1])
    if name == "slt":
        return int(s(a[0]) < s(a[1]))
    if name == "sgt":
        return int(s(a[0]) > s(a[1]))
    if name == "eq":
        return int(a[0] == a[1])
    if name == "iszero":
        return int(a[0] == 0)
    if name == "and":
        return a[0] & a[1]
    if name == "or":
        return a[0] | a[1]
    if name == "xor":
        return a[0] ^ a[1]
    if name == "not":
        return MASK - a[0]
    if name == "byte":
        return 0 if a[0] >= 32 else (a[1] >> (8 * (31 - a[0]))) & 0xFF
    if name == "shl":
        return 0 if a[0] >= 256 else (a[1] << a[0]) % M
    if name == "shr":
        return 0 if a[0] >= 256 else a[1] >> a[0]
    if name == "sar":
        if a[0] >= 256:
            return MASK if a[1] >= H else 0
        return u(s(a[1]) >> a[0])
    # derived (legacy IR pseudo-opcodes)
    if name == "ne":
        return int(a[0] != a[1])
    if name == "le":
        return int(a[0] <= a[1])
    if name == "ge":
        return int(a[0] >= a[1])
    if name == "sle":
        return int(s(a[0]) <= s(a[1]))
    if name == "sge":
        return int(s(a[0]) >= s(a[1]))
    raise KeyError(name)


# ----------------------------------------------------------------------------- z3 Int
I = z3.IntVal


def zs(w):
    return z3.If(w >= H, w - M, w)


def zu(x):
    return x % M


def zabs(x):
    return z3.If(x >= 0, x, -x)


def ztdiv(a, b):
    q = zabs(a) / zabs(b)
    return z3.If((a < 0) != (b < 0), -q, q)


def ztmod(a, b):
    r = zabs(a) % zabs(b)
    return z3.If(a < 0, -r, r)


def b2i(b):
    return z3.If(b, I(1), I(0))


def zi_op(name, *a, uf=None):
    """uf: dict of uninterpreted functions for and/or/xor/exp when both operands are symbolic"""
    if name == "add":
        return (a[0] + a[1]) % M
    if name == "sub":
        return (a[0] - a[1]) % M
    if name == "mul":
        return (a[0] * a[1]) % M
    if name == "div":
        return z3.If(a[1] == 0, I(0), a[0] / a[1])
    if name == "sdiv":
        return z3.If(a[1] == 0, I(0), zu(ztdiv(zs(a[0]), zs(a[1]))))
    if name == "mod":
        return z3.If(a[1] == 0, I(0), a[0] % a[1])
    if name == "smod":
        return z3.If(a[1] == 0, I(0), zu(ztmod(zs(a[0]), zs(a[1]))))
    if name == "addmod":
        return z3.If(a[2] == 0, I(0), (a[0] + a[1]) % a[2])
    if name == "mulmod":
        return z3.If(a[2] == 0, I(0), (a[0] * a[1]) % a[2])
    if name == "lt":
        return b2i(a[0] < a[1])
    if name == "gt":
        return b2i(a[0] > a[1])
    if name == "slt":
        return b2i(zs(a[0]) < zs(a[1]))
    if name == "sgt":
        return b2i(zs(a[0]) > zs(a[1]))
    if name == "eq":
        return b2i(a[0] == a[1])
    if name == "iszero":
        return b2i(a[0] == 0)
    if name == "not":
        return MASK - a[0]
    if name == "ne":
        return b2i(a[0] != a[1])
    if name == "le":
        return b2i(a[0] <= a[1])
    if name == "ge":
        return b2i(a[0] >= a[1])
    if name == "sle":
        return b2i(zs(a[0]) <= zs(a[1]))
    if name == "sge":
        return b2i(zs(a[0]) >= zs(a[1]))
    if name in ("shl", "shr", "sar", "signextend", "byte"):
        k = a[0]
        if not isinstance(k, int):
            k = z3.simplify(k)
            if not z3.is_int_value(k):
                raise ValueError(name + " needs a concrete first operand in the Int presentation")
            k = k.as_long()
        x = a[1]
        if name == "shl":
            return I(0) if k >= 256 else (x * (1 << k)) % M
        if name == "shr":
            return I(0) if k >= 256 else x / (1 << k)
        if name == "sar":
            if k >= 256:
                return z3.If(x >= H, I(MASK), I(0))
            sx = zs(x)
            q = sx / (1 << k)  # SMT div by positive constant = floor
            return zu(q)
        if name == "signextend":
            if k >= 31:
                return x
            bits = 8 * (k + 1)
            low = x % (1 << bits)
            return z3.If(low < (1 << (bits - 1)), low, low - (1 << bits) + M)
        if name == "byte":
            return I(0) if k >= 32 else (x / (1 << (8 * (31 - k)))) % 256
    if name in ("and", "or", "xor", "exp"):
        if uf is None:
            raise ValueError(name + " needs uninterpreted functions in the Int presentation")
        return uf[name](a[0], a[1])
    raise KeyError(name)


# ----------------------------------------------------------------------------- z3 bit-vectors
def BV(v):
    return z3.BitVecVal(v % M, 256)


def b2v(b):
    return z3.If(b, BV(1), BV(0))


EXP_UF = z3.Function("EXP", z3.BitVecSort(256), z3.BitVecSort(256), z3.BitVecSort(256))


def bv_signextend(b, x):
    bs = z3.simplify(b) if z3.is_expr(b) else b
    if isinstance(bs, int) or z3.is_bv_value(bs):
        bb = bs if isinstance(bs, int) else bs.as_long()
        if bb >= 31:
            return x
        k = 8 * (bb + 1)
        return z3.SignExt(256 - k, z3.Extract(k - 1, 0, x))
    # symbolic byte index: ite-chain over the 31 effective cases
    r = x
    for bb in range(30, -1, -1):
        k = 8 * (bb + 1)
        r = z3.If(b == bb, z3.SignExt(256 - k, z3.Extract(k - 1, 0, x)), r)
    return r


def bv_op(name, *a):
    if name == "add":
        return a[0] + a[1]
    if name == "sub":
        return a[0] - a[1]
    if name == "mul":
        return a[0] * a[1]
    if name == "div":
        return z3.If(a[1] == 0, BV(0), z3.UDiv(a[0], a[1]))
    if name == "sdiv":
        return z3.If(a[1] == 0, BV(0), a[0] / a[1])  # bvsdiv truncates toward zero; MIN / -1 = MIN
    if name == "mod":
        return z3.If(a[1] == 0, BV(0), z3.URem(a[0], a[1]))
    if name == "smod":
        return z3.If(a[1] == 0, BV(0), z3.SRem(a[0], a[1]))
    if name == "addmod":
        r = z3.URem(z3.ZeroExt(1, a[0]) + z3.ZeroExt(1, a[1]), z3.ZeroExt(1, a[2]))
        return z3.If(a[2] == 0, BV(0), z3.Extract(255, 0, r))
    if name == "mulmod":
        r = z3.URem(z3.ZeroExt(256, a[0]) * z3.ZeroExt(256, a[1]), z3.ZeroExt(256, a[2]))
        return z3.If(a[2] == 0, BV(0), z3.Extract(255, 0, r))
    if name == "exp":
        return EXP_UF(a[0], a[1])
    if name == "signextend":
        return bv_signextend(a[0], a[1])
    if name == "lt":
        return b2v(z3.ULT(a[0], a[1]))
    if name == "gt":
        return b2v(z3.UGT(a[0], a[1]))
    if name == "le":
        return b2v(z3.ULE(a[0], a[1]))
    if name == "ge":
        return b2v(z3.UGE(a[0], a[1]))
    if name == "slt":
        return b2v(a[0] < a[1])
    if name == "sgt":
        return b2v(a[0] > a[1])
    if name == "sle":
        return b2v(a[0] <= a[1])
    if name == "sge":
        return b2v(a[0] >= a[1])
    if name == "eq":
        return b2v(a[0] == a[1])
    if name == "ne":
        return b2v(a[0] != a[1])
    if name == "iszero":
        return b2v(a[0] == 0)
    if name == "and":
        return a[0] & a[1]
    if name == "or":
        return a[0] | a[1]
    if name == "xor":
        return a[0] ^ a[1]
    if name == "not":
        return ~a[0]
    if name == "byte":
        sh = (BV(31) - a[0]) * BV(8)
        return z3.If(z3.UGE(a[0], BV(32)), BV(0), z3.LShR(a[1], sh) & BV(0xFF))
    if name == "shl":
        return a[1] << a[0]  # z3 bvshl saturates to 0 for shift >= width
    if name == "shr":
        return z3.LShR(a[1], a[0])
    if name == "sar":
        return a[1] >> a[0]  # bvashr saturates to sign fill
    raise KeyError(name)


ARITY = {
    "add": 2, "sub": 2, "mul": 2, "div": 2, "sdiv": 2, "mod": 2, "smod": 2, "addmod": 3, "mulmod": 3, "exp": 2,
    "signextend": 2, "lt": 2, "gt": 2, "slt": 2, "sgt": 2, "eq": 2, "iszero": 1, "and": 2, "or": 2, "xor": 2,
    "not": 1, "byte": 2, "shl": 2, "shr": 2, "sar": 2, "ne": 2, "le": 2, "ge": 2, "sle": 2, "sge": 2,
}
