"""Reference semantics of a subset of Vyper *source* programs (the oracle of C01 and, through it, of C02/C04/C08/C11):
a symbolic interpreter of the annotated AST, written from the language documentation (docs/), independent of both code
generators.  Types are those the real front end assigned (`_metadata["type"]`): the type checker is trusted, the code
generators, optimisers and assembler are what is being verified against this semantics.

What a call of a contract means here (docs/control-structures.rst, types.rst, built-in-functions.rst, the ABI spec):

  * the first four calldata bytes select the external function (or a default-argument variant); fewer than four bytes or
    no match selects __default__ if present, else the call reverts;
  * a selected entry reverts unless calldatasize >= 4 + head size, the value is zero or the function is payable, and every
    argument word is the canonical encoding of a value of its type;
  * statements run in order; expressions are evaluated left to right, operands before the operation, the right-hand side
    of an assignment before its target; arithmetic is exact or reverts; subscripts are bounds checked;
  * `return` ABI-encodes the value; reverts carry no data except `assert/raise` with a reason: Error(string);
  * storage variables live at the slots the compiler's `layout` output reports; HashMap entries at keccak(slot ++ key).

Values: one-word types are 256-bit words in their ABI representation (signed sign-extended, bytesM left-aligned);
static arrays / structs / tuples are Python lists of values.  Anything outside the subset raises Unsupported, which makes
the obligation undecided (never proved, never a violation).
"""
import z3

from vverif import spec_vyper as V
from vverif.sem import machine as Mx
from vverif.sem.machine import BV, ByteMem

W = Mx.W


class Unsupported(Exception):
    pass


# ----------------------------------------------------------------------------------------------------- types
def tname(t):
    """spec_vyper.T name of a one-word vyper type, or None"""
    from vyper.semantics.types import AddressT, BoolT, BytesM_T, DecimalT, IntegerT
    from vyper.semantics.types.user import FlagT

    if isinstance(t, IntegerT):
        return ("int" if t.is_signed else "uint") + str(t.bits)
    if isinstance(t, DecimalT):
        return "decimal"
    if isinstance(t, BoolT):
        return "bool"
    if isinstance(t, AddressT):
        return "address"
    if isinstance(t, BytesM_T):
        return f"bytes{t.m}"
    if isinstance(t, FlagT):
        return f"flag{len(t._flag_members)}"
    return None


def is_word(t):
    return tname(t) is not None


def canonical(t, w):
    n = tname(t)
    if n.startswith("flag"):
        k = int(n[4:])
        return z3.BoolVal(True) if k == 256 else z3.LShR(w, k) == 0
    return V.T(n).canonical(w)


def members(t):
    """component types of a static composite type, in layout / ABI order; None for one-word types"""
    from vyper.semantics.types import SArrayT, StructT, TupleT

    if isinstance(t, SArrayT):
        return [t.value_type] * t.count
    if isinstance(t, StructT):
        return list(t.member_types.values())
    if isinstance(t, TupleT):
        return list(t.member_types)
    return None


def n_words(t):
    if is_word(t):
        return 1
    ms = members(t)
    if ms is None:
        raise Unsupported(f"type {t}")
    return sum(n_words(m) for m in ms)


def flatten(t, v):
    if is_word(t):
        return [v]
    out = []
    for mt, mv in zip(members(t), v):
        out += flatten(mt, mv)
    return out


def unflatten(t, words):
    """-> (value, rest)"""
    if is_word(t):
        return words[0], words[1:]
    out = []
    for mt in members(t):
        v, words = unflatten(mt, words)
        out.append(v)
    return out, words


def zero(t):
    from vverif import spec_abi as A

    if is_word(t):
        return BV(0)
    k = A.kind_of(t)
    if k == "bytes":
        return A.Dyn("bytes", BV(0), z3.K(W, z3.BitVecVal(0, 8)))
    if k == "array":
        return A.Dyn("array", BV(0), [zero(t.value_type) for _ in range(t.count)])
    return [zero(m) for m in members(t)]


def ite_val(c, a, b):
    from vverif import spec_abi as A

    if isinstance(a, A.Dyn):
        return A.Dyn(a.kind, z3.If(c, a.len, b.len), z3.If(c, a.data, b.data) if a.kind == "bytes" else [ite_val(c, x, y) for x, y in zip(a.data, b.data)])
    if isinstance(a, list):
        return [ite_val(c, x, y) for x, y in zip(a, b)]
    return z3.If(c, a, b)


def storage_words(t):
    """number of storage slots of a type (docs/scoping-and-declarations.rst, storage layout): one per word, a length slot in
    front of byte strings (data packed 32 bytes per slot) and dynamic arrays"""
    from vverif import spec_abi as A

    if is_word(t):
        return 1
    k = A.kind_of(t)
    if k == "bytes":
        return 1 + (t.length + 31) // 32
    if k == "array":
        return 1 + t.count * storage_words(t.value_type)
    return sum(storage_words(m) for m in members(t))


# ----------------------------------------------------------------------------------------------------- state
class St:
    __slots__ = ("pc", "locals", "storage", "transient", "trace", "defs", "ncalls")

    def __init__(self, pc, locals_, storage, transient, trace, defs, ncalls=0):
        self.pc, self.locals, self.storage, self.transient, self.trace, self.defs, self.ncalls = pc, locals_, storage, transient, trace, defs, ncalls

    def copy(self, **kw):
        s = St(self.pc, dict(self.locals), self.storage, self.transient, self.trace, self.defs, self.ncalls)
        for k, v in kw.items():
            setattr(s, k, v)
        return s

    def assume(self, c):
        return self.copy(pc=z3.And(self.pc, c))


class Outcome:
    """shape-compatible with sem.bytecode.Outcome for relational.same_outcome"""

    def __init__(self, status, st, words=None, raw=None):
        self.status = status
        self.world = st  # has .trace .storage .transient .pc
        self.defs = st.defs
        if raw is not None:
            self.data = raw
        elif words is None:
            self.data = None
        else:
            mem = ByteMem(z3.K(W, z3.BitVecVal(0, 8)))
            for i, w in enumerate(words):
                mem = mem.store(BV(32 * i), w)
            self.data = {"len": BV(32 * len(words)), "off": BV(0), "mem": mem}

    @property
    def pc(self):
        return self.world.pc


class _Return(Exception):
    pass


def keccak4(sig):
    from vyper.utils import keccak256

    return int.from_bytes(keccak256(sig.encode())[:4], "big")


def keccak32(sig):
    from vyper.utils import keccak256

    return int.from_bytes(keccak256(sig.encode()), "big")


ENV_ATTRS = {
    ("msg", "sender"): "caller", ("msg", "value"): None, ("block", "timestamp"): "timestamp", ("block", "number"): "number",
    ("chain", "id"): "chainid", ("tx", "origin"): "origin", ("block", "coinbase"): "coinbase", ("block", "prevrandao"): "prevrandao",
    ("tx", "gasprice"): "gasprice", ("block", "basefee"): "basefee", ("block", "gaslimit"): "gaslimit", ("block", "blobbasefee"): "blobbasefee",
}


class Interp:
    def __init__(self, src, settings, env):
        from vyper import ast as vy_ast
        from vyper.compiler.phases import CompilerData

        self.vy = vy_ast
        self.env = env
        from vyper.compiler.settings import anchor_settings

        cd = CompilerData(src, settings=settings)
        with anchor_settings(settings):  # the layout depends on the EVM target (the lock key lives in storage before cancun)
            self.mod = cd.annotated_vyper_module
            lay = cd.storage_layout
        self.slots = {}
        for space, key in (("storage", "storage_layout"), ("transient", "transient_storage_layout")):
            for name, d in (lay.get(key) or {}).items():
                if isinstance(d.get("slot"), int):
                    self.slots[name] = (space, d["slot"])
        self.immutables = {}  # name -> (byte offset in the data section, type)
        for name, d in (lay.get("code_layout") or {}).items():
            self.immutables[name] = d["offset"]
        self.ctor_mode = False
        self.use_folded = True  # False: ignore the front end's constant folding and evaluate literal expressions by the run-time rules (C17)
        self.funcs = {}
        self.vars = {}
        for n in self.mod.body:
            if isinstance(n, vy_ast.FunctionDef):
                self.funcs[n.name] = n
            elif isinstance(n, vy_ast.VariableDecl):
                self.vars[n.target.id] = n
                g = getattr(n, "_expanded_getter", None)
                if g is not None:  # public variable: the getter the language defines (`return self.<var>[arg0]...`)
                    self.funcs[n.target.id] = g
        self.split_hints = []  # (word expr, n): on every continuing path the word is < n (bounds-checked indices): case-split candidates
        self.invariants = []
        self.may_revert = []  # conditions under which a revert without data is permitted but not demanded (non-canonical dynamic input)
        self.reverts = []  # path conditions of reverts without data
        self.outcomes = []
        self.fresh = 0
        self.depth = 0

    # ------------------------------------------------------------------ helpers
    def hint(self, expr, n):
        if z3.is_expr(expr) and not z3.is_bv_value(z3.simplify(expr)) and n <= 64 and not any(expr.eq(e) for e, _ in self.split_hints):
            self.split_hints.append((expr, n))

    def invariant(self, fact):
        """representation invariant of stored values, assumed whenever a value is loaded and re-established by every store of
        this semantics (a stored length never exceeds the declared bound; DESIGN.md assumption A7)"""
        if not any(fact.eq(x) for x in self.invariants):
            self.invariants.append(fact)

    def require(self, st, cond):
        """continue only when cond holds; otherwise the call reverts with empty data"""
        cond = z3.simplify(cond) if z3.is_expr(cond) else z3.BoolVal(bool(cond))
        if z3.is_true(cond):
            return st
        self.reverts.append(z3.And(st.pc, z3.Not(cond)))
        return st.assume(cond)

    def new_word(self, hint):
        self.fresh += 1
        return z3.BitVec(f"src!{hint}!{self.fresh}", 256)

    def typ(self, node):
        t = node._metadata.get("type")
        if t is None:
            raise Unsupported(f"untyped node {type(node).__name__}")
        return t

    # ------------------------------------------------------------------ storage
    def var_loc(self, name):
        if name not in self.slots:
            raise Unsupported(f"variable {name} has no reported slot")
        return self.slots[name]

    def load_at(self, st, space, slot, t):
        from vverif import spec_abi as A

        arr = st.storage if space == "storage" else st.transient
        if is_word(t):
            return z3.Select(arr, slot)
        k = A.kind_of(t)
        if k == "bytes":
            i = z3.BitVec("k!ld", 256)
            data = z3.Lambda([i], A.word_byte(z3.Select(arr, slot + BV(1) + z3.LShR(i, 5)), i & BV(31)))
            self.invariant(z3.ULE(z3.Select(arr, slot), BV(t.length)))
            return A.Dyn("bytes", z3.Select(arr, slot), data)
        if k == "array":
            ew = storage_words(t.value_type)
            self.invariant(z3.ULE(z3.Select(arr, slot), BV(t.count)))
            return A.Dyn("array", z3.Select(arr, slot), [self.load_at(st, space, slot + BV(1 + j * ew), t.value_type) for j in range(t.count)])
        out = []
        off = 0
        for mt in members(t):
            out.append(self.load_at(st, space, slot + BV(off), mt))
            off += storage_words(mt)
        return out

    def store_at(self, st, space, slot, t, v):
        from vverif import spec_abi as A

        arr = st.storage if space == "storage" else st.transient
        tr = st.trace
        op = "sstore" if space == "storage" else "tstore"
        if is_word(t):
            return st.copy(**{space: z3.Store(arr, slot, v), "trace": tr + ((op, slot, v),)})
        k = A.kind_of(t)
        if k == "bytes":
            # the length slot, then the data 32 bytes per slot; bytes past the length are not observable
            nslots = (t.length + 31) // 32
            kk = z3.BitVec("k!st", 256)
            j = kk - slot - BV(1)
            word = z3.Concat(*[z3.Select(v.data, j * BV(32) + BV(b)) for b in range(32)])
            inside = z3.And(z3.UGT(kk, slot), z3.ULE(kk, slot + BV(nslots)), z3.ULT(j * BV(32), v.len))
            new = z3.Lambda([kk], z3.If(kk == slot, v.len, z3.If(inside, word, z3.Select(arr, kk))))
            return st.copy(**{space: new, "trace": tr + ((op, slot, v.len),)})
        if k == "array":
            ew = storage_words(t.value_type)
            s2 = st.copy(**{space: z3.Store(arr, slot, v.len), "trace": tr + ((op, slot, v.len),)})
            for jx, e in enumerate(v.data):
                # element j is written when j < len (elements past the length are not observable)
                cur = self.load_at(s2, space, slot + BV(1 + jx * ew), t.value_type)
                s2 = self.store_at(s2, space, slot + BV(1 + jx * ew), t.value_type, ite_val(z3.ULT(BV(jx), v.len), e, cur))
            return s2
        off = 0
        s2 = st
        for mt, mv in zip(members(t), v):
            s2 = self.store_at(s2, space, slot + BV(off), mt, mv)
            off += storage_words(mt)
        return s2

    # ------------------------------------------------------------------ immutables
    def read_immutable(self, st, name, t):
        """run-time code reads the value the constructor assigned: the word(s) at the variable's reported offset of the
        data section appended to the deployed code; inside the constructor, the value assigned so far"""
        key = "imm:" + name
        if self.ctor_mode:
            if key not in st.locals:
                raise Unsupported("immutable read before assignment in the constructor")
            return st.locals[key]
        off = self.immutables[name]
        ws = [z3.Concat(*[z3.Select(self.env.imm0, BV(off + 32 * i + j)) for j in range(32)]) for i in range(n_words(t))]
        v, _ = unflatten(t, ws)
        return v

    # ------------------------------------------------------------------ lvalues
    # an lvalue is resolved (its index expressions evaluated, bounds checked) into ("local", name, path) or
    # ("state", space, slot expr, type); path is a list of concrete or symbolic indices into the nested Python lists
    def resolve(self, st, node):
        """-> list of (st, ref)"""
        vy = self.vy
        if isinstance(node, vy.Name):
            if node.id in self.immutables and self.ctor_mode:
                return [(st, ("local", "imm:" + node.id, [], self.typ(node)))]
            if node.id in self.immutables:
                st = st.copy()
                st.locals["immrt:" + node.id] = self.read_immutable(st, node.id, self.typ(node))
                return [(st, ("local", "immrt:" + node.id, [], self.typ(node)))]
            if node.id not in st.locals:
                raise Unsupported(f"name {node.id}")
            return [(st, ("local", node.id, [], self.typ(node)))]
        if isinstance(node, vy.Attribute):
            if isinstance(node.value, vy.Name) and node.value.id == "self" and node.attr in self.immutables and self.ctor_mode:
                return [(st, ("local", "imm:" + node.attr, [], self.typ(node)))]
            if isinstance(node.value, vy.Name) and node.value.id == "self":
                space, slot = self.var_loc(node.attr)
                return [(st, ("state", space, BV(slot), self.typ(node)))]
            # struct member
            out = []
            for st1, ref in self.resolve(st, node.value):
                pt = self.typ(node.value)
                names = list(pt.member_types.keys())
                k = names.index(node.attr)
                out.append((st1, self.sub_ref(ref, pt, k, None)))
            return out
        if isinstance(node, vy.Subscript):
            from vyper.semantics.types import HashMapT, SArrayT, TupleT

            pt = self.typ(node.value)
            out = []
            for st1, ref in self.resolve(st, node.value):
                for st2, ix in self.eval(st1, node.slice):
                    if isinstance(pt, HashMapT):
                        if ref[0] != "state":
                            raise Unsupported("mapping outside state")
                        kt = self.typ(node.slice)
                        if not is_word(kt):
                            raise Unsupported("non-word mapping key")
                        slot = Mx.keccak_fn(64)(z3.Concat(ref[2], ix))
                        out.append((st2, ("state", ref[1], slot, pt.value_type)))
                    elif isinstance(pt, SArrayT):
                        it = self.typ(node.slice)
                        n = pt.count
                        tn = V.T(tname(it))
                        inb = z3.And(ix >= 0, ix < BV(n)) if tn.signed else z3.ULT(ix, BV(n))
                        st3 = self.require(st2, inb)
                        self.hint(ix, n)
                        out.append((st3, self.sub_ref(ref, pt, None, ix)))
                    elif isinstance(pt, TupleT):
                        k = node.slice.get_folded_value().value if node.slice.has_folded_value else None
                        out.append((st2, self.sub_ref(ref, pt, k, None)))
                    elif type(pt).__name__ == "DArrayT":
                        it = self.typ(node.slice)
                        tn = V.T(tname(it))
                        if ref[0] == "state":
                            cur_len = z3.Select(st2.storage if ref[1] == "storage" else st2.transient, ref[2])
                            self.invariant(z3.ULE(cur_len, BV(pt.count)))
                        else:
                            cur_len = self.read_ref(st2, ref).len
                        inb = z3.And(ix >= 0, z3.ULT(ix, cur_len)) if tn.signed else z3.ULT(ix, cur_len)
                        st3 = self.require(st2, inb)
                        self.hint(ix, pt.count)
                        out.append((st3, self.sub_ref(ref, pt, None, ix)))
                    else:
                        raise Unsupported(f"subscript of {pt}")
            return out
        raise Unsupported(f"lvalue {type(node).__name__}")

    def sub_ref(self, ref, pt, k, ix):
        """component k (concrete) or ix (symbolic index of a static array) of the object denoted by ref"""
        if type(pt).__name__ == "DArrayT":
            if ref[0] == "local":
                return ("local", ref[1], ref[2] + [ix], pt.value_type)
            return ("state", ref[1], ref[2] + BV(1) + ix * BV(storage_words(pt.value_type)), pt.value_type)
        ms = members(pt)
        if ref[0] == "local":
            et = ms[k] if k is not None else ms[0]
            return ("local", ref[1], ref[2] + [k if k is not None else ix], et)
        # state
        if k is not None:
            off = sum(storage_words(m) for m in ms[:k])
            return ("state", ref[1], ref[2] + BV(off), ms[k])
        ew = storage_words(ms[0])
        return ("state", ref[1], ref[2] + ix * BV(ew), ms[0])

    def read_ref(self, st, ref):
        if ref[0] == "state":
            return self.load_at(st, ref[1], ref[2], ref[3])
        v = st.locals[ref[1]]
        return self._get_path(v, ref[2])

    def _get_path(self, v, path):
        from vverif.spec_abi import Dyn

        for p in path:
            if isinstance(v, Dyn):
                v = v.data
            if isinstance(p, int):
                v = v[p]
            else:
                # symbolic index into a Python list: ite chain (index already bounds checked)
                acc = v[-1]
                for i in range(len(v) - 2, -1, -1):
                    acc = ite_val(p == BV(i), v[i], acc)
                v = acc
        return v

    def _set_path(self, v, path, new):
        from vverif.spec_abi import Dyn

        if not path:
            return new
        if isinstance(v, Dyn):
            return Dyn(v.kind, v.len, self._set_path(v.data, path, new))
        p = path[0]
        if isinstance(p, int):
            return [self._set_path(x, path[1:], new) if i == p else x for i, x in enumerate(v)]
        return [ite_val(p == BV(i), self._set_path(x, path[1:], new), x) for i, x in enumerate(v)]

    def write_ref(self, st, ref, val):
        if ref[0] == "state":
            return self.store_at(st, ref[1], ref[2], ref[3], val)
        st = st.copy()
        st.locals[ref[1]] = self._set_path(st.locals.get(ref[1]), ref[2], val)
        return st

    # ------------------------------------------------------------------ expressions
    def pure(self, node):
        """no user-function / external call inside: evaluation cannot fork on effects"""
        vy = self.vy
        for n in [node] + list(node.get_descendants()):
            if isinstance(n, vy.Call):
                ft = n.func._metadata.get("type")
                from vyper.semantics.types.function import ContractFunctionT

                if isinstance(ft, ContractFunctionT):
                    return False
            if isinstance(n, (vy.ExtCall, vy.StaticCall)):
                return False
        return True

    def eval(self, st, node):
        """-> list of (st, value)"""
        vy = self.vy
        if self.use_folded and node.has_folded_value and not isinstance(node, (vy.List, vy.Tuple)):
            f = node.get_folded_value()
            if type(f).__name__ in ("Bytes", "Str", "HexBytes") and f is not node:
                return self.eval(st, f)
            if isinstance(f, (vy.Int, vy.Decimal, vy.Hex, vy.NameConstant)):
                if f is not node:
                    return [(st, self.literal(f, self.typ(node)))]
        if isinstance(node, (vy.Int, vy.Decimal, vy.Hex, vy.NameConstant)):
            return [(st, self.literal(node, self.typ(node)))]
        if type(node).__name__ in ("Bytes", "Str", "HexBytes"):
            from vverif.spec_abi import Dyn

            bs = node.value.encode() if isinstance(node.value, str) else bytes(node.value)
            arr = z3.K(W, z3.BitVecVal(0, 8))
            for i, b in enumerate(bs):
                if b:
                    arr = z3.Store(arr, BV(i), z3.BitVecVal(b, 8))
            return [(st, Dyn("bytes", BV(len(bs)), arr))]
        if isinstance(node, vy.Name):
            if node.id in st.locals:
                return [(st, st.locals[node.id])]
            if node.id == "self":
                return [(st, self.env.scalar("address"))]
            if node.id in self.immutables:
                return [(st, self.read_immutable(st, node.id, self.typ(node)))]
            raise Unsupported(f"name {node.id}")
        if isinstance(node, vy.Attribute):
            if isinstance(node.value, vy.Name):
                key = (node.value.id, node.attr)
                if key in ENV_ATTRS:
                    return [(st, self.env.callvalue if ENV_ATTRS[key] is None else self.env.scalar(ENV_ATTRS[key]))]
                if key == ("self", "balance"):
                    return [(st, self.env.scalar("selfbalance"))]
            if isinstance(node.value, vy.Name) and node.value.id == "self" and node.attr in self.immutables:
                return [(st, self.read_immutable(st, node.attr, self.typ(node)))]
            if isinstance(node.value, vy.Name) and node.value.id == "self" and node.attr in self.slots:
                space, slot = self.var_loc(node.attr)
                return [(st, self.load_at(st, space, BV(slot), self.typ(node)))]
            return [(s, self.read_ref(s, r)) for s, r in self.resolve(st, node)]
        if isinstance(node, vy.Subscript):
            return [(s, self.read_ref(s, r)) for s, r in self.resolve(st, node)]
        if isinstance(node, vy.BinOp):
            out = []
            for s1, a in self.eval(st, node.left):
                for s2, b in self.eval(s1, node.right):
                    out.append(self.binop(s2, node, a, b))
            return out
        if isinstance(node, vy.Compare):
            out = []
            for s1, a in self.eval(st, node.left):
                for s2, b in self.eval(s1, node.right):
                    out.append((s2, self.compare(node, a, b)))
            return out
        if isinstance(node, vy.BoolOp):
            is_and = isinstance(node.op, vy.And)
            res = []
            frontier = [(st, None)]
            for k, v in enumerate(node.values):
                nxt = []
                for s, acc in frontier:
                    if acc is None:
                        nxt += self.eval(s, v)
                        continue
                    if self.pure(v):
                        # the operand is evaluated (and may revert) only when the earlier operands do not decide
                        go = (acc != 0) if is_and else (acc == 0)
                        (sg, b), = self.eval_pure(s.assume(go), v)
                        joined = s.copy(pc=z3.Or(z3.And(s.pc, z3.Not(go)), sg.pc), defs=sg.defs)
                        nxt.append((joined, z3.If(go, b, acc)))
                    else:
                        go = (acc != 0) if is_and else (acc == 0)
                        s_skip = s.assume(z3.Not(go))
                        res.append((s_skip, acc))
                        nxt += self.eval(s.assume(go), v)
                frontier = nxt
            return res + frontier
        if isinstance(node, vy.UnaryOp):
            out = []
            for s1, a in self.eval(st, node.operand):
                out.append(self.unop(s1, node, a))
            return out
        if isinstance(node, vy.IfExp):
            out = []
            for s1, c in self.eval(st, node.test):
                if self.pure(node.body) and self.pure(node.orelse):
                    # a pure arm can still revert (overflow, bounds): evaluate each arm under its guard
                    sa = s1.assume(c != 0)
                    sb = s1.assume(c == 0)
                    (sa2, a), = self.eval_pure(sa, node.body)
                    (sb2, b), = self.eval_pure(sb, node.orelse)
                    # re-join: path condition = s1.pc and (c -> arm a survived) and (!c -> arm b survived)
                    joined = s1.copy(pc=z3.Or(sa2.pc, sb2.pc), defs=sa2.defs + tuple(d for d in sb2.defs if d not in sa2.defs))
                    out.append((joined, ite_val(c != 0, a, b)))
                else:
                    out += self.eval(s1.assume(c != 0), node.body)
                    out += self.eval(s1.assume(c == 0), node.orelse)
            return out
        if isinstance(node, (vy.Tuple, vy.List)):
            frontier = [(st, [])]
            for e in node.elements:
                nxt = []
                for s, acc in frontier:
                    for s2, v in self.eval(s, e):
                        nxt.append((s2, acc + [v]))
                frontier = nxt
            t = node._metadata.get("type")
            if type(t).__name__ == "DArrayT":  # a list literal of a dynamic-array type
                from vverif.spec_abi import Dyn

                frontier = [(s, Dyn("array", BV(len(acc)), acc + [zero(t.value_type) for _ in range(t.count - len(acc))])) for s, acc in frontier]
            return frontier
        if isinstance(node, vy.Call):
            return self.call(st, node)
        if isinstance(node, (vy.ExtCall, vy.StaticCall)):
            return self.extcall(st, node)
        raise Unsupported(f"expression {type(node).__name__}")

    def eval_pure(self, st, node):
        r = self.eval(st, node)
        if len(r) != 1:
            raise Unsupported("pure expression forked")
        return r

    def literal(self, f, t):
        vy = self.vy
        n = tname(t)
        if n is None:
            raise Unsupported(f"literal of type {t}")
        if isinstance(f, vy.NameConstant):
            return BV(1 if f.value else 0)
        if isinstance(f, vy.Decimal):
            from decimal import Decimal

            return BV(int(Decimal(f.value) * 10**10) % 2**256)
        if isinstance(f, vy.Hex):
            h = f.value[2:]
            if n.startswith("bytes"):
                return BV(int(h, 16) << (256 - 4 * len(h)))
            return BV(int(h, 16))
        if isinstance(f, vy.Int):
            if n == "decimal":
                return BV((f.value * 10**10) % 2**256)
            return BV(f.value % 2**256)
        raise Unsupported(f"literal {type(f).__name__}")

    def binop(self, st, node, a, b):
        vy = self.vy
        t = self.typ(node)
        n = tname(t)
        op = node.op
        if n is None:
            raise Unsupported("binop on composite")
        if n.startswith("flag") or n.startswith("bytes"):
            if isinstance(op, vy.BitAnd):
                return st, a & b
            if isinstance(op, vy.BitOr):
                return st, a | b
            if isinstance(op, vy.BitXor):
                return st, a ^ b
            raise Unsupported("flag/bytes operator")
        T = V.T(n)
        sym = {vy.Add: "+", vy.Sub: "-", vy.Mult: "*", vy.FloorDiv: "//", vy.Div: "/", vy.Mod: "%"}.get(type(op))
        if sym:
            ca, cb = z3.simplify(a), z3.simplify(b)
            if sym == "*" and n == "decimal" and z3.is_bv_value(ca) and z3.is_bv_value(cb):
                x, y = (v.as_long() - 2**256 if v.as_long() >= 2**255 else v.as_long() for v in (ca, cb))
                r = V.pyint_binop("*", T, x, y)
                return self.require(st, z3.BoolVal(T.lo <= r <= T.hi)), BV(r % 2**256)
            if sym == "*" and n == "decimal":
                c = V.binop_contract(sym, T, a, b)
                r = self.new_word("decmul")
                st2 = self.require(st, c["ok"])
                st2 = st2.copy(defs=st2.defs + (z3.Implies(c["ok"], z3.And(c["value_ok"](r), T.canonical(r))),))
                return st2, r
            c = V.binop_contract(sym, T, a, b)
            st2 = self.require(st, c["ok"])
            if sym in ("+", "-", "*"):
                _, ex = V.binop(sym, T, T.wide(a), T.wide(b))
                return st2, T.word(ex)
            if sym == "//":
                return st2, (a / b) if T.signed else z3.UDiv(a, b)
            if sym == "%":
                return st2, z3.SRem(a, b) if T.signed else z3.URem(a, b)
            if sym == "/":
                return st2, (a * BV(V.DEC_DIV)) / b
        if isinstance(op, vy.Pow):
            ca, cb = z3.simplify(a), z3.simplify(b)
            if not (z3.is_bv_value(ca) and z3.is_bv_value(cb)):
                raise Unsupported("** on non-literal operands")
            x, y = ca.as_long(), cb.as_long()
            if T.signed:
                x = x - 2**256 if x >= 2**255 else x
                y = y - 2**256 if y >= 2**255 else y
            if y < 0:
                return self.require(st, z3.BoolVal(False)), BV(0)
            r = x**y if y < 1024 else (0 if x == 0 else (1 if x == 1 else ((1 if y % 2 == 0 else -1) if x == -1 else None)))
            ok = r is not None and T.lo <= r <= T.hi
            return self.require(st, z3.BoolVal(bool(ok))), BV((r or 0) % 2**256)
        if isinstance(op, vy.BitAnd):
            return st, a & b
        if isinstance(op, vy.BitOr):
            return st, a | b
        if isinstance(op, vy.BitXor):
            return st, a ^ b
        if isinstance(op, vy.LShift):
            return st, z3.If(z3.ULT(b, BV(256)), a << b, BV(0))
        if isinstance(op, vy.RShift):
            if T.signed:
                return st, z3.If(z3.ULT(b, BV(256)), a >> b, z3.If(a < 0, BV(2**256 - 1), BV(0)))
            return st, z3.If(z3.ULT(b, BV(256)), z3.LShR(a, b), BV(0))
        raise Unsupported(f"operator {type(op).__name__}")

    def compare(self, node, a, b):
        vy = self.vy
        op = node.op
        lt = self.typ(node.left)
        if isinstance(op, (vy.In, vy.NotIn)):
            rt = self.typ(node.right)
            n = tname(lt)
            if n and n.startswith("flag") and tname(rt) == n:
                r = (a & b) != 0
            else:
                r = z3.Or(*[a == e for e in b])
            if isinstance(op, vy.NotIn):
                r = z3.Not(r)
            return z3.If(r, BV(1), BV(0))
        if isinstance(a, list):
            ta, tb = flatten(lt, a), flatten(lt, b)
            eq = z3.And(*[x == y for x, y in zip(ta, tb)])
            r = eq if isinstance(op, vy.Eq) else z3.Not(eq)
            return z3.If(r, BV(1), BV(0))
        n = tname(lt)
        T = V.T(n) if not n.startswith("flag") else None
        signed = bool(T and T.signed)
        if isinstance(op, vy.Eq):
            r = a == b
        elif isinstance(op, vy.NotEq):
            r = a != b
        elif isinstance(op, vy.Lt):
            r = (a < b) if signed else z3.ULT(a, b)
        elif isinstance(op, vy.LtE):
            r = (a <= b) if signed else z3.ULE(a, b)
        elif isinstance(op, vy.Gt):
            r = (a > b) if signed else z3.UGT(a, b)
        elif isinstance(op, vy.GtE):
            r = (a >= b) if signed else z3.UGE(a, b)
        else:
            raise Unsupported(f"comparison {type(op).__name__}")
        return z3.If(r, BV(1), BV(0))

    def unop(self, st, node, a):
        vy = self.vy
        t = self.typ(node)
        n = tname(t)
        if isinstance(node.op, vy.Not):
            return st, z3.If(a == 0, BV(1), BV(0))
        if isinstance(node.op, vy.USub):
            T = V.T(n)
            c = V.binop_contract("-", T, BV(0), a)
            st2 = self.require(st, c["ok"])
            return st2, BV(0) - a
        if isinstance(node.op, vy.Invert):
            if n.startswith("flag"):
                k = int(n[4:])
                return st, (~a) & BV(2**k - 1)
            return st, ~a
        raise Unsupported("unary operator")

    # ------------------------------------------------------------------ calls
    def call(self, st, node):
        vy = self.vy
        from vyper.semantics.types.function import ContractFunctionT, MemberFunctionT
        from vyper.semantics.types.user import StructT

        ft = node.func._metadata.get("type")
        if isinstance(ft, ContractFunctionT):
            if not (isinstance(node.func, vy.Attribute) and isinstance(node.func.value, vy.Name) and node.func.value.id == "self"):
                raise Unsupported("call of a non-self function")
            fdef = self.funcs[node.func.attr]
            frontier = [(st, [])]
            for a in node.args:
                nxt = []
                for s, acc in frontier:
                    for s2, v in self.eval(s, a):
                        nxt.append((s2, acc + [v]))
                frontier = nxt
            out = []
            for s, args in frontier:
                out += self.run_function(s, fdef, args)
            return out
        if isinstance(ft, MemberFunctionT):
            return self.member_call(st, node, ft)
        tt = getattr(ft, "typedef", None)
        if isinstance(tt, StructT):  # struct constructor S(a=.., b=..)
            names = list(tt.member_types.keys())
            frontier = [(st, {})]
            for kw in node.keywords:
                nxt = []
                for s, acc in frontier:
                    for s2, v in self.eval(s, kw.value):
                        nxt.append((s2, dict(acc, **{kw.arg: v})))
                frontier = nxt
            return [(s, [acc[nm] for nm in names]) for s, acc in frontier]
        name = getattr(ft, "_id", None)
        if name is None:
            raise Unsupported("call target")
        # builtins: evaluate value arguments left to right (type arguments are not evaluated)
        type_arg_positions = {"convert": {1}, "empty": {0}, "min_value": {0}, "max_value": {0}, "epsilon": {0}}.get(name, set())
        frontier = [(st, [])]
        for k, a in enumerate(node.args):
            if k in type_arg_positions:
                continue
            nxt = []
            for s, acc in frontier:
                for s2, v in self.eval(s, a):
                    nxt.append((s2, acc + [v]))
            frontier = nxt
        return [self.builtin(s, name, node, args) for s, args in frontier]

    def member_call(self, st, node, ft):
        """DynArray.append(x) / .pop(): bounds checked against the current length and the declared bound"""
        from vverif.spec_abi import Dyn

        name = node.func.attr
        at = self.typ(node.func.value)
        out = []
        for s1, ref in self.resolve(st, node.func.value):
            if name == "append":
                for s2, v in self.eval(s1, node.args[0]):
                    cur = self.read_ref(s2, ref)
                    s3 = self.require(s2, z3.ULT(cur.len, BV(at.count)))
                    data = [ite_val(cur.len == BV(j), v, e) for j, e in enumerate(cur.data)]
                    out.append((self.write_ref(s3, ref, Dyn("array", cur.len + BV(1), data)), None))
            elif name == "pop":
                cur = self.read_ref(s1, ref)
                s2 = self.require(s1, cur.len != 0)
                last = cur.data[-1]
                for j in range(len(cur.data) - 2, -1, -1):
                    last = ite_val(cur.len == BV(j + 1), cur.data[j], last)
                out.append((self.write_ref(s2, ref, Dyn("array", cur.len - BV(1), cur.data)), last))
            else:
                raise Unsupported(f"member function {name}")
        return out

    def dyn_builtin(self, st, name, node, args):
        from vverif import spec_abi as A

        if name == "len":
            return st, args[0].len
        if name == "slice":
            b, start, n = args
            # start + n <= len(b), as mathematical integers
            ok = z3.And(z3.UGE(start + n, start), z3.ULE(start + n, b.len))
            st2 = self.require(st, ok)
            N = self.typ(node.args[0]).length
            self.hint(start, N + 1)
            self.hint(n, N + 1)
            i = z3.BitVec("k!sl", 256)
            return st2, A.Dyn("bytes", n, z3.Lambda([i], z3.Select(b.data, start + i)))
        if name == "extract32":
            b, start = args
            ok = z3.And(z3.UGE(start + BV(32), start), z3.ULE(start + BV(32), b.len))
            st2 = self.require(st, ok)
            self.hint(start, max(1, self.typ(node.args[0]).length - 31))
            w = z3.Concat(*[z3.Select(b.data, start + BV(j)) for j in range(32)])
            rt = self.typ(node)
            st3 = self.require(st2, canonical(rt, w))
            return st3, w
        if name == "concat":
            pieces = []
            for a, an in zip(args, node.args):
                t = self.typ(an)
                if is_word(t):
                    m = int(tname(t)[5:])
                    pieces.append((BV(m), (lambda j, a=a: A.word_byte(a, j))))
                else:
                    pieces.append((a.len, (lambda j, a=a: z3.Select(a.data, j))))
            total = BV(0)
            offs = []
            for ln, _ in pieces:
                offs.append(total)
                total = total + ln
            i = z3.BitVec("k!cc", 256)
            e = z3.BitVecVal(0, 8)
            for (ln, fn), off in reversed(list(zip(pieces, offs))):
                e = z3.If(z3.And(z3.UGE(i, off), z3.ULT(i - off, ln)), fn(i - off), e)
            return st, A.Dyn("bytes", total, z3.Lambda([i], e))
        raise Unsupported(f"builtin {name}")

    def builtin(self, st, name, node, args):
        if name in ("len", "slice", "extract32", "concat"):
            return self.dyn_builtin(st, name, node, args)
        t = self.typ(node)
        n = tname(t) if name not in ("empty",) else None
        if name == "empty":
            return st, zero(t)
        if name == "convert":
            from vverif.contracts.convert import spec_convert

            tin = tname(self.typ(node.args[0]))
            from vverif.spec_abi import Dyn

            if isinstance(args[0], Dyn) and args[0].kind == "bytes" and n and n.startswith(("uint", "int")) and self.typ(node.args[0]).length <= 32:
                # docs/types.rst: bytes -> int goes through the integer type as wide as the byte string (run-time length),
                # sign-extended when the output type is signed, then must fit the output type
                b = args[0]
                T_ = V.T(n)
                w = z3.Concat(*[z3.If(z3.ULT(BV(j), b.len), z3.Select(b.data, BV(j)), z3.BitVecVal(0, 8)) for j in range(32)])
                sh = (BV(32) - b.len) * BV(8)
                val = z3.If(b.len == 0, BV(0), (w >> sh) if T_.signed else z3.LShR(w, sh))
                wide = z3.SignExt(V.WIDE - 256, val) if T_.signed else z3.ZeroExt(V.WIDE - 256, val)
                return self.require(st, T_.in_range(wide)), val
            r = spec_convert(tin, n, args[0]) if tin and n else None
            if r is None:
                raise Unsupported(f"convert {tin}->{n}")
            ok, val = r
            return self.require(st, ok), val
        if name in ("min", "max"):
            T = V.T(n)
            a, b = args
            lt = (a < b) if T.signed else z3.ULT(a, b)
            return st, (z3.If(lt, a, b) if name == "min" else z3.If(lt, b, a))
        if name == "abs":
            a, = args
            st2 = self.require(st, a != BV(2**255))
            return st2, z3.If(a < 0, BV(0) - a, a)
        if name.startswith("unsafe_"):
            T = V.T(n)
            a, b = args
            op = name[7:]
            if op == "add":
                r = a + b
            elif op == "sub":
                r = a - b
            elif op == "mul":
                r = a * b
            elif op == "div":
                r = z3.If(b == 0, BV(0), (a / b) if T.signed else z3.UDiv(a, b))
            else:
                raise Unsupported(name)
            if T.bits < 256:
                low = z3.Extract(T.bits - 1, 0, r)
                r = z3.SignExt(256 - T.bits, low) if T.signed else z3.ZeroExt(256 - T.bits, low)
            return st, r
        if name in ("uint256_addmod", "uint256_mulmod"):
            a, b, c = args
            st2 = self.require(st, c != 0)
            wide = 257 if name.endswith("addmod") else 512
            za, zb, zc = (z3.ZeroExt(wide - 256, x) for x in (a, b, c))
            full = (za + zb) if name.endswith("addmod") else (za * zb)
            return st2, z3.Extract(255, 0, z3.URem(full, zc))
        if name in ("min_value", "max_value"):
            T_ = V.T(n)
            return st, BV((T_.lo if name == "min_value" else T_.hi) * (V.DEC_DIV if False else 1) % 2**256)
        if name == "epsilon":
            return st, BV(1)
        if name == "pow_mod256":
            from vverif import spec_evm as SE

            ca, cb = z3.simplify(args[0]), z3.simplify(args[1])
            if z3.is_bv_value(ca) and z3.is_bv_value(cb):
                return st, BV(pow(ca.as_long(), cb.as_long(), 2**256))
            return st, SE.bv_op("exp", args[0], args[1])
        if name == "keccak256" and tname(self.typ(node.args[0])) == "bytes32":
            return st, Mx.keccak_fn(32)(args[0])
        if name == "keccak256":
            from vverif.spec_abi import Dyn

            b = args[0]
            ln = z3.simplify(b.len) if isinstance(b, Dyn) else None
            if ln is None or not z3.is_bv_value(ln) or not (0 < ln.as_long() <= 256):
                raise Unsupported("keccak256 of a byte string of symbolic length")
            k = ln.as_long()
            data = z3.Concat(*[z3.Select(b.data, BV(j)) for j in range(k)]) if k > 1 else z3.Select(b.data, BV(0))
            return st, Mx.keccak_fn(k)(z3.simplify(data))
        if name == "floor":
            a, = args
            D = BV(V.DEC_DIV)
            q = a / D
            return st, z3.If(z3.And(a < 0, z3.SRem(a, D) != 0), q - 1, q)
        if name == "ceil":
            a, = args
            D = BV(V.DEC_DIV)
            q = a / D
            return st, z3.If(z3.And(a > 0, z3.SRem(a, D) != 0), q + 1, q)
        raise Unsupported(f"builtin {name}")

    # ------------------------------------------------------------------ external calls
    def extcall(self, st, node):
        """`extcall I(t).f(args, value=, gas=, skip_contract_check=, default_return_value=)` / `staticcall ...`
        (docs/interfaces.rst, built-in keyword arguments): the callee is an adversary - success flag, return-data size and
        bytes are unconstrained symbols, named as the bytecode denotation names them (the k-th outgoing call of the path).
          * STATICCALL for view/pure interface functions, CALL with the requested value otherwise;
          * calldata = selector ++ abi_encode(args);
          * a function without return type (or with default_return_value) requires code at the target unless
            skip_contract_check; a failed call reverts with the callee's return data;
          * return data shorter than the static size of the return type reverts; every returned word must be canonical;
            exactly empty return data yields default_return_value when given."""
        vy = self.vy
        call = node.value
        fn_t = call.func._metadata["type"]
        tgt_call = call.func.value  # I(t)
        if not (isinstance(tgt_call, vy.Call) and len(tgt_call.args) == 1):
            raise Unsupported("external call target form")
        out = []
        for s1, to in self.eval(st, tgt_call.args[0]):
            frontier = [(s1, [])]
            for a in call.args:
                nxt = []
                for s, acc in frontier:
                    for s2, v in self.eval(s, a):
                        nxt.append((s2, acc + [v]))
                frontier = nxt
            for s2, args in frontier:
                kws = {}
                s3 = s2
                for kw in call.keywords:
                    if kw.arg == "skip_contract_check":
                        kws[kw.arg] = bool(kw.value.get_folded_value().value)
                        continue
                    (s3, v), = self.eval_pure(s3, kw.value)
                    kws[kw.arg] = v
                out += self._do_extcall(s3, fn_t, to, args, kws, [self.typ(a) for a in call.args])
        return out

    def _do_extcall(self, st, fn_t, to, args, kws, arg_types):
        from vyper.semantics.types.function import StateMutability

        env = self.env
        from vverif import spec_abi as A0

        sig = fn_t.name + "(" + ",".join(t.abi_type.selector_name() for t in arg_types) + ")"
        if any(A0.is_dynamic(t) for t in arg_types):
            enc = A0.encode(arg_types, args)
            selw = BV(keccak4(sig) << 224)
            body = A0.Enc(BV(4) + enc.len, lambda i: z3.If(z3.ULT(i, BV(4)), A0.word_byte(selw, i), enc.byte(i - BV(4))))
            payload = body.as_data()
        else:
            words = []
            for t, v in zip(arg_types, args):
                words += flatten(t, v)
            mem = ByteMem(z3.K(W, z3.BitVecVal(0, 8)))
            mem = mem.store(BV(0), BV(keccak4(sig) << 224))
            for i, w in enumerate(words):
                mem = mem.store(BV(4 + 32 * i), w)
            payload = {"len": BV(4 + 32 * len(words)), "off": BV(0), "mem": mem}
        static = fn_t.mutability in (StateMutability.VIEW, StateMutability.PURE)
        rt = fn_t.return_type
        skip = kws.get("skip_contract_check", False)
        has_default = "default_return_value" in kws
        if rt is None and not skip:
            st = self.require(st, env.extcodesize(to) != 0)
        k = f"!{st.ncalls + 1}{env.tag}"
        ok = z3.Bool("call_ok" + k)
        rsize = z3.BitVec("call_retsize" + k, 256)
        rdata = z3.Array("call_retdata" + k, W, Mx.B8)
        value = BV(0) if static else kws.get("value", BV(0))
        ev = ("staticcall" if static else "call", ("requested-gas", kws["gas"]) if "gas" in kws else None, to, value, payload, {"storage": st.storage, "transient": st.transient, "pc": st.pc})
        st = st.copy(trace=st.trace + (ev,), ncalls=st.ncalls + 1)
        fact_rs = z3.ULT(rsize, BV(Mx.ENV_SIZE_BOUND))  # return data is bounded like memory (environment assumption shared with the bytecode denotation)
        if not any(fact_rs.eq(x) for x in env.assumptions):
            env.assumptions.append(fact_rs)
        if not static and env.reentrancy_havoc:
            st = st.copy(storage=z3.Array("storage_after_call" + k, W, W), transient=z3.Array("transient_after_call" + k, W, W))
        # failure: the callee's revert data is propagated unchanged
        self.outcomes.append(Outcome("revert", st.assume(z3.Not(ok)), raw={"len": rsize, "off": BV(0), "mem": ByteMem(rdata)}))
        st = st.assume(ok)
        if rt is None:
            return [(st, None)]
        from vverif import spec_abi as A

        if A.is_dynamic(rt):
            from vyper.semantics.types import TupleT

            types = list(rt.member_types) if (isinstance(rt, TupleT) and len(rt.member_types) > 1) else [rt]
            outs = []
            if has_default:
                s0 = st.assume(rsize == 0)
                if not skip:
                    s0 = self.require(s0, env.extcodesize(to) != 0)
                outs.append((s0, kws["default_return_value"]))
                st = st.assume(rsize != 0)
            head = 32 * sum(A.head_words(t) for t in types)
            st = self.require(st, z3.UGE(rsize, BV(head)))
            src_rd = A.Src(lambda i: z3.If(z3.ULT(i, rsize), z3.Select(rdata, i), z3.BitVecVal(0, 8)), rsize, bounded=True)
            vals, ok, canon, end = A.decode_tuple(types, src_rd, BV(0))
            self.may_revert.append(z3.And(st.pc, z3.Not(z3.And(ok, canon, z3.UGE(rsize, end)))))
            st = self.require(st, ok)
            outs.append((st, vals if len(types) > 1 else vals[0]))
            return outs
        n = n_words(rt)
        outs = []
        if has_default:
            # exactly empty return data: the default is used, provided there is code at the target (an address without code
            # "returns" nothing) unless skip_contract_check
            s0 = st.assume(rsize == 0)
            if not skip:
                s0 = self.require(s0, env.extcodesize(to) != 0)
            outs.append((s0, kws["default_return_value"]))
            st = st.assume(rsize != 0)
        st = self.require(st, z3.UGE(rsize, BV(32 * n)))
        ws = [z3.Concat(*[z3.Select(rdata, BV(32 * i + j)) for j in range(32)]) for i in range(n)]
        for lt, w in zip(_leaf_types(rt), ws):
            st = self.require(st, canonical(lt, w))
        v, _ = unflatten(rt, ws)
        outs.append((st, v))
        return outs

    # ------------------------------------------------------------------ statements
    def run_function(self, st, fdef, args):
        """internal call: arguments are passed by value -> list of (st, return value)"""
        ft = fdef._metadata["func_type"]
        self.depth += 1
        if self.depth > 6:
            raise Unsupported("call depth")
        saved = st.locals
        loc = {k: v for k, v in st.locals.items() if k.startswith("imm:")}
        all_args = list(ft.positional_args) + list(ft.keyword_args)
        for a, v in zip(all_args, args):
            loc[a.name] = v
        for a in all_args[len(args):]:
            raise Unsupported("default arguments in an internal call")
        out = []
        for s, sig in self.block(st.copy(locals=loc), fdef.body):
            if sig is None or sig[0] == "return":
                val = sig[1] if sig else None
                keep = dict(saved)
                keep.update({k: v for k, v in s.locals.items() if k.startswith("imm:")})
                out.append((s.copy(locals=keep), val))
            else:
                raise Unsupported("break/continue escaped a function")
        self.depth -= 1
        return out

    def block(self, st, stmts):
        """-> list of (st, signal); signal None | ("return", v) | ("break",) | ("continue",)"""
        frontier = [(st, None)]
        for s in stmts:
            nxt = []
            for st1, sig in frontier:
                if sig is not None:
                    nxt.append((st1, sig))
                else:
                    nxt += self.stmt(st1, s)
            frontier = nxt
        return frontier

    def revert_with_reason(self, st, msg_node):
        """Error(string) payload: selector 0x08c379a0, offset 0x20, length, data zero padded"""
        vy = self.vy
        if isinstance(msg_node, vy.Str):
            bs = msg_node.value.encode()
            payload = bytes.fromhex("08c379a0") + (32).to_bytes(32, "big") + len(bs).to_bytes(32, "big") + bs + b"\0" * (-len(bs) % 32)
            mem = ByteMem(z3.K(W, z3.BitVecVal(0, 8)))
            for i, b in enumerate(payload):
                if b:
                    mem = mem.store8(BV(i), z3.BitVecVal(b, 8))
            self.outcomes.append(Outcome("revert", st, raw={"len": BV(len(payload)), "off": BV(0), "mem": mem}))
            return
        raise Unsupported("non-literal revert reason")

    def stmt(self, st, s):
        vy = self.vy
        if isinstance(s, vy.Pass):
            return [(st, None)]
        if isinstance(s, vy.AnnAssign):
            out = []
            for s1, v in self.eval(st, s.value):
                s2 = s1.copy()
                s2.locals[s.target.id] = v
                out.append((s2, None))
            return out
        if isinstance(s, vy.Assign):
            out = []
            for s1, v in self.eval(st, s.value):
                if isinstance(s.target, vy.Tuple):
                    tt = self.typ(s.value)
                    frontier = [s1]
                    for k, tg in enumerate(s.target.elements):
                        nxt = []
                        for sx in frontier:
                            for s2, ref in self.resolve(sx, tg):
                                nxt.append(self.write_ref(s2, ref, v[k]))
                        frontier = nxt
                    out += [(sx, None) for sx in frontier]
                else:
                    for s2, ref in self.resolve(s1, s.target):
                        out.append((self.write_ref(s2, ref, v), None))
            return out
        if isinstance(s, vy.AugAssign):
            # `t op= e`  means  `t = t op e` with t's location resolved once: the current value of the target is read before
            # the right-hand side is evaluated (operands left to right), the result is stored afterwards
            out = []
            for s1, ref in self.resolve(st, s.target):
                cur = self.read_ref(s1, ref)
                for s2, rhs in self.eval(s1, s.value):
                    fake = _AugNode(s, self.typ(s.target))
                    s3, v = self.binop(s2, fake, cur, rhs)
                    out.append((self.write_ref(s3, ref, v), None))
            return out
        if isinstance(s, vy.Expr):
            return [(s1, None) for s1, _ in self.eval(st, s.value)]
        if isinstance(s, vy.Return):
            if s.value is None:
                return [(st, ("return", None))]
            return [(s1, ("return", v)) for s1, v in self.eval(st, s.value)]
        if isinstance(s, vy.If):
            out = []
            for s1, c in self.eval(st, s.test):
                c = z3.simplify(c != 0)
                if not z3.is_false(c):
                    out += self.block(s1.assume(c), s.body)
                if not z3.is_true(c):
                    out += self.block(s1.assume(z3.Not(c)), s.orelse)
            return out
        if isinstance(s, vy.Assert):
            out = []
            for s1, c in self.eval(st, s.test):
                if s.msg is None or (isinstance(s.msg, vy.Name) and s.msg.id == "UNREACHABLE"):
                    out.append((self.require(s1, c != 0), None))
                else:
                    self.revert_with_reason(s1.assume(c == 0), s.msg)
                    out.append((s1.assume(c != 0), None))
            return out
        if isinstance(s, vy.Raise):
            if s.exc is None or (isinstance(s.exc, vy.Name) and s.exc.id == "UNREACHABLE"):
                self.reverts.append(st.pc)
            else:
                self.revert_with_reason(st, s.exc)
            return []
        if isinstance(s, vy.Log):
            return self.log(st, s)
        if isinstance(s, vy.For):
            return self.for_(st, s)
        if isinstance(s, vy.Break):
            return [(st, ("break",))]
        if isinstance(s, vy.Continue):
            return [(st, ("continue",))]
        raise Unsupported(f"statement {type(s).__name__}")

    def log(self, st, s):
        call = s.value
        et = call.func._metadata["type"].typedef
        names = list(et.arguments.keys())
        frontier = [(st, {})]
        if call.keywords:
            items = [(kw.arg, kw.value) for kw in call.keywords]
        else:
            items = list(zip(names, call.args))
        for nm, e in items:
            nxt = []
            for s1, acc in frontier:
                for s2, v in self.eval(s1, e):
                    nxt.append((s2, dict(acc, **{nm: v})))
            frontier = nxt
        out = []
        sig = et.name + "(" + ",".join(t.abi_type.selector_name() for t in et.arguments.values()) + ")"
        for s1, vals in frontier:
            from vverif import spec_abi as A

            topics = [BV(keccak32(sig))]
            d_types, d_vals = [], []
            for nm, t in et.arguments.items():
                if et.indexed[names.index(nm)]:
                    if not is_word(t):
                        raise Unsupported("indexed non-word event argument")
                    topics.append(vals[nm])
                else:
                    d_types.append(t)
                    d_vals.append(vals[nm])
            ev = ("log", tuple(topics), A.encode(d_types, d_vals).as_data())
            out.append((s1.copy(trace=s1.trace + (ev,)), None))
        return out

    def for_(self, st, s):
        vy = self.vy
        it = s.iter
        var = s.target.target.id
        out = []
        if isinstance(it, vy.Call) and getattr(it.func, "id", None) == "range":
            args = it.args
            bound = None
            for kw in it.keywords:
                if kw.arg == "bound":
                    bound = kw.value.get_folded_value().value
            starts = []
            if len(args) == 1:
                if bound is None:
                    n = args[0].get_folded_value().value
                    seq = [(st, [BV(i) for i in range(n)], None)]
                else:
                    seq = []
                    for s1, cnt in self.eval(st, args[0]):
                        s2 = self.require(s1, z3.ULE(cnt, BV(bound)))
                        seq.append((s2, [BV(i) for i in range(bound)], cnt))
            else:
                if bound is None:
                    a = args[0].get_folded_value().value
                    b = args[1].get_folded_value().value
                    seq = [(st, [BV(i % 2**256) for i in range(a, b)], None)]
                else:
                    # range(start, end, bound=N): start and end are evaluated once; start <= end (in the counter's type) and
                    # end - start <= N are required; the counter takes start, start+1, ..., end-1
                    ct = V.T(tname(self.typ(s.target.target)))
                    seq = []
                    for s1, a in self.eval(st, args[0]):
                        for s2, b in self.eval(s1, args[1]):
                            le = (a <= b) if ct.signed else z3.ULE(a, b)
                            s3 = self.require(s2, le)
                            rounds = b - a  # exact: start <= end
                            s3 = self.require(s3, z3.ULE(rounds, BV(bound)))
                            seq.append((s3, [a + BV(k) for k in range(bound)], rounds))
            for s0, items, cnt in seq:
                out += self.loop(s0, var, items, s.body, (lambda k, cnt=cnt: z3.ULT(BV(k), cnt)) if cnt is not None else None)
            return out
        # iteration over a static array value: the iterable is evaluated once, before the loop
        from vyper.semantics.types import SArrayT

        t = self.typ(it)
        if isinstance(t, SArrayT):
            for s1, v in self.eval(st, it):
                out += self.loop(s1, var, list(v), s.body, None)
            return out
        if type(t).__name__ == "DArrayT":
            for s1, v in self.eval(st, it):
                out += self.loop(s1, var, list(v.data), s.body, (lambda k, v=v: z3.ULT(BV(k), v.len)))
            return out
        raise Unsupported("loop iterable")

    def loop(self, st, var, items, body, guard):
        done = []
        frontier = [st]
        for k, item in enumerate(items):
            nxt = []
            for s1 in frontier:
                if guard is not None:
                    g = z3.simplify(guard(k))
                    if not z3.is_true(g):
                        done.append((s1.assume(z3.Not(g)), None))
                    if z3.is_false(g):
                        continue
                    s1 = s1.assume(g)
                s2 = s1.copy()
                s2.locals[var] = item
                for s3, sig in self.block(s2, body):
                    if sig is None or sig[0] == "continue":
                        nxt.append(s3)
                    elif sig[0] == "break":
                        done.append((s3, None))
                    else:
                        done.append((s3, sig))
            frontier = nxt
        for s1 in frontier:
            done.append((s1, None))
        out = []
        for s1, sig in done:
            s2 = s1.copy()
            s2.locals.pop(var, None)
            out.append((s2, sig))
        return out

    # ------------------------------------------------------------------ contract entry
    def run_contract(self):
        """all source-level outcomes of one call: list of Outcome (success paths, reverts with data) + one merged
        outcome for all reverts without data"""
        vy = self.vy
        env = self.env
        st0 = St(z3.BoolVal(True), {}, env.storage0, env.transient0, (), ())
        sel = z3.LShR(env.cd_word(BV(0)), 224)
        has_sel = z3.UGE(env.calldatasize, BV(4))
        matched = []
        default = None
        for name, fdef in self.funcs.items():
            ft = fdef._metadata["func_type"]
            if not ft.is_external:
                continue
            if ft.is_fallback:
                default = fdef
                continue
            if ft.is_constructor:
                continue
            if ft.nonreentrant:
                raise Unsupported("nonreentrant functions are specified by C09, not by the source semantics here")
            n_pos = len(ft.positional_args)
            for k in range(len(ft.keyword_args) + 1):
                argl = list(ft.positional_args) + list(ft.keyword_args[:k])
                sig = ft.name + "(" + ",".join(a.typ.abi_type.selector_name() for a in argl) + ")"
                mid = keccak4(sig)
                m = z3.And(has_sel, sel == BV(mid))
                matched.append(m)
                st = st0.assume(m)
                from vverif import spec_abi as A

                types = [a.typ for a in argl]
                head = 32 * sum(A.head_words(t) for t in types)
                st = self.require(st, z3.UGE(env.calldatasize, BV(4 + head)))
                if not ft.is_payable:
                    st = self.require(st, env.callvalue == 0)
                src_cd = A.Src(env.cd_byte, env.calldatasize)
                vals, ok, canon, end = A.decode_tuple(types, src_cd, BV(4))
                if any(A.is_dynamic(t) for t in types):
                    # an input that is not the canonical encoding of in-range values may be rejected (and, when accepted,
                    # what the program observes is still the decoding above)
                    self.may_revert.append(z3.And(st.pc, z3.Not(z3.And(ok, canon, z3.UGE(env.calldatasize, end), z3.UGE(end, BV(4))))))
                st = self.require(st, ok)
                frontier = [(st, vals)]
                for kw in ft.keyword_args[k:]:
                    nxt = []
                    for s1, acc in frontier:
                        for s2, v in self.eval(s1, kw.default_value):
                            nxt.append((s2, acc + [v]))
                    frontier = nxt
                for s1, argv in frontier:
                    self.finish(s1, fdef, argv)
        no_match = z3.Not(z3.Or(*matched)) if matched else z3.BoolVal(True)
        st = st0.assume(no_match)
        if default is None:
            self.reverts.append(st.pc)
        else:
            ft = default._metadata["func_type"]
            if not ft.is_payable:
                st = self.require(st, env.callvalue == 0)
            self.finish(st, default, [])
        outs = list(self.outcomes)
        if self.reverts:
            outs.append(Outcome("revert", St(z3.Or(*self.reverts), {}, env.storage0, env.transient0, (), ()), words=[]))
        if self.may_revert:
            o = Outcome("revert", St(z3.Or(*self.may_revert), {}, env.storage0, env.transient0, (), ()), words=[])
            o.optional = True
            outs.append(o)
        return outs

    def run_constructor(self, runtime: bytes, imm_len: int, imm_types):
        """deployment (docs/control-structures.rst `__init__`, compiler-exports `bytecode`): the constructor arguments are
        ABI-encoded behind the init code; a non-payable constructor refuses value; every argument word must be canonical;
        on success the code installed is `bytecode_runtime` followed by the immutables at their reported offsets"""
        env = self.env
        self.ctor_mode = True
        st0 = St(z3.BoolVal(True), {}, env.storage0, env.transient0, (), ())
        ctor = None
        for fdef in self.funcs.values():
            if fdef._metadata["func_type"].is_constructor:
                ctor = fdef
        outs = []
        finals = []
        if ctor is None:
            st = self.require(st0, env.callvalue == 0)
            finals.append(st)
        else:
            ft = ctor._metadata["func_type"]
            st = st0
            if not ft.is_payable:
                st = self.require(st, env.callvalue == 0)
            vals = []
            off = 0
            for a in ft.positional_args:
                ws = []
                for i in range(n_words(a.typ)):
                    ws.append(z3.Concat(*[z3.If(z3.ULT(BV(off + j), env.code_tail_len), z3.Select(env.code_tail, BV(off + j)), z3.BitVecVal(0, 8)) for j in range(32)]))
                    off += 32
                for lt, w in zip(_leaf_types(a.typ), ws):
                    st = self.require(st, canonical(lt, w))
                v, _ = unflatten(a.typ, ws)
                vals.append(v)
            for s1, _ in self.run_function(st, ctor, vals):
                finals.append(s1)
        for s1 in finals:
            mem = ByteMem(z3.K(W, z3.BitVecVal(0, 8)))
            for i, b in enumerate(runtime):
                if b:
                    mem = mem.store8(BV(i), z3.BitVecVal(b, 8))
            for name, off in self.immutables.items():
                t = imm_types[name]
                if "imm:" + name not in s1.locals:
                    raise Unsupported(f"immutable {name} not assigned on a constructor path")
                for i, w in enumerate(flatten(t, s1.locals["imm:" + name])):
                    mem = mem.store(BV(len(runtime) + off + 32 * i), w)
            outs.append(Outcome("return", s1, raw={"len": BV(len(runtime) + imm_len), "off": BV(0), "mem": mem}))
        outs += list(self.outcomes)
        if self.reverts:
            outs.append(Outcome("revert", St(z3.Or(*self.reverts), {}, env.storage0, env.transient0, (), ()), words=[]))
        return outs

    def finish(self, st, fdef, argv):
        ft = fdef._metadata["func_type"]
        for s1, val in self.run_function(st, fdef, argv):
            if ft.return_type is None:
                self.outcomes.append(Outcome("stop", s1, words=None))
            else:
                from vverif import spec_abi as A
                from vyper.semantics.types import TupleT

                rt = ft.return_type
                # the return data is the encoding of the tuple of return values (a single value is a 1-tuple)
                # (a tuple of two or more values is flattened into the outputs, as the ABI json declares it; a 1-tuple stays one output)
                types, vals = (list(rt.member_types), list(val)) if (isinstance(rt, TupleT) and len(rt.member_types) > 1) else ([rt], [val])
                self.outcomes.append(Outcome("return", s1, raw=A.encode(types, vals).as_data()))


class _AugNode:
    """presents `target op= value` to Interp.binop as a BinOp node of the target's type"""

    def __init__(self, s, t):
        self.op = s.op
        self._metadata = {"type": t}


def _leaf_types(t):
    if is_word(t):
        return [t]
    out = []
    for m in members(t):
        out += _leaf_types(m)
    return out
