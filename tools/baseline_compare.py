#!/usr/bin/env python3
"""usage: baseline_compare.py <repo dir>   — runs the BASELINE test command on a tree and reports stable_pass tests that no longer pass"""
import json, subprocess, sys, xml.etree.ElementTree as ET, tempfile, os
repo = sys.argv[1] if len(sys.argv) > 1 else "/repo"
base = json.load(open("/root/.vp/BASELINE.json"))
out = tempfile.mktemp(suffix=".xml")
cmd = f"cd {repo} && /venv/bin/python -m pytest -q -p no:cacheprovider --timeout=900 --continue-on-collection-errors --junitxml={out} > /dev/null 2>&1"
subprocess.run(cmd, shell=True)
passed = set()
for tc in ET.parse(out).getroot().iter("testcase"):
    if not any(ch.tag in ("failure", "error", "skipped") for ch in tc):
        passed.add(tc.get("classname") + "::" + tc.get("name"))
os.unlink(out)
stable = set(base["stable_pass"])
missing = sorted(stable - passed)
print(f"stable_pass={len(stable)} passed_now={len(passed)} missing={len(missing)}")
for m in missing[:40]:
    print("  NOT PASSING:", m)
sys.exit(1 if missing else 0)
