#!/usr/bin/env python3
"""Regenerates /verif/MANIFEST.json from the table below (keeps the file valid at all times)."""
import json, os, sys

ROOT = os.path.dirname(os.path.dirname(os.path.abspath(__file__)))
BASE = "cd /repo && /venv/bin/python -m pytest -ra -q -p no:cacheprovider --timeout=900 --continue-on-collection-errors"

# property -> (category, technique, level text, level_note, design_ref)
CLAIMED = {
    "C09": (
        "proof",
        "contract-based deductive verification, template route: the real compiler's bytecode for lock templates is denoted for all calldata/state and composed with itself (two-run re-entry contract), discharged by z3",
        "Per lock template, pipeline and EVM target (transient and storage lock), for all calldata, values and prior state: the generator get_nonreentrant_lock itself (function level, three targets x mutabilities: acquire fails iff locked, writes only the key, release unlocks, fresh contract unlocked, view observes without writing); at every outgoing call/create inside a protected function a second run "
        "of the contract entering any protected entry point (incl. __default__ under the pragma) fails; after a successful protected call (any return path, raw_return, loops, branches) the lock is free. "
        "Per-instance proofs over the lock template family; cross-contract call trees deeper than one re-entry are not modelled.",
        "Trusted: bytecode denotation (sem/), z3; the protected set is read from the front end. Violations are reported without a replayed transaction sequence (no-failing-input-found) "
        "because the counterexample is a two-call history.",
        "DESIGN.md 3/C09",
    ),
    "C11": (
        "other",
        "contract-based verification by exhaustive decision tables (FinEx): every cell of the static-rule tables (mutability lattice x call kind, state/environment access x mutability, "
        "forbidden assignments, recursion, loop bounds) is run through the real front end and compared with the table the property dictates; loop-bound templates: bytecode vs reference semantics, z3",
        "Scoped: decides the rule kernels on their whole abstract domain (152 cells: mutability lattice x call kind, state/transient/environment access x mutability, forbidden assignments, iterator mutation, recursion, loop bounds); "
        "the run-time side of the loop-bound promise (range(n, bound=), range(a, b, bound=) with unsigned and signed counters, DynArray iteration) is proved per template for all start/end/count words against the reference semantics. "
        "Does not decide 'accepted => promise holds at run time' for every program.",
        "Trusted: the expected column (from the property statement).",
        "DESIGN.md 3/C11",
    ),
    "C16": (
        "proof",
        "contract-based deductive verification: PyVC proofs (all values, unrolling with unwinding assertions) of PUSH/PUSH_N/calc_push_size; per-instance lock-step decoding of assembly_to_evm output",
        "For all values < 2**256 and every EVM version: PUSH emits the minimal big-endian immediates (PUSH0 only from shanghai), PUSH_N exactly n bytes, calc_push_size == len(PUSH). "
        "Two-pass agreement of resolve_symbols/_assembly_to_evm (labels at JUMPDESTs, pushed label values, data verbatim, code_end, embedded runtime == bytecode_runtime) is decided per assembly "
        "instance over the template family and a synthetic family covering every item kind - exhaustive per instance, not an unbounded loop invariant.",
        "Trusted: the independent decoder/opcode table, z3, CPython. The opcodes/asm/source-map text outputs are not covered.",
        "DESIGN.md 3/C16",
    ),
    "C01": (
        "proof",
        "contract-based deductive verification, template route: contract `bytecode of compile(P, c) == reference semantics of P` on the real compiler, discharged per template and configuration for all inputs by z3 on the bytecode denotation",
        "Scoped, per instance: for every template program P inside the reference semantics' subset (one-word types, static arrays/structs/tuples, storage incl. HashMap, control flow, internal calls, events, asserts with reasons, public getters, "
        "default arguments, __default__) and each configuration (legacy none/gas/codesize, Venom none/O2/O3/Os), for ALL calldata, values, contexts and prior storage: success/failure, return and revert data, logs and final state of the deployed "
        "run-time bytecode equal the source semantics. Programs are not composed: this is a proof per template, not for every program. Dynamic types, external calls, create and immutables are outside the reference semantics here (C02/C05/C06/C12/C13 cover them).",
        "Trusted: vverif/spec_source.py (reference semantics written from docs/), the front end's parser/type annotations, bytecode denotation (sem/), z3/cvc5. Counterexamples are replayed natively in pyrevm against the reference semantics evaluated concretely.",
        "DESIGN.md 3/C01",
    ),
    "C02": (
        "proof",
        "contract-based deductive verification, relational template contracts: the real compiler's bytecodes under two configurations run against one shared symbolic environment and are proved observationally equal by z3",
        "Per template (all of vverif/contracts/templates_lib.py incl. byte strings, dynamic arrays, external calls, raw_call, create_*, events) and configuration pair (legacy gas vs Venom O2; within each pipeline none/gas/codesize resp. none/O2/O3/Os; "
        "cancun vs paris for stateless templates), for ALL calldata, values, prior state and callee behaviours: same status, return/revert data, logs, outgoing calls (target, value, calldata) and final state (modulo unobservable slack of byte strings). "
        "Every --disable-<optimisation> flag (except simplify-cfg, which makes the compiler panic), inline thresholds 0/1000 and debug mode against the plain configuration on 15 templates. Non-linear arithmetic templates are left to C03. Per-instance proofs.",
        "Trusted: bytecode denotation (sem/), z3/cvc5. Assumes the identity precompile copies its input, code sizes < 2**32, msize a multiple of 32 below 2**32. Storage layouts differ across EVM targets (slot 0 reserved before cancun), so stateful templates are not compared across targets.",
        "DESIGN.md 3/C02",
    ),
    "C08": (
        "proof",
        "contract-based deductive verification, template route: bytecode vs the reference semantics (left-to-right evaluation, by-value copies) on a position x effect template family, all inputs, z3",
        "Per template of the position x effect family (binary/comparison/boolean operators, conditional expression, internal-call arguments incl. nested, assignment and subscript targets, tuple/list literals, builtin/convert/log argument with one effect, "
        "aug-assignment, statement expressions, by-value reads before a later effect) and configuration: for ALL inputs the sequence and payload of logs, the result and the final state equal the reference semantics, "
        "i.e. every effect happens exactly once and in source order. Known findings F9b/F10 (Venom reads multi-word state lazily); F1 (legacy operand order) and F9 (word-sized lazy reads) were repaired (fix: commits).",
        "Trusted: vverif/spec_source.py, bytecode denotation, z3/cvc5. Positions outside the family (external-call arguments, dynamic-array append/pop inside expressions, struct literals) are not covered yet.",
        "DESIGN.md 3/C08",
    ),
    "C12": (
        "proof",
        "contract-based deductive verification, template route: bytecode vs the reference semantics of interface calls with an adversarial callee (success flag, return-data size and bytes universally quantified), z3; raw_call/send/create_* by relational contracts",
        "Per template (return type none/uint256/int128/bool/address/bytes4/tuple/static array x view/pure/nonpayable/payable x value, gas, skip_contract_check, default_return_value; two calls on a path; state around a call) and configuration, "
        "for ALL calldata, state and callee behaviours: STATICCALL iff view/pure, target/value/requested gas forwarded, calldata = selector ++ encoded arguments, a failing callee's revert data propagated unchanged, "
        "no-code target reverts (unless skip_contract_check), return data shorter than the type or out of range reverts, exactly-empty return data yields default_return_value. raw_call, send, raw_revert, create_*: configurations agree for every callee behaviour (relational only).",
        "Trusted: vverif/spec_source.py:Interp.extcall (from docs/interfaces.rst), bytecode denotation, z3. Dynamic return types and dynamic arguments are outside the reference semantics (covered relationally). The documented truncation behaviour of raw_call/create_* is not specified here.",
        "DESIGN.md 3/C12",
    ),
    "C10": (
        "proof",
        "contract-based deductive verification: PyVC proof of SimpleAllocator.allocate_slot (all inputs), exhaustive decision table for layout overrides through the real front end (FinEx), and template contracts 'every write of a setter stays inside the reported range' on the real bytecode (z3, all calldata/state)",
        "SimpleAllocator.allocate_slot for all cursor/size/limit values: returns the old cursor, advances by n, raises iff the range would reach max_slot, hence allocations are ordered and pairwise disjoint. "
        "Layout overrides (37 cells: all permutations of a 4-variable layout, gaps up to 2**256-1, partial overlaps, same slot, missing entry, out of range, re-entrancy key missing/colliding, also across an initialised module): honoured exactly (reported layout == override) or rejected. "
        "Layout templates (mixed types incl. structs, arrays, HashMap, DynArray, Bytes, transient, nested structs, lock) x pipelines x targets, for ALL calldata/state: each setter writes only slots inside its variable's reported range "
        "(HashMap: keccak-derived slot) or the reported re-entrancy key; reported ranges are pairwise disjoint. Function level: core.get_element_ptr in storage/transient (element inside the parent range, all words). Per-instance for the templates; OverridingStorageAllocator itself is only covered through the decision table.",
        "Trusted: bytecode denotation, z3, the PyVC executor, ideal keccak (A4). Immutables (code layout) are covered under C13, not here.",
        "DESIGN.md 3/C10",
    ),
    "C13": (
        "proof",
        "contract-based deductive verification, template route: init code (constructor arguments as a symbolic code tail) denoted for all arguments/values and proved equal to `bytecode_runtime ++ immutables` as assigned by the reference semantics of __init__; run-time reads of immutables via the reference semantics; blueprint preamble executed concretely",
        "Per constructor template (no arguments, word/bool/address/static-array arguments, payable, conditional values, early return, internal calls after an immutable was assigned, storage-only, no constructor) x pipeline x level x target, "
        "for ALL argument bytes (any length), call values and prior state: deployment succeeds iff the reference semantics of __init__ succeeds (no value unless payable, canonical arguments, no revert) and then installs exactly bytecode_runtime followed by "
        "the immutables the constructor assigned, with its storage effects; the deployed run-time code reads those immutables back. PyVC: _runtime_code_offsets (all inputs: the code copy and the immutables section never trample constructor memory). blueprint_bytecode deploys exactly 0xFE7100 ++ bytecode. "
        "Known finding F11 (constructor-less contracts accept value); F12 (Venom `return` in __init__ deployed empty code) repaired.",
        "Trusted: vverif/spec_source.py, bytecode denotation, z3. Dynamic constructor arguments and create_from_blueprint equivalence are not covered.",
        "DESIGN.md 3/C13",
    ),
    "C04": (
        "proof",
        "contract-based deductive verification, template route: bytecode vs reference semantics (bounds-checked subscripts, append/pop, slice/extract32/concat, loops; whole final state compared) on a container template family, all inputs, z3",
        "Per template (static-array reads with every index signedness incl. nested, local and storage writes with neighbouring variables, struct arrays, DynArray append/pop/write/read in storage, transient storage and memory, loops over arrays, "
        "slice/extract32/concat, length-dependent copies) and configuration, for ALL index/start/length words and prior state: the call succeeds iff the access is inside the object's current length and declared bound, returns the addressed data, "
        "and the final storage/transient storage differs from the initial one exactly at the addressed element (whole-state comparison). Function level: core.get_element_ptr for static/dynamic arrays x element sizes x counts x index types x memory/calldata (no revert iff 0 <= ix < length as integers; pointer inside the object; all words). Quick tier: for byte-string operations with symbolic start only the accept/revert decision and result length are decided; contents in the thorough tier.",
        "Trusted: vverif/spec_source.py, spec_abi.py, bytecode denotation, z3/cvc5. Small bounds only (arrays <= 4, byte strings <= 40). Memory-to-memory frames are observed only through returned values.",
        "DESIGN.md 3/C04",
    ),
    "C05": (
        "proof",
        "contract-based deductive verification, template route: bytecode vs reference semantics with the strict ABI decoder of vverif/spec_abi.py, all calldata, z3",
        "Per template (every class of argument word incl. flags, structs, nested static arrays; Bytes/String with bounds 3..33; DynArray of uint8/bool/int128/structs mixing wide and narrow members; word + byte string, two byte strings; "
        "keyword argument of byte-string type) and configuration, for ALL calldata (< 2**32 bytes): if the call succeeds, the values observed are the ABI decoding of the bytes (following the offsets) and lie in their types "
        "(lengths within bounds, every scalar canonical, no address wrap-around); every canonical encoding of in-range values is accepted; other inputs may revert. Dynamic return data of external calls (Bytes, String, with default_return_value; DynArray in the thorough tier): every read inside the payload. Function level: core.clamp_basetype for all 64 integer types, 32 bytesM, address, bool (no revert iff canonical, all words); needs_clamp of both pipelines over a 311-type family. Static return data: C12; constructor arguments: C13.",
        "Trusted: vverif/spec_abi.py (from the ABI specification), spec_source.py, bytecode denotation, z3. abi_decode() is not in the reference semantics yet (covered relationally in C02).",
        "DESIGN.md 3/C05",
    ),
    "C06": (
        "proof",
        "contract-based deductive verification, template route: bytecode vs reference semantics with the canonical ABI encoder of vverif/spec_abi.py (byte-for-byte comparison at every position), all inputs, z3",
        "Per template (tuple/struct/1-tuple returns, byte strings, dynamic arrays, signed words, literals; events with indexed topics, byte-string and dynamic-array data; assert/raise reasons as Error(string); values built in memory that held a longer value "
        "before - overwrite, two logs, log then return, encode in a loop) and configuration, for ALL inputs: return data, log topics/data and revert payloads are byte for byte the canonical ABI encoding (offsets, lengths, zero padding, sign extension). "
        "Calldata of outgoing interface calls with static arguments: C12.",
        "Trusted: vverif/spec_abi.py, spec_source.py, bytecode denotation, z3. abi_encode() builtin, custom errors and dynamic external-call arguments are not in the reference semantics yet.",
        "DESIGN.md 3/C06",
    ),
    "C17": (
        "proof",
        "contract-based deductive verification, template route: `return E(literal operands)` compiled by the real compiler vs the reference semantics run with folding ignored (run-time rules on the same operands); closed formulas discharged by z3",
        "Per expression instance (about 5 000 in the quick tier: + - * // % ** comparisons min max unsafe_* on uint8/int8/int128/uint256/int256 over all pairs of boundary operands; & | ^ ~ << >> addmod mulmod pow_mod256 abs; decimal + - * / floor ceil; "
        "boolean operators; convert of int/decimal/bool/bytesM/hex-bytes literals; membership in literal lists incl. hex literals of different letter case; min_value/max_value/epsilon/len) and configuration: whenever the compiler accepts the program and the run-time "
        "rules give a value, the deployed code returns exactly that value (front-end folding, legacy optimiser folding and Venom SCCP all included). One genuine defect found and repaired (F13).",
        "Trusted: vverif/spec_source.py, spec_vyper.py, bytecode denotation, z3. Instance family, not all operand values (the folding kernels of Venom SCCP and of the legacy optimiser are proved for all literal values under C14/C15). keccak256/sha256/uint2str/as_wei_value/method_id not covered.",
        "DESIGN.md 3/C17",
    ),
    "C19": (
        "other",
        "contract-based verification, template route + exhaustive comparison: ABI json vs an independent derivation from the annotated source; method ids vs keccak4; declared mutability vs the behaviour of the real bytecode for all calldata/state (z3); interface text recompiled",
        "Narrow claim, per template (dispatch shapes with default arguments / dynamic arguments / __default__, public getters incl. nested HashMap and DynArray of structs, structs, tuples, 1-tuples, flags, decimals, events with indexed and dynamic members, lock-protected view functions, constructor): "
        "the ABI json equals the independent derivation (names, canonical type strings, tuple components, output flattening rule, indexed flags, stateMutability, one entry per default-argument variant); method_identifiers are exactly keccak4 of those signatures; "
        "for ALL calldata/state no successful path of a view/pure entry performs a state-changing operation, no successful path of a non-payable entry carries value, every listed entry is served; the generated interface text compiles. "
        "That encoded arguments are accepted and results decode per the declared types is decided against the source types by C05/C06/C07. 'A caller compiled against the interface gets the same results' is not decided.",
        "Trusted: the ABI-json derivation in vverif/contracts/abi_outputs.py, bytecode denotation, z3. One genuine defect found and repaired (F14: interface output listed __default__).",
        "DESIGN.md 3/C19",
    ),
    "C18": (
        "other",
        "contract-based verification by exhaustive evaluation (FinEx) of the integrity-sum contract on a module-graph family; bounded stand-ins (fresh processes with different hash seeds / histories / output orders, archive round trips) for the clauses no function-level contract expresses",
        "Narrow claim. Decided: the reported integrity sum equals H(H(source) ++ sums of the imports in source order) (json inputs: H(content); with a layout override: H(H(override) ++ sum)) on five module graphs incl. a diamond and two same-text modules "
        "whose imports differ, and it changes with every single-file change and with the override. Bounded only (reported under `bounded`, not proved): byte-identical bytecode/ABI/layout/method ids across 6 fresh processes with different PYTHONHASHSEED, "
        "compile histories and output orders for 8 programs x 3 configurations; archive bundles recompiled through the CLI reproduce bytecode and integrity sum. Not decided: determinism for all programs and histories; solc_json bundles; metadata output.",
        "Trusted: hashlib, CPython. The cross-process clauses are not contract-expressible; they are a bounded stand-in by design (DESIGN.md 3/C18).",
        "DESIGN.md 3/C18",
    ),
    "C07": (
        "proof",
        "contract-based deductive verification, template route: the real compiler's run-time bytecode for each contract shape and configuration is denoted for all calldata/values and the dispatch contract is discharged by z3; jump-table kernels by bounded run-time contract evaluation",
        "Per contract shape (1..61 external functions, mixed payability, default arguments, dynamic arguments, selectors with trailing zero bytes or colliding in a bucket, with and without payable / non-payable __default__), "
        "pipeline (legacy linear/sparse/dense, Venom linear/sparse/dense) and EVM target, for ALL calldata (any length and prefix) and call values: success implies the selected entry point (or default-argument variant) ran with its entry "
        "conditions (calldatasize >= 4 + head size, no value unless payable) and its result is computed from the decoded arguments / declared defaults; no match reaches __default__ iff it exists and accepts the value; "
        "every failing path has no accepting entry. Per-instance proofs, not a proof for every contract.",
        "Trusted: bytecode denotation (sem/), z3. codegen/jumptable_utils.py is only exercised by bounded run-time contract evaluation (reported under bounded). Counterexamples are replayed natively in pyrevm.",
        "DESIGN.md 3/C07",
    ),
    "C15": (
        "proof",
        "contract-based deductive verification: PyVC (VCs from the live source of ir/optimizer._optimize_binop, _comparison_helper and the vyper.utils evm_* kernels, all literal values, discharged by z3/cvc5) + relational template contracts optimize=none vs gas/codesize on the real bytecode",
        "Unbounded over literal values in [-2**255, 2**256) and run-time operand words: every rewrite of _optimize_binop (21 operators x operand shapes x parent contexts) denotes the same word (same truthiness in a truthy context), "
        "keeps every complex argument exactly once, and the in-code assertion is unreachable; evm_div/evm_mod/signed_to_unsigned/unsigned_to_signed/wrap256/evm_not/ceil32 equal the Yellow-Paper functions. "
        "Whole legacy optimiser + assembly peephole: per template, optimised and unoptimised bytecode are observationally equal for all calldata/state (per-instance).",
        "Trusted: spec_evm.py, z3/cvc5, the PyVC executor, bytecode denotation. The peephole rules are covered only through the template instances (no window enumeration yet). A few literal-literal smod folding leaves are expected-undecided (ledger).",
        "DESIGN.md 3/C15",
    ),
    "C03": (
        "proof",
        "contract-based deductive verification: GenVC (real generators called on symbolic-leaf operands, emitted IR term denoted, obligations for all operand words discharged by z3/cvc5) + exhaustive evaluation of the pow-bound kernel",
        "Per numeric type and operand shape, universally over 256-bit operand words: safe_add/sub/mul/div/mod of both front ends revert iff the exact result is not representable and "
        "otherwise return it; convert() between all ordered pairs of one-word types in both front ends follows docs/types.rst and both agree; calculate_largest_base exhaustive. "
        "A few signed-multiplication leaves (int256 both-negative, decimal) are reported undecided, not proved.",
        "Trusted: spec_vyper.py/spec_evm.py, z3/cvc5, the term denotation (sem/irterm.py). Operand-shape partition (leaf + listed literals) is a stated bound. "
        "safe_pow: only the bound kernels; calculate_largest_power is a bounded stand-in.",
        "DESIGN.md 3/C03",
    ),
    "C14": (
        "proof",
        "contract-based deductive verification: VCs generated from the live Python source (PyVC) of the Venom analysis kernels, discharged by z3/cvc5",
        "Unbounded proofs (all inputs) of soundness contracts on the kernels every Venom pass trusts: the 20 range evaluators and eval_op, "
        "ValueRange lattice operations, branch refinement (_apply_compare/_narrow_var/_apply_iszero/_apply_eq), SCCP arithmetic, MemoryLocation overlap, the range clients of the passes. Scoped: whole-pass simulation is not decided; IR well-formedness after the pipeline and the printer/parser round trip are bounded stand-ins on 15 templates (re-parsed IR that compiles to different bytes is proved equivalent on the bytecode).",
        "Trusted: spec_evm.py, z3/cvc5, CPython semantics of the modelled builtins, the PyVC executor (mitigated: every counterexample is replayed natively before it is reported).",
        "DESIGN.md 3/C14",
    ),
}
NOT_YET = "not claimed yet at this commit: the check for this property is still being built (see DESIGN.md section 3 for the plan)"
NA = {
    "C20": "no function-level contract expresses 'for every source text the pipeline terminates without an internal error'; "
           "a whole-pipeline robustness property that needs program-level reachability (DESIGN.md 3/C20)",
}

def main():
    props = [json.loads(l)["id"] for l in open(os.path.join(ROOT, "properties.jsonl"))]
    checks = []
    for pid in props:
        if pid not in CLAIMED:
            continue
        cat, tech, text, note, ref = CLAIMED[pid]
        checks.append({
            "property_id": pid,
            "quick_cmd": f"./check.sh {pid} quick",
            "thorough_cmd": f"./check.sh {pid} thorough",
            "evidence_file": f"evidence/{pid}.json",
            "replay_cmd_template": f"PYTHONPATH=/repo:/verif .venv/bin/python -m vverif replay {pid} --file {{path}}",
            "engine": "vverif",
            "level_claimed": {"category": cat, "text": text, "design_ref": ref},
            "level_note": note,
            "technique": tech,
        })
    na = []
    for pid in props:
        if pid in CLAIMED:
            continue
        na.append({"property_id": pid, "reason": NA.get(pid, NOT_YET)})
    man = {
        "version": 1,
        "setup_cmd": "./setup.sh",
        "hooks": {
            "guard": "VYPER_VERIF",
            "enable": "no hooks: the checks import vyper from /repo's working tree unmodified (PYTHONPATH=/repo)",
            "baseline_off_cmd": BASE,
            "source_commits": [],
            "add_only": True,
        },
        "engines": [
            {"name": "PyVC", "path": "vverif/pyvc.py", "serves_properties": sorted(CLAIMED), "kind_free_text": "AST->z3 VC generator over live Python function objects"},
            {"name": "GenVC", "path": "vverif/sem", "serves_properties": sorted(CLAIMED), "kind_free_text": "contracts on generator functions discharged on the denotation of the emitted IR/asm term"},
        ],
        "checks": checks,
        "not_applicable": na,
        "notes": "fix: commits in /repo and recorded findings: known_findings.jsonl; design: DESIGN.md",
    }
    json.dump(man, open(os.path.join(ROOT, "MANIFEST.json"), "w"), indent=1)
    try:
        import jsonschema
        jsonschema.validate(man, json.load(open("/root/.vp/MANIFEST.schema.json")))
        print("MANIFEST.json valid;", len(checks), "checks,", len(na), "not_applicable")
    except ImportError:
        print("written (jsonschema not available for validation)")

main()
