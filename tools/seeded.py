#!/usr/bin/env python3
"""Seeded-change bookkeeping.

  seeded.py import <dir> <name> <property>     copy patch.diff/demo.py/notes.md produced by a sub-agent into seeded/<name>/
  seeded.py verify <name> [--baseline]         scratch worktree of /repo HEAD: demo passes, patch applies, demo fails, (baseline suite passes)
  seeded.py detect <name> [check ids...]       apply the patch to /repo, run the quick checks, undo; records what fired in meta.json
"""
import json
import os
import shutil
import subprocess
import sys
import tempfile

ROOT = os.path.dirname(os.path.dirname(os.path.abspath(__file__)))


def sh(cmd, **kw):
    return subprocess.run(cmd, shell=True, capture_output=True, text=True, **kw)


def meta_path(name):
    return os.path.join(ROOT, "seeded", name, "meta.json")


def load_meta(name):
    return json.load(open(meta_path(name)))


def save_meta(name, m):
    json.dump(m, open(meta_path(name), "w"), indent=1)


def cmd_import(src, name, prop):
    dst = os.path.join(ROOT, "seeded", name)
    os.makedirs(dst, exist_ok=True)
    for f in ("patch.diff", "demo.py", "notes.md"):
        shutil.copy(os.path.join(src, f), os.path.join(dst, f))
    m = {"name": name, "property": prop, "origin": "independent sub-agent given only the property text and a scratch worktree", "verified": None, "detected_by": None}
    notes = open(os.path.join(dst, "notes.md")).read()
    m["needs_to_manifest"] = "see notes.md"
    save_meta(name, m)
    print("imported", name)


def cmd_verify(name, baseline=False):
    d = os.path.join(ROOT, "seeded", name)
    wt = tempfile.mkdtemp(prefix="seedwt_", dir="/tmp")
    os.rmdir(wt)
    r = sh(f"git -C /repo worktree add -q --detach {wt} HEAD")
    assert r.returncode == 0, r.stderr
    res = {}
    try:
        shutil.copy(os.path.join(d, "demo.py"), os.path.join(wt, "demo_seeded.py"))
        run = lambda: sh(f"cd {wt} && PYTHONPATH={wt} /venv/bin/python demo_seeded.py", timeout=1200)
        a = run()
        res["demo_clean_exit"] = a.returncode
        ap = sh(f"git -C {wt} apply {os.path.join(d, 'patch.diff')}")
        res["patch_applies"] = ap.returncode == 0
        if ap.returncode != 0:
            res["apply_error"] = ap.stderr[-500:]
        else:
            b = run()
            res["demo_patched_exit"] = b.returncode
            res["demo_patched_tail"] = (b.stdout + b.stderr)[-600:]
            if baseline:
                c = sh(f"python3 {ROOT}/tools/baseline_compare.py {wt}", timeout=3000)
                res["baseline"] = c.stdout.strip().splitlines()[0] if c.stdout.strip() else c.stderr[-300:]
                res["baseline_ok"] = c.returncode == 0
    finally:
        sh(f"git -C /repo worktree remove --force {wt}")
    m = load_meta(name)
    ok = res.get("demo_clean_exit") == 0 and res.get("patch_applies") and res.get("demo_patched_exit") not in (0, None)
    if baseline:
        ok = ok and res.get("baseline_ok")
    m["verified"] = dict(res, ok=bool(ok), repo_head=sh("git -C /repo rev-parse --short HEAD").stdout.strip(), baseline_run=baseline)
    save_meta(name, m)
    print(name, "verified" if ok else "NOT verified", json.dumps({k: v for k, v in res.items() if k != "demo_patched_tail"}))


def cmd_detect_wt(name, checks):
    """like detect, but on a scratch worktree of /repo HEAD (VVERIF_REPO), so /repo itself stays untouched and other checks
    can run meanwhile; the worktree is removed afterwards"""
    d = os.path.join(ROOT, "seeded", name)
    m = load_meta(name)
    checks = checks or [m["property"]]
    wt = tempfile.mkdtemp(prefix="seeddet_", dir="/tmp")
    os.rmdir(wt)
    r = sh(f"git -C /repo worktree add -q --detach {wt} HEAD")
    assert r.returncode == 0, r.stderr
    out = {}
    try:
        ap = sh(f"git -C {wt} apply {os.path.join(d, 'patch.diff')}")
        if ap.returncode != 0:
            out["apply_error"] = ap.stderr[-300:]
            print(name, "patch does not apply to current HEAD:", ap.stderr[-200:])
        else:
            for c in checks:
                r = sh(f"cd {ROOT} && VVERIF_REPO={wt} VVERIF_NPROC=8 ./check.sh {c} quick", timeout=7200)
                vio = [l for l in r.stdout.splitlines() if l.startswith("VIOLATION")]
                out[c] = {"exit": r.returncode, "violations": vio[:6], "n_violations": len(vio), "summary": r.stdout.strip().splitlines()[-1] if r.stdout.strip() else ""}
                print(name, c, "exit", r.returncode, len(vio), "VIOLATION lines", flush=True)
                for v in vio[:2]:
                    print("   ", v[:200], flush=True)
    finally:
        sh(f"git -C /repo worktree remove --force {wt}")
    m["detected_by"] = dict(m.get("detected_by") or {}, **out)
    m["detected"] = any(isinstance(v, dict) and v.get("exit") == 1 for v in m["detected_by"].values())
    m["detect_repo_head"] = sh("git -C /repo rev-parse --short HEAD").stdout.strip()
    save_meta(name, m)


def cmd_detect(name, checks):
    d = os.path.join(ROOT, "seeded", name)
    m = load_meta(name)
    checks = checks or [m["property"]]
    st = sh("git -C /repo status --porcelain").stdout.strip()
    assert not st, "/repo not clean: " + st
    ap = sh(f"git -C /repo apply {os.path.join(d, 'patch.diff')}")
    assert ap.returncode == 0, ap.stderr
    out = {}
    try:
        for c in checks:
            r = sh(f"cd {ROOT} && ./check.sh {c} quick", timeout=7200)
            vio = [l for l in r.stdout.splitlines() if l.startswith("VIOLATION")]
            out[c] = {"exit": r.returncode, "violations": vio[:6], "n_violations": len(vio), "summary": r.stdout.strip().splitlines()[-1] if r.stdout.strip() else ""}
            print(name, c, "exit", r.returncode, len(vio), "VIOLATION lines")
            for v in vio[:3]:
                print("   ", v)
    finally:
        sh("git -C /repo checkout -- .")
    m["detected_by"] = out
    m["detected"] = any(v["exit"] == 1 for v in out.values())
    save_meta(name, m)


if __name__ == "__main__":
    a = sys.argv[1:]
    if a[0] == "import":
        cmd_import(a[1], a[2], a[3])
    elif a[0] == "verify":
        cmd_verify(a[1], "--baseline" in a)
    elif a[0] == "detect-wt":
        cmd_detect_wt(a[1], [x for x in a[2:] if not x.startswith("--")])
    elif a[0] == "detect":
        cmd_detect(a[1], [x for x in a[2:] if not x.startswith("--")])
