#!/bin/sh
# usage: ./check.sh <property> [quick|thorough]   — cwd-independent; (re)builds the overlay venv when missing
cd "$(dirname "$0")"
[ -x .venv/bin/python ] && .venv/bin/python -c "import z3,cvc5" 2>/dev/null || ./setup.sh >/dev/null || exit 3
TIER="${2:-${VERIF_TIER:-quick}}"
# VVERIF_REPO: tree under verification (default /repo; the seeded-change tooling points it at a scratch worktree)
REPO="${VVERIF_REPO:-/repo}"
PYTHONWARNINGS=ignore PYTHONPATH="$REPO":/verif PYTHONHASHSEED=0 exec .venv/bin/python -m vverif check "$1" --tier "$TIER"
